import Mathlib.Algebra.Field.Basic
import Mathlib.Tactic.Ring
import Mathlib.Algebra.BigOperators.Group.List.Basic
import MidnightZK.Model.C20.MultiOpen
/-!
# C20 — the accumulator of the in-circuit multi-opening equals the off-circuit one (helper lemmas)

MSMs are compared by their variable part (bases and scalars as lists, in order) and by the value of
their fixed-base part at every name (`fixedVal`): `MsmEq`. The in-circuit operations (`scale`,
`add_msm`) and the off-circuit `process_msm` of `Accumulator::from_dual_msm` respect it.
-/
namespace MidnightZK.C20.V
open MidnightZK MidnightZK.C01

variable {F : Type} [Field F] [DecidableEq F]
set_option linter.unusedSectionVars false
set_option linter.unusedSimpArgs false

/-- Total scalar of the fixed base `k` in a fixed-base list. -/
def fixedVal (l : List (String × F)) (k : String) : F := ((l.filter (fun ks => ks.1 = k)).map (·.2)).sum

theorem fixedVal_nil (k : String) : fixedVal ([] : List (String × F)) k = 0 := rfl

theorem fixedVal_cons (a : String × F) (l : List (String × F)) (k : String) :
    fixedVal (a :: l) k = (if a.1 = k then a.2 else 0) + fixedVal l k := by
  unfold fixedVal
  by_cases h : a.1 = k <;> simp [List.filter_cons, h]

theorem fixedVal_insertWith (k : String) (v : F) (l : List (String × F)) (k' : String) :
    fixedVal (insertWith (· + ·) k v l) k' = fixedVal l k' + if k = k' then v else 0 := by
  induction l with
  | nil => simp [insertWith, fixedVal_cons, fixedVal_nil]
  | cons a t ih =>
    obtain ⟨ka, va⟩ := a
    by_cases h1 : k < ka
    · simp only [insertWith, h1, ↓reduceIte, fixedVal_cons]; ring
    · by_cases h2 : k = ka
      · subst h2
        simp only [insertWith, h1, ↓reduceIte, fixedVal_cons]
        split_ifs <;> ring
      · simp only [insertWith, h1, h2, ↓reduceIte, fixedVal_cons, ih]; ring

theorem fixedVal_entryAdd (k : String) (v : F) (l : List (String × F)) (k' : String) :
    fixedVal (entryAdd k v l) k' = fixedVal l k' + if k = k' then v else 0 := by
  induction l with
  | nil => simp [entryAdd, fixedVal_cons, fixedVal_nil]
  | cons a t ih =>
    obtain ⟨ka, va⟩ := a
    by_cases h1 : k < ka
    · simp only [entryAdd, h1, ↓reduceIte, fixedVal_cons, zero_add]; ring
    · by_cases h2 : k = ka
      · subst h2
        simp only [entryAdd, h1, ↓reduceIte, fixedVal_cons]
        split_ifs <;> ring
      · simp only [entryAdd, h1, h2, ↓reduceIte, fixedVal_cons, ih]; ring

theorem fixedVal_foldl_insert (b a : List (String × F)) (k' : String) :
    fixedVal (b.foldl (fun acc ks => insertWith (· + ·) ks.1 ks.2 acc) a) k' = fixedVal a k' + fixedVal b k' := by
  induction b generalizing a with
  | nil => simp [fixedVal_nil]
  | cons x t ih =>
    rw [List.foldl_cons, ih, fixedVal_insertWith, fixedVal_cons]
    ring

theorem fixedVal_scale (r : F) (l : List (String × F)) (k' : String) :
    fixedVal (l.map (fun ks => (ks.1, ks.2 * r))) k' = fixedVal l k' * r := by
  induction l with
  | nil => simp [fixedVal_nil]
  | cons a t ih =>
    rw [List.map_cons, fixedVal_cons, fixedVal_cons, ih]
    simp only
    split_ifs <;> ring

/-- Same variable terms in the same order, same total scalar for every fixed-base name. -/
def MsmEq (a b : GMsm F) : Prop :=
  a.bases = b.bases ∧ a.scalars = b.scalars ∧ ∀ k, fixedVal a.fixed k = fixedVal b.fixed k

theorem MsmEq.refl (a : GMsm F) : MsmEq a a := ⟨rfl, rfl, fun _ => rfl⟩
theorem MsmEq.symm {a b : GMsm F} (h : MsmEq a b) : MsmEq b a := ⟨h.1.symm, h.2.1.symm, fun k => (h.2.2 k).symm⟩
theorem MsmEq.trans {a b c : GMsm F} (h : MsmEq a b) (h' : MsmEq b c) : MsmEq a c :=
  ⟨h.1.trans h'.1, h.2.1.trans h'.2.1, fun k => (h.2.2 k).trans (h'.2.2 k)⟩

theorem MsmEq.addMsm {a a' b b' : GMsm F} (h : MsmEq a a') (h' : MsmEq b b') : MsmEq (a.addMsm b) (a'.addMsm b') := by
  refine ⟨?_, ?_, fun k => ?_⟩
  · simp [Msm.addMsm, h.1, h'.1]
  · simp [Msm.addMsm, h.2.1, h'.2.1]
  · simp only [Msm.addMsm, fixedVal_foldl_insert, h.2.2 k, h'.2.2 k]

theorem MsmEq.scale {a a' : GMsm F} (h : MsmEq a a') (r : F) : MsmEq (a.scale r) (a'.scale r) := by
  refine ⟨?_, ?_, fun k => ?_⟩
  · simp [Msm.scale, h.1]
  · simp [Msm.scale, h.2.1]
  · simp only [Msm.scale, fixedVal_scale, h.2.2 k]

theorem addMsm_assoc (a b c : GMsm F) : MsmEq ((a.addMsm b).addMsm c) (a.addMsm (b.addMsm c)) := by
  refine ⟨?_, ?_, fun k => ?_⟩
  · simp [Msm.addMsm]
  · simp [Msm.addMsm]
  · simp only [Msm.addMsm, fixedVal_foldl_insert]; ring

theorem empty_addMsm (a : GMsm F) : MsmEq ((emptyMsm : GMsm F).addMsm a) a := by
  refine ⟨?_, ?_, fun k => ?_⟩
  · simp [Msm.addMsm, emptyMsm]
  · simp [Msm.addMsm, emptyMsm]
  · simp only [Msm.addMsm, emptyMsm, fixedVal_foldl_insert, fixedVal_nil, zero_add]

theorem addMsm_empty (a : GMsm F) : MsmEq (a.addMsm (emptyMsm : GMsm F)) a := by
  refine ⟨?_, ?_, fun k => ?_⟩
  · simp [Msm.addMsm, emptyMsm]
  · simp [Msm.addMsm, emptyMsm]
  · simp only [Msm.addMsm, emptyMsm, List.foldl_nil]

theorem scale_addMsm (a b : GMsm F) (r : F) : MsmEq ((a.addMsm b).scale r) ((a.scale r).addMsm (b.scale r)) := by
  refine ⟨?_, ?_, fun k => ?_⟩
  · simp [Msm.addMsm, Msm.scale]
  · simp [Msm.addMsm, Msm.scale]
  · simp only [Msm.addMsm, Msm.scale, fixedVal_foldl_insert, fixedVal_scale]; ring

theorem scale_scale (a : GMsm F) (r s : F) : MsmEq ((a.scale r).scale s) (a.scale (r * s)) := by
  refine ⟨?_, ?_, fun k => ?_⟩
  · simp [Msm.scale]
  · simp [Msm.scale, mul_assoc]
  · simp only [Msm.scale, fixedVal_scale]; ring

theorem empty_scale (r : F) : ((emptyMsm : GMsm F).scale r) = emptyMsm := by simp [Msm.scale, emptyMsm]

/-! ## `process_msm` of `from_dual_msm` as a homomorphism -/

/-- One term of the off-circuit dual MSM as an in-circuit MSM. -/
def single (decode : C14.Base → Option TEntry) (t : F × C14.Base) : GMsm F :=
  match decode t.2 with
  | some (.var b) => fromTerm t.1 b
  | some (.fixed name) => fromFixedTerm t.1 name
  | none => emptyMsm

/-- The step of `process_msm` (terms whose base is unknown are skipped; `processMsm` fails on them). -/
def pstep (decode : C14.Base → Option TEntry) (m : GMsm F) (t : F × C14.Base) : GMsm F :=
  match decode t.2 with
  | some (.var b) => { m with bases := m.bases ++ [b], scalars := m.scalars ++ [t.1] }
  | some (.fixed name) => { m with fixed := entryAdd name t.1 m.fixed }
  | none => m

/-- `process_msm`, total. -/
def tau (decode : C14.Base → Option TEntry) (terms : List (F × C14.Base)) : GMsm F :=
  terms.foldl (pstep decode) emptyMsm

theorem processMsm_eq_tau (decode : C14.Base → Option TEntry) (terms : List (F × C14.Base))
    (h : ∀ t ∈ terms, (decode t.2).isSome) : processMsm decode terms = some (tau decode terms) := by
  unfold processMsm tau
  generalize (emptyMsm : GMsm F) = init
  induction terms generalizing init with
  | nil => rfl
  | cons t T ih =>
    have ht := h t (by simp)
    rw [List.foldlM_cons, List.foldl_cons]
    cases hd : decode t.2 with
    | none => rw [hd] at ht; simp at ht
    | some e =>
      cases e with
      | var b => simp only [pstep, hd, Option.bind_eq_bind, Option.bind_some]; exact ih (fun t' ht' => h t' (by simp [ht'])) _
      | fixed n => simp only [pstep, hd, Option.bind_eq_bind, Option.bind_some]; exact ih (fun t' ht' => h t' (by simp [ht'])) _

theorem pstep_eq (decode : C14.Base → Option TEntry) (m : GMsm F) (t : F × C14.Base) :
    MsmEq (pstep decode m t) (m.addMsm (single decode t)) := by
  unfold pstep single
  cases decode t.2 with
  | none => exact (addMsm_empty m).symm
  | some e =>
    cases e with
    | var b => exact ⟨by simp [Msm.addMsm, fromTerm], by simp [Msm.addMsm, fromTerm], fun k => by simp [Msm.addMsm, fromTerm]⟩
    | fixed n =>
      refine ⟨by simp [Msm.addMsm, fromFixedTerm], by simp [Msm.addMsm, fromFixedTerm], fun k => ?_⟩
      simp only [Msm.addMsm, fromFixedTerm, List.foldl_cons, List.foldl_nil, fixedVal_entryAdd, fixedVal_insertWith]

theorem foldl_pstep (decode : C14.Base → Option TEntry) (T : List (F × C14.Base)) (init : GMsm F) :
    MsmEq (T.foldl (pstep decode) init) (init.addMsm (tau decode T)) := by
  induction T generalizing init with
  | nil => exact (addMsm_empty init).symm
  | cons t T ih =>
    have h1 := ih (pstep decode init t)
    have h2 := ih (pstep decode emptyMsm t)
    -- tau (t :: T) ≈ single t ⊕ tau T
    have h3 : MsmEq (tau decode (t :: T)) ((single decode t).addMsm (tau decode T)) :=
      h2.trans (MsmEq.addMsm ((pstep_eq decode emptyMsm t).trans (empty_addMsm _)) (MsmEq.refl _))
    rw [List.foldl_cons]
    exact h1.trans ((MsmEq.addMsm (pstep_eq decode init t) (MsmEq.refl _)).trans
      ((addMsm_assoc _ _ _).trans (MsmEq.addMsm (MsmEq.refl _) h3.symm)))

theorem tau_cons (decode : C14.Base → Option TEntry) (t : F × C14.Base) (T : List (F × C14.Base)) :
    MsmEq (tau decode (t :: T)) ((single decode t).addMsm (tau decode T)) := by
  have h2 := foldl_pstep decode T (pstep decode emptyMsm t)
  exact h2.trans (MsmEq.addMsm ((pstep_eq decode emptyMsm t).trans (empty_addMsm _)) (MsmEq.refl _))

theorem tau_append (decode : C14.Base → Option TEntry) (T1 T2 : List (F × C14.Base)) :
    MsmEq (tau decode (T1 ++ T2)) ((tau decode T1).addMsm (tau decode T2)) := by
  unfold tau
  rw [List.foldl_append]
  exact foldl_pstep decode T2 _

theorem single_scale (decode : C14.Base → Option TEntry) (t : F × C14.Base) (s : F) :
    single decode (t.1 * s, t.2) = (single decode t).scale s := by
  unfold single
  cases decode t.2 with
  | none => simp [empty_scale]
  | some e => cases e <;> simp [fromTerm, fromFixedTerm, Msm.scale]

theorem tau_scale (decode : C14.Base → Option TEntry) (T : List (F × C14.Base)) (s : F) :
    MsmEq (tau decode (T.map (fun t => (t.1 * s, t.2)))) ((tau decode T).scale s) := by
  induction T with
  | nil => simp [tau, empty_scale]; exact MsmEq.refl _
  | cons t T ih =>
    rw [List.map_cons]
    refine (tau_cons decode _ _).trans ?_
    rw [single_scale]
    exact (MsmEq.addMsm (MsmEq.refl _) ih).trans ((scale_addMsm _ _ _).symm.trans (MsmEq.scale (tau_cons decode t T).symm s))

/-- `msm_inner_product` off-circuit (scale the terms, concatenate), then `process_msm`, equals
`msm_inner_product` in-circuit (`scale`, `add_msm`) on the processed MSMs. -/
theorem tau_msmInnerProduct (decode : C14.Base → Option TEntry) (Ts : List (List (F × C14.Base))) (ss : List F) :
    MsmEq (tau decode (C14.msmInnerProduct Ts ss)) (gMsmInnerProduct (Ts.map (tau decode)) ss) := by
  unfold C14.msmInnerProduct gMsmInnerProduct
  suffices h : ∀ init : GMsm F,
      MsmEq (((Ts.map (tau decode)).zip ss).foldl (fun res ms => res.addMsm (ms.1.scale ms.2)) init)
        (init.addMsm (tau decode ((Ts.zip ss).map (fun ms => ms.1.map (fun t => (t.1 * ms.2, t.2)))).flatten)) from
    ((h emptyMsm).trans (empty_addMsm _)).symm
  induction Ts generalizing ss with
  | nil => intro init; simp [tau]; exact (addMsm_empty init).symm
  | cons T Ts ih =>
    intro init
    cases ss with
    | nil => simp [tau]; exact (addMsm_empty init).symm
    | cons s ss =>
      simp only [List.map_cons, List.zip_cons_cons, List.foldl_cons, List.flatten_cons]
      refine (ih ss _).trans ((addMsm_assoc _ _ _).trans (MsmEq.addMsm (MsmEq.refl _) ?_))
      exact ((tau_append decode _ _).trans (MsmEq.addMsm (tau_scale decode T s) (MsmEq.refl _))).symm

/-- Congruence of the in-circuit `msm_inner_product`. -/
theorem gMsmInnerProduct_congr (msms msms' : List (GMsm F)) (ss : List F) (h : List.Forall₂ MsmEq msms msms') :
    MsmEq (gMsmInnerProduct msms ss) (gMsmInnerProduct msms' ss) := by
  unfold gMsmInnerProduct
  suffices hh : ∀ init init' : GMsm F, MsmEq init init' →
      MsmEq ((msms.zip ss).foldl (fun res ms => res.addMsm (ms.1.scale ms.2)) init)
        ((msms'.zip ss).foldl (fun res ms => res.addMsm (ms.1.scale ms.2)) init') from hh _ _ (MsmEq.refl _)
  induction h generalizing ss with
  | nil => intro init init' hi; simpa using hi
  | cons hab _ ih =>
    intro init init' hi
    cases ss with
    | nil => simpa using hi
    | cons s ss =>
      simp only [List.zip_cons_cons, List.foldl_cons]
      exact ih ss _ _ (MsmEq.addMsm hi (MsmEq.scale hab s))

/-! ## the MSM of one commitment -/

theorem decodeOf_idxOf (tbl : List TEntry) (e : TEntry) (h : e ∈ tbl) :
    decodeOf tbl (C14.Base.com (tbl.idxOf e)) = some e := by
  simp [decodeOf, List.getElem?_idxOf h]

/-- The scalars of the quotient commitment: `a, a·sf, a·sf·sf, …`. -/
def hScalars (sf : F) : ℕ → F → List F
  | 0, _ => []
  | n + 1, a => a :: hScalars sf n (a * sf)

theorem offH_fold (tbl : List TEntry) (sf : F) : ∀ (m k : ℕ) (acc : List (F × C14.Base)) (a : F),
    ((List.range' k m).foldl (fun (st : List (F × C14.Base) × F) j =>
        (st.1 ++ [(st.2, C14.Base.com (tbl.idxOf (TEntry.var (.hPiece j))))], st.2 * sf)) (acc, a)).1 =
      acc ++ List.zipWith (fun s j => (s, C14.Base.com (tbl.idxOf (TEntry.var (.hPiece j)))))
        (hScalars sf m a) (List.range' k m) := by
  intro m
  induction m with
  | zero => intro k acc a; simp [hScalars]
  | succ m ih =>
    intro k acc a
    rw [List.range'_succ, List.foldl_cons, ih]
    simp [hScalars]

theorem tau_hterms (tbl : List TEntry) (sf : F) : ∀ (m k : ℕ) (a : F) (init : GMsm F),
    (∀ j ∈ List.range' k m, TEntry.var (.hPiece j) ∈ tbl) →
    (List.zipWith (fun s j => (s, C14.Base.com (tbl.idxOf (TEntry.var (.hPiece j)))))
        (hScalars sf m a) (List.range' k m)).foldl (pstep (decodeOf tbl)) init =
      { bases := init.bases ++ (List.range' k m).map VBase.hPiece, scalars := init.scalars ++ hScalars sf m a,
        fixed := init.fixed } := by
  intro m
  induction m with
  | zero => intro k a init _; simp [hScalars]
  | succ m ih =>
    intro k a init hmem
    rw [List.range'_succ] at hmem ⊢
    simp only [hScalars, List.zipWith_cons_cons, List.foldl_cons]
    rw [ih (k + 1) (a * sf) _ (fun j hj => hmem j (by simp [hj]))]
    simp [pstep, decodeOf_idxOf tbl _ (hmem k (by simp))]

theorem hCommitment_fold (sf : F) : ∀ (m k : ℕ) (M : GMsm F) (a : F),
    ((List.range' k m).foldl (fun (st : GMsm F × F) j =>
        let acc := st.2 * sf
        (addTerm st.1 acc (VBase.hPiece j), acc)) (M, a)).1 =
      { bases := M.bases ++ (List.range' k m).map VBase.hPiece, scalars := M.scalars ++ hScalars sf m (a * sf),
        fixed := M.fixed } := by
  intro m
  induction m with
  | zero => intro k M a; simp [hScalars]
  | succ m ih =>
    intro k M a
    rw [List.range'_succ, List.foldl_cons]
    simp only []
    rw [ih]
    simp [hScalars, addTerm]

theorem hCommitment_eq (sf : F) (n : ℕ) :
    hCommitment sf (n + 1) = { bases := (List.range' 0 (n + 1)).map VBase.hPiece, scalars := hScalars sf (n + 1) 1, fixed := [] } := by
  unfold hCommitment
  rw [List.range_eq_range', List.range'_succ, List.drop_succ_cons, List.drop_zero, hCommitment_fold]
  simp [fromTerm, hScalars, List.range'_succ]

/-- The entries of the commitment table a commitment needs. -/
def entriesOf (names : Names) (nPieces : ℕ) : Com → List TEntry
  | .fixed c => [TEntry.fixed (names.fixed c)]
  | .permCommon k => [TEntry.fixed (names.perm k)]
  | .h => (List.range' 0 nPieces).map fun j => TEntry.var (.hPiece j)
  | c => [TEntry.var (.com c)]

/-- `as_terms` + `process_msm` of one commitment (off-circuit) is the `AssignedMsm` its
`VerifierQuery` carries (in-circuit): a single variable term, a single named fixed term, or the
quotient commitment `Σ sf^j·h_j`. -/
theorem tau_offTerms (names : Names) (tbl : List TEntry) (sf : F) (n : ℕ) (c : Com)
    (hc : ∀ e ∈ entriesOf names (n + 1) c, e ∈ tbl) :
    MsmEq (tau (decodeOf tbl) (offTerms names tbl sf (n + 1) c)) (comMsmOf names (hCommitment sf (n + 1)) c) := by
  have one : ∀ (e : TEntry), e ∈ tbl → tau (decodeOf tbl) [((1 : F), C14.Base.com (tbl.idxOf e))] =
      pstep (decodeOf tbl) emptyMsm ((1 : F), C14.Base.com (tbl.idxOf e)) := fun _ _ => rfl
  cases c with
  | fixed i =>
    have hm := hc (TEntry.fixed (names.fixed i)) (by simp [entriesOf])
    refine ⟨?_, ?_, fun k => ?_⟩ <;>
      simp [offTerms, comMsmOf, tau, pstep, decodeOf_idxOf tbl _ hm, emptyMsm, fromFixedTerm, entryAdd]
  | permCommon i =>
    have hm := hc (TEntry.fixed (names.perm i)) (by simp [entriesOf])
    refine ⟨?_, ?_, fun k => ?_⟩ <;>
      simp [offTerms, comMsmOf, tau, pstep, decodeOf_idxOf tbl _ hm, emptyMsm, fromFixedTerm, entryAdd]
  | h =>
    have hm : ∀ j ∈ List.range' 0 (n + 1), TEntry.var (.hPiece j) ∈ tbl := by
      intro j hj
      exact hc _ (by simp only [entriesOf, List.mem_map]; exact ⟨j, hj, rfl⟩)
    simp only [offTerms, comMsmOf]
    rw [List.range_eq_range', offH_fold, List.nil_append, hCommitment_eq]
    unfold tau
    rw [tau_hterms tbl sf (n + 1) 0 1 emptyMsm hm]
    simp [emptyMsm]
    exact MsmEq.refl _
  | inst p c =>
    have hm := hc (TEntry.var (.com (.inst p c))) (by simp [entriesOf])
    simp [offTerms, comMsmOf, tau, pstep, decodeOf_idxOf tbl _ hm, emptyMsm, fromTerm]; exact MsmEq.refl _
  | advice p c =>
    have hm := hc (TEntry.var (.com (.advice p c))) (by simp [entriesOf])
    simp [offTerms, comMsmOf, tau, pstep, decodeOf_idxOf tbl _ hm, emptyMsm, fromTerm]; exact MsmEq.refl _
  | permProd p c =>
    have hm := hc (TEntry.var (.com (.permProd p c))) (by simp [entriesOf])
    simp [offTerms, comMsmOf, tau, pstep, decodeOf_idxOf tbl _ hm, emptyMsm, fromTerm]; exact MsmEq.refl _
  | lookupProd p c =>
    have hm := hc (TEntry.var (.com (.lookupProd p c))) (by simp [entriesOf])
    simp [offTerms, comMsmOf, tau, pstep, decodeOf_idxOf tbl _ hm, emptyMsm, fromTerm]; exact MsmEq.refl _
  | lookupIn p c =>
    have hm := hc (TEntry.var (.com (.lookupIn p c))) (by simp [entriesOf])
    simp [offTerms, comMsmOf, tau, pstep, decodeOf_idxOf tbl _ hm, emptyMsm, fromTerm]; exact MsmEq.refl _
  | lookupTab p c =>
    have hm := hc (TEntry.var (.com (.lookupTab p c))) (by simp [entriesOf])
    simp [offTerms, comMsmOf, tau, pstep, decodeOf_idxOf tbl _ hm, emptyMsm, fromTerm]; exact MsmEq.refl _
  | trash p c =>
    have hm := hc (TEntry.var (.com (.trash p c))) (by simp [entriesOf])
    simp [offTerms, comMsmOf, tau, pstep, decodeOf_idxOf tbl _ hm, emptyMsm, fromTerm]; exact MsmEq.refl _
  | random =>
    have hm := hc (TEntry.var (.com .random)) (by simp [entriesOf])
    simp [offTerms, comMsmOf, tau, pstep, decodeOf_idxOf tbl _ hm, emptyMsm, fromTerm]; exact MsmEq.refl _

/-! ## the final MSM -/

theorem forall2_map {α β : Type} (R : β → β → Prop) (f g : α → β) (l : List α) (h : ∀ a ∈ l, R (f a) (g a)) :
    List.Forall₂ R (l.map f) (l.map g) := by
  induction l with
  | nil => exact List.Forall₂.nil
  | cons a t ih => exact List.Forall₂.cons (h a (by simp)) (ih (fun b hb => h b (by simp [hb])))

theorem forall2_append {β : Type} (R : β → β → Prop) (a a' b b' : List β) (h : List.Forall₂ R a a')
    (h' : List.Forall₂ R b b') : List.Forall₂ R (a ++ b) (a' ++ b') := by
  induction h with
  | nil => simpa using h'
  | cons hab _ ih => exact List.Forall₂.cons hab ih

/-- The in-circuit final MSM `(Σ x4^i·(Σ x1^j·C_ij) + x4^s·f_com) − v·G + x3·π` built with `scale` /
`add_msm` on `AssignedMsm`s equals `process_msm` of the off-circuit term list
`msm_inner_product(q_coms ++ [f_com], powers(x4)) ++ [(x3, π), (v, −G)]`, for every grouping of
the commitments into sets, all power vectors, `v` and `x3`. -/
theorem final_rhs_eq (names : Names) (tbl : List TEntry) (sf : F) (n : ℕ) (cs : List (List Com)) (pw1 pw4 : List F)
    (v x3 : F) (hc : ∀ set ∈ cs, ∀ c ∈ set, ∀ e ∈ entriesOf names (n + 1) c, e ∈ tbl) :
    MsmEq
      (((gMsmInnerProduct (cs.map (fun set => gMsmInnerProduct (set.map (comMsmOf names (hCommitment sf (n + 1)))) pw1) ++
          [fromTerm 1 VBase.f]) pw4).addMsm (fromFixedTerm v "-G")).addMsm ((fromTerm 1 VBase.pi : GMsm F).scale x3))
      (tau (decodeOf tbl)
        (C14.msmInnerProduct (cs.map (fun set => C14.msmInnerProduct (set.map (offTerms names tbl sf (n + 1))) pw1) ++
          [[((1 : F), C14.Base.f)]]) pw4 ++ [(x3, C14.Base.pi), (v, C14.Base.negG)])) := by
  refine MsmEq.symm ((tau_append _ _ _).trans ?_)
  have hA := tau_msmInnerProduct (F := F) (decodeOf tbl)
    (cs.map (fun set => C14.msmInnerProduct (set.map (offTerms names tbl sf (n + 1))) pw1) ++ [[((1 : F), C14.Base.f)]]) pw4
  have hsets : List.Forall₂ MsmEq
      ((cs.map (fun set => C14.msmInnerProduct (set.map (offTerms names tbl sf (n + 1))) pw1) ++
          [[((1 : F), C14.Base.f)]]).map (tau (decodeOf tbl)))
      (cs.map (fun set => gMsmInnerProduct (set.map (comMsmOf names (hCommitment sf (n + 1)))) pw1) ++
          [fromTerm 1 VBase.f]) := by
    rw [List.map_append, List.map_map]
    refine forall2_append _ _ _ _ _ (forall2_map _ _ _ _ ?_) ?_
    · intro set hset
      simp only [Function.comp]
      refine (tau_msmInnerProduct (decodeOf tbl) _ pw1).trans (gMsmInnerProduct_congr _ _ _ ?_)
      rw [List.map_map]
      exact forall2_map _ _ _ _ (fun c hcs => tau_offTerms names tbl sf n c (hc set hset c hcs))
    · refine List.Forall₂.cons ?_ List.Forall₂.nil
      simp [tau, pstep, decodeOf, emptyMsm, fromTerm]
      exact MsmEq.refl _
  have hX := hA.trans (gMsmInnerProduct_congr _ _ pw4 hsets)
  have hB : tau (decodeOf tbl) [(x3, C14.Base.pi), (v, C14.Base.negG)] =
      ({ bases := [VBase.pi], scalars := [x3], fixed := [("-G", 0 + v)] } : GMsm F) := by
    simp [tau, pstep, decodeOf, emptyMsm, entryAdd]
  rw [hB]
  generalize tau (decodeOf tbl) (C14.msmInnerProduct
    (cs.map (fun set => C14.msmInnerProduct (set.map (offTerms names tbl sf (n + 1))) pw1) ++ [[((1 : F), C14.Base.f)]]) pw4) = A at hX ⊢
  generalize gMsmInnerProduct (cs.map (fun set => gMsmInnerProduct (set.map (comMsmOf names (hCommitment sf (n + 1)))) pw1) ++
    [fromTerm 1 VBase.f]) pw4 = X at hX ⊢
  refine ⟨?_, ?_, fun k => ?_⟩
  · simp [Msm.addMsm, Msm.scale, fromTerm, fromFixedTerm, hX.1]
  · simp [Msm.addMsm, Msm.scale, fromTerm, fromFixedTerm, hX.2.1]
  · simp only [Msm.addMsm, Msm.scale, fromTerm, fromFixedTerm, fixedVal_foldl_insert, hX.2.2 k, List.map_nil,
      fixedVal_nil, add_zero, zero_add]

theorem mem_msmInnerProduct (Ts : List (List (F × C14.Base))) (ss : List F) (t : F × C14.Base)
    (h : t ∈ C14.msmInnerProduct Ts ss) : ∃ T ∈ Ts, ∃ t' ∈ T, t.2 = t'.2 := by
  unfold C14.msmInnerProduct at h
  simp only [List.mem_flatten, List.mem_map] at h
  obtain ⟨l, ⟨ms, hms, rfl⟩, ht⟩ := h
  simp only [List.mem_map] at ht
  obtain ⟨t', ht', rfl⟩ := ht
  exact ⟨ms.1, (List.of_mem_zip hms).1, t', ht', rfl⟩

theorem decode_offTerms (names : Names) (tbl : List TEntry) (sf : F) (n : ℕ) (c : Com)
    (hc : ∀ e ∈ entriesOf names n c, e ∈ tbl) : ∀ t ∈ offTerms names tbl sf n c, (decodeOf tbl t.2).isSome := by
  intro t ht
  cases c with
  | h =>
    simp only [offTerms] at ht
    rw [List.range_eq_range', offH_fold, List.nil_append] at ht
    obtain ⟨i, hi, hti⟩ : ∃ j ∈ List.range' 0 n, t.2 = C14.Base.com (tbl.idxOf (TEntry.var (.hPiece j))) := by
      generalize hScalars sf n 1 = sc at ht
      generalize List.range' 0 n = rg at ht ⊢
      induction sc generalizing rg with
      | nil => simp at ht
      | cons s sc ih =>
        cases rg with
        | nil => simp at ht
        | cons j rg =>
          simp only [List.zipWith_cons_cons, List.mem_cons] at ht
          rcases ht with rfl | ht
          · exact ⟨j, by simp, rfl⟩
          · obtain ⟨j', hj', e⟩ := ih rg ht
            exact ⟨j', by simp [hj'], e⟩
    rw [hti, decodeOf_idxOf tbl _ (hc _ (by simp only [entriesOf, List.mem_map]; exact ⟨i, hi, rfl⟩))]
    rfl
  | fixed i =>
    simp only [offTerms, List.mem_singleton] at ht; subst ht
    rw [decodeOf_idxOf tbl _ (hc _ (by simp [entriesOf]))]; rfl
  | permCommon i =>
    simp only [offTerms, List.mem_singleton] at ht; subst ht
    rw [decodeOf_idxOf tbl _ (hc _ (by simp [entriesOf]))]; rfl
  | inst p c =>
    simp only [offTerms, List.mem_singleton] at ht; subst ht
    rw [decodeOf_idxOf tbl _ (hc _ (by simp [entriesOf]))]; rfl
  | advice p c =>
    simp only [offTerms, List.mem_singleton] at ht; subst ht
    rw [decodeOf_idxOf tbl _ (hc _ (by simp [entriesOf]))]; rfl
  | permProd p c =>
    simp only [offTerms, List.mem_singleton] at ht; subst ht
    rw [decodeOf_idxOf tbl _ (hc _ (by simp [entriesOf]))]; rfl
  | lookupProd p c =>
    simp only [offTerms, List.mem_singleton] at ht; subst ht
    rw [decodeOf_idxOf tbl _ (hc _ (by simp [entriesOf]))]; rfl
  | lookupIn p c =>
    simp only [offTerms, List.mem_singleton] at ht; subst ht
    rw [decodeOf_idxOf tbl _ (hc _ (by simp [entriesOf]))]; rfl
  | lookupTab p c =>
    simp only [offTerms, List.mem_singleton] at ht; subst ht
    rw [decodeOf_idxOf tbl _ (hc _ (by simp [entriesOf]))]; rfl
  | trash p c =>
    simp only [offTerms, List.mem_singleton] at ht; subst ht
    rw [decodeOf_idxOf tbl _ (hc _ (by simp [entriesOf]))]; rfl
  | random =>
    simp only [offTerms, List.mem_singleton] at ht; subst ht
    rw [decodeOf_idxOf tbl _ (hc _ (by simp [entriesOf]))]; rfl

/-- `process_msm` does not hit its `assert_eq!` on the off-circuit right-hand side. -/
theorem processMsm_final (names : Names) (tbl : List TEntry) (sf : F) (n : ℕ) (cs : List (List Com)) (pw1 pw4 : List F)
    (v x3 : F) (hc : ∀ set ∈ cs, ∀ c ∈ set, ∀ e ∈ entriesOf names n c, e ∈ tbl) :
    let terms := C14.msmInnerProduct (cs.map (fun set => C14.msmInnerProduct (set.map (offTerms names tbl sf n)) pw1) ++
          [[((1 : F), C14.Base.f)]]) pw4 ++ [(x3, C14.Base.pi), (v, C14.Base.negG)]
    processMsm (decodeOf tbl) terms = some (tau (decodeOf tbl) terms) := by
  intro terms
  apply processMsm_eq_tau
  intro t ht
  simp only [terms, List.mem_append, List.mem_cons, List.mem_singleton, List.not_mem_nil, or_false] at ht
  rcases ht with ht | rfl | rfl
  · obtain ⟨T, hT, t', ht', e⟩ := mem_msmInnerProduct _ _ _ ht
    rw [e]
    simp only [List.mem_append, List.mem_map, List.mem_singleton] at hT
    rcases hT with ⟨set, hset, rfl⟩ | rfl
    · obtain ⟨T', hT', t'', ht'', e'⟩ := mem_msmInnerProduct _ _ _ ht'
      rw [e']
      simp only [List.mem_map] at hT'
      obtain ⟨c, hcs, rfl⟩ := hT'
      exact decode_offTerms names tbl sf n c (hc set hset c hcs) t'' ht''
    · simp only [List.mem_singleton] at ht'; subst ht'; rfl
  · rfl
  · rfl

/-! ## the scalar side: powers, combined evaluations, `v` -/

theorem gPowersFrom_eq (x : F) : ∀ (m : ℕ) (a : F), gPowersFrom x m a = C14.powersN x m a := by
  intro m
  induction m with
  | zero => intro a; rfl
  | succ m ih => intro a; simp only [gPowersFrom, C14.powersN, ih, mul_comm a x]

/-- `utils.rs: powers` (in-circuit, `acc·x`) and `arithmetic.rs: powers` (off-circuit, `x·cur`)
give the same `n ≥ 1` values. -/
theorem gPowers_eq (x : F) (n : ℕ) (hn : 1 ≤ n) : gPowers x n = C14.powersN x n 1 := by
  obtain ⟨m, rfl⟩ : ∃ m, n = m + 1 := ⟨n - 1, by omega⟩
  simp only [gPowers, C14.powersN, Nat.add_sub_cancel, gPowersFrom_eq, mul_one]

/-- `evals_inner_product`: in-circuit (`mul_add(s, e, res)`) = off-circuit (`res + e·s`). -/
theorem gEvalsInnerProduct_eq (evalsSet : List (List F)) (scalars : List F) :
    gEvalsInnerProduct evalsSet scalars = C14.evalsInnerProduct evalsSet scalars := by
  cases evalsSet with
  | nil => rfl
  | cons e0 t =>
    simp only [gEvalsInnerProduct, C14.evalsInnerProduct]
    congr 1
    funext res es
    have : (fun (r e : F) => es.2 * e + r) = (fun (r e : F) => r + e * es.2) := by funext r e; ring
    rw [this]

theorem gInnerProductF_fold (x : F) : ∀ (vs : List F) (a c : F),
    (vs.zip (gPowersFrom x vs.length c)).foldl (fun acc xy => xy.1 * xy.2 + acc) a =
      (vs.foldl (fun (st : F × F) w => (st.1 + w * st.2, x * st.2)) (a, c)).1 := by
  intro vs
  induction vs with
  | nil => intro a c; rfl
  | cons w vs ih =>
    intro a c
    simp only [List.length_cons, gPowersFrom, List.zip_cons_cons, List.foldl_cons]
    rw [ih, add_comm (w * c) a, mul_comm c x]

/-- `v = inner_product(evals, powers(x4))`: in-circuit (`x0·y0`, then `mul_add`) = off-circuit
(`inner_product(&evals, powers(x4))`), for every non-empty evaluation vector. -/
theorem gInnerProductF_eq (x : F) (es : List F) :
    gInnerProductF es (gPowers x es.length) = C14.innerProductScalars es x := by
  cases es with
  | nil => rfl
  | cons v vs =>
    simp only [gInnerProductF, gPowers, List.length_cons, Nat.add_sub_cancel, C14.innerProductScalars]
    rw [gInnerProductF_fold, mul_one, mul_one]

/-- The denominator of one `f_eval` step: in-circuit `(x3 − p0)·(x3 − p1)…` = off-circuit
`1·(x3 − p0)·(x3 − p1)…`. -/
theorem den_eq (x3 p0 : F) (ps : List F) :
    ps.foldl (fun d pt => d * (x3 - pt)) (x3 - p0) = (p0 :: ps).foldl (fun a p => a * (x3 - p)) 1 := by
  simp [List.foldl_cons]

end MidnightZK.C20.V
