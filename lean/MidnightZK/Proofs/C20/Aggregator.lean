import MidnightZK.Model.C20.Aggregator
import Mathlib.Tactic.Common
import MidnightZK.Proofs.C20.Assign
/-! Lemmas about `LightAggregator::ipa_fixed_bases` (model `aggUnopened` / `ipaFixedBases`). -/
namespace MidnightZK.C20

theorem fixedBaseNames_get (vk : String) (nf np i : Nat) (h : i < nf) :
    (fixedBaseNames vk nf np)[i + 1]? = some (fixedCommitmentName vk i) := by
  simp [fixedBaseNames, List.getElem?_append_left, h]

/-- `unopened(name)` of `ipa_fixed_bases`: `name` is the name of a fixed commitment `i < nb_fixed`
that is the column of no fixed query. -/
theorem aggUnopened_iff (nb : Nat) (q : List Nat) (name : String) :
    aggUnopened nb q name = true ↔ ∃ i, i < nb ∧ name = fixedCommitmentName "inner_vk" i ∧ i ∉ q := by
  unfold aggUnopened
  simp only [List.any_eq_true, List.mem_range, Bool.and_eq_true, beq_iff_eq, Bool.not_eq_true', List.contains_eq_mem,
    decide_eq_false_iff_not]
  constructor
  · rintro ⟨i, hi, h1, h2⟩
    rw [fixedBaseNames_get _ _ _ _ hi] at h1
    exact ⟨i, hi, (Option.some.inj h1).symm, h2⟩
  · rintro ⟨i, hi, h1, h2⟩
    exact ⟨i, hi, by rw [fixedBaseNames_get _ _ _ _ hi, h1], h2⟩

section
variable {G : Type}

theorem ipaFixedBases_mem (nb : Nat) (q : List Nat) (fb : List (String × G)) (kb : String × G) :
    kb ∈ ipaFixedBases nb q fb ↔ kb ∈ fb ∧ ¬ ∃ i, i < nb ∧ kb.1 = fixedCommitmentName "inner_vk" i ∧ i ∉ q := by
  simp only [ipaFixedBases, List.mem_filter, Bool.not_eq_true', ← aggUnopened_iff]
  simp

/-- If every fixed column is the column of some fixed query, nothing is dropped. -/
theorem ipaFixedBases_all_queried (nb : Nat) (q : List Nat) (fb : List (String × G))
    (h : ∀ i, i < nb → i ∈ q) : ipaFixedBases nb q fb = fb := by
  unfold ipaFixedBases
  rw [List.filter_eq_self]
  intro kb _
  have : ¬ aggUnopened nb q kb.1 = true := by
    rw [aggUnopened_iff]; rintro ⟨i, hi, _, h2⟩; exact h2 (h i hi)
  simpa using this


/-- Two strictly increasing lists of names with the same members are equal. -/
theorem sorted_names_ext (l1 l2 : List String) (h1 : l1.Pairwise (· < ·)) (h2 : l2.Pairwise (· < ·))
    (h : ∀ k, k ∈ l1 ↔ k ∈ l2) : l1 = l2 := by
  apply List.Perm.eq_of_pairwise (le := (· ≤ ·)) (fun a b _ _ hab hba => le_antisymm hab hba)
    (h1.imp le_of_lt) (h2.imp le_of_lt)
  exact (List.perm_ext_iff_of_nodup (h1.imp ne_of_lt) (h2.imp ne_of_lt)).2 h

theorem ipaFixedBases_keys (nb : Nat) (q : List Nat) (fb : List (String × G)) :
    (ipaFixedBases nb q fb).map (·.1) = (fb.map (·.1)).filter (fun k => !aggUnopened nb q k) := by
  unfold ipaFixedBases
  induction fb with
  | nil => rfl
  | cons a t ih =>
    simp only [List.filter_cons, List.map_cons]
    split <;> simp [ih]

end
end MidnightZK.C20
