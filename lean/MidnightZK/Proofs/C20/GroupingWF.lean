import Mathlib.Tactic.Common
import MidnightZK.Model.C14.Sets
/-!
# C20 — the grouping of a non-empty query list is well formed: there is a point set and no point
set is empty (needed because `evaluate_interpolated_polynomial` and `lagrange_interpolate` differ
on an empty point list).
-/
namespace MidnightZK.C14

section
variable {C P E : Type} [DecidableEq C] [DecidableEq P]

/-- Invariant of the first loop: every entry of the commitment map has at least one point index,
and all its point indices are positions of `pts`. -/
def CmOk (n : Nat) (cm : List (C × List Nat)) : Prop := ∀ e ∈ cm, e.2 ≠ [] ∧ ∀ i ∈ e.2, i < n

theorem CmOk.mono {n m : Nat} {cm : List (C × List Nat)} (h : CmOk n cm) (hnm : n ≤ m) : CmOk m cm :=
  fun e he => ⟨(h e he).1, fun i hi => Nat.lt_of_lt_of_le ((h e he).2 i hi) hnm⟩

theorem addPoint_ok (n : Nat) : ∀ (cm : List (C × List Nat)) (c : C) (i : Nat) (cm' : List (C × List Nat)),
    CmOk n cm → i < n → addPoint cm c i = some cm' → CmOk n cm' ∧ cm' ≠ []
  | [], c, i, cm', _, hi, h => by
    simp only [addPoint, Option.some.injEq] at h; subst h
    refine ⟨?_, by simp⟩
    intro e he; simp only [List.mem_singleton] at he; subst he
    exact ⟨by simp, fun j hj => by simp at hj; omega⟩
  | e :: es, c, i, cm', hok, hi, h => by
    simp only [addPoint] at h
    split at h
    · split at h
      · simp at h
      · simp only [Option.some.injEq] at h; subst h
        refine ⟨?_, by simp⟩
        intro e' he'
        simp only [List.mem_cons] at he'
        rcases he' with rfl | he'
        · refine ⟨by simp, fun j hj => ?_⟩
          simp only [List.mem_append, List.mem_singleton] at hj
          rcases hj with hj | rfl
          · exact (hok e (by simp)).2 j hj
          · exact hi
        · exact hok e' (by simp [he'])
    · cases hr : addPoint es c i with
      | none => rw [hr] at h; simp at h
      | some r =>
        rw [hr] at h; simp only [Option.map_some, Option.some.injEq] at h; subst h
        have := addPoint_ok n es c i r (fun e' he' => hok e' (by simp [he'])) hi hr
        refine ⟨?_, by simp⟩
        intro e' he'
        simp only [List.mem_cons] at he'
        rcases he' with rfl | he'
        · exact hok e' (by simp)
        · exact this.1 e' he'

theorem insertNew_length {α : Type} [DecidableEq α] (l : List α) (x : α) : l.length ≤ (insertNew l x).length := by
  unfold insertNew; split <;> simp

theorem insertNew_mem {α : Type} [DecidableEq α] (l : List α) (x : α) : x ∈ insertNew l x := by
  unfold insertNew; split <;> simp [*]

theorem phase1_ok : ∀ (qs : List (Query C P E)) (pts : List P) (cm : List (C × List Nat)) (r : List P × List (C × List Nat)),
    CmOk pts.length cm → (qs ≠ [] ∨ cm ≠ []) → phase1 qs pts cm = some r → CmOk r.1.length r.2 ∧ r.2 ≠ []
  | [], pts, cm, r, hok, hne, h => by
    simp only [phase1, Option.some.injEq] at h; subst h
    exact ⟨hok, by rcases hne with h | h; exact absurd rfl h; exact h⟩
  | q :: qs, pts, cm, r, hok, _, h => by
    simp only [phase1] at h
    cases ha : addPoint cm q.com ((insertNew pts q.point).idxOf q.point) with
    | none => rw [ha] at h; simp at h
    | some cm' =>
      rw [ha] at h
      have hidx : (insertNew pts q.point).idxOf q.point < (insertNew pts q.point).length :=
        List.idxOf_lt_length_of_mem (insertNew_mem pts q.point)
      have := addPoint_ok (insertNew pts q.point).length cm q.com _ cm' (hok.mono (insertNew_length pts q.point)) hidx ha
      exact phase1_ok qs _ cm' r this.1 (Or.inr this.2) h

theorem btreeSet_mem (l : List Nat) (x : Nat) : x ∈ btreeSet l ↔ x ∈ l := by
  have hins : ∀ (y : Nat) (s : List Nat), x ∈ insertSorted y s ↔ x = y ∨ x ∈ s := by
    intro y s
    induction s with
    | nil => simp [insertSorted]
    | cons z s ih =>
      simp only [insertSorted]
      split
      · simp
      · split
        · rename_i h; subst h; simp
        · simp only [List.mem_cons]; rw [ih]; tauto
  induction l with
  | nil => simp [btreeSet]
  | cons y l ih =>
    have : btreeSet (y :: l) = insertSorted y (btreeSet l) := rfl
    rw [this, hins]
    constructor
    · rintro (h | h)
      · simp [h]
      · exact List.mem_cons_of_mem _ (ih.1 h)
    · intro h
      rcases List.mem_cons.1 h with h | h
      · exact Or.inl h
      · exact Or.inr (ih.2 h)

theorem phase2_mem (cm : List (C × List Nat)) : ∀ s ∈ phase2 cm, ∃ e ∈ cm, s = btreeSet e.2 := by
  unfold phase2
  have : ∀ (l : List (C × List Nat)) (init : List (List Nat)),
      ∀ s ∈ l.foldl (fun sets e => insertNew sets (btreeSet e.2)) init, s ∈ init ∨ ∃ e ∈ l, s = btreeSet e.2 := by
    intro l
    induction l with
    | nil => intro init s hs; exact Or.inl hs
    | cons e l ih =>
      intro init s hs
      simp only [List.foldl_cons] at hs
      rcases ih _ s hs with h | ⟨e', he', rfl⟩
      · unfold insertNew at h
        split at h
        · exact Or.inl h
        · rcases List.mem_append.1 h with h | h
          · exact Or.inl h
          · simp only [List.mem_singleton] at h; exact Or.inr ⟨e, by simp, h⟩
      · exact Or.inr ⟨e', by simp [he'], rfl⟩
  intro s hs
  rcases this cm [] s hs with h | h
  · simp at h
  · exact h

theorem phase2_ne (cm : List (C × List Nat)) (h : cm ≠ []) : phase2 cm ≠ [] := by
  unfold phase2
  have : ∀ (l : List (C × List Nat)) (init : List (List Nat)), init ≠ [] →
      l.foldl (fun sets e => insertNew sets (btreeSet e.2)) init ≠ [] := by
    intro l
    induction l with
    | nil => intro init h; exact h
    | cons e l ih =>
      intro init h
      simp only [List.foldl_cons]
      apply ih
      intro h0
      have := insertNew_length init (btreeSet e.2)
      rw [h0] at this
      cases init with
      | nil => exact h rfl
      | cons a t => simp at this
  cases cm with
  | nil => exact absurd rfl h
  | cons e l =>
    simp only [List.foldl_cons]
    apply this
    intro h0
    have := insertNew_mem ([] : List (List Nat)) (btreeSet e.2)
    rw [h0] at this; simp at this

/-- **The grouping of a non-empty query list has a point set, and no point set is empty.** -/
theorem construct_wf (dflt : E) (qs : List (Query C P E)) (hne : qs ≠ [])
    (cm : List (CommitmentData C E)) (psets : List (List P))
    (h : constructIntermediateSets dflt qs = some (cm, psets)) :
    psets ≠ [] ∧ ∀ s ∈ psets, s ≠ [] := by
  unfold constructIntermediateSets at h
  cases hp : phase1 qs ([] : List P) ([] : List (C × List Nat)) with
  | none => rw [hp] at h; simp at h
  | some r =>
    obtain ⟨pts, cm0⟩ := r
    rw [hp] at h
    simp only [Option.some.injEq, Prod.mk.injEq] at h
    obtain ⟨_, rfl⟩ := h
    have hok := phase1_ok qs [] [] (pts, cm0) (by intro e he; simp at he) (Or.inl hne) hp
    refine ⟨by simpa using phase2_ne cm0 hok.2, ?_⟩
    intro s hs
    simp only [List.mem_map] at hs
    obtain ⟨set, hset, rfl⟩ := hs
    obtain ⟨e, he, rfl⟩ := phase2_mem cm0 set hset
    obtain ⟨hne2, hlt⟩ := hok.1 e he
    cases h2 : e.2 with
    | nil => exact absurd h2 hne2
    | cons i t =>
      have hi : i ∈ btreeSet e.2 := (btreeSet_mem e.2 i).2 (by simp [h2])
      have hil : i < pts.length := hlt i (by simp [h2])
      intro h0
      have : pts[i] ∈ (btreeSet e.2).filterMap (fun j => pts[j]?) :=
        List.mem_filterMap.2 ⟨i, hi, by simp [hil]⟩
      rw [h2] at this
      rw [h0] at this; simp at this

end
end MidnightZK.C14
