import Mathlib.Data.ZMod.Basic
import Mathlib.Tactic.Ring
import Mathlib.Tactic.LinearCombination
import MidnightZK.Model.C20.Verify
import MidnightZK.Proofs.C02.Bridge
/-!
# C20 — the arithmetic of the in-circuit verifier equals the off-circuit one (helper lemmas)

`Model/C20/Verify.lean` (order of operations of the gadget) against `Model/C02/Identities.lean`
(order of operations of `proofs/src/plonk`), both on canonical naturals: every value is compared
after casting to `ZMod p` (cast lemmas of `Proofs/C02/Bridge.lean`), and two reduced naturals
with equal casts are equal.
-/
namespace MidnightZK.C20.V
open MidnightZK MidnightZK.C02 MidnightZK.C02.Ids

variable {p : ℕ} [NeZero p]
set_option linter.unusedSectionVars false

theorem ppos : 0 < p := Nat.pos_of_ne_zero (NeZero.ne p)

theorem eq_of_cast {a b : ℕ} (ha : a < p) (hb : b < p) (h : (a : ZMod p) = b) : a = b := by
  have := (ZMod.natCast_eq_natCast_iff' a b p).1 h
  rwa [Nat.mod_eq_of_lt ha, Nat.mod_eq_of_lt hb] at this

theorem fadd_lt (a b : ℕ) : fadd p a b < p := Nat.mod_lt _ ppos
theorem fmul_lt (a b : ℕ) : fmul p a b < p := Nat.mod_lt _ ppos
theorem fsub_lt (a b : ℕ) : fsub p a b < p := Nat.mod_lt _ ppos
theorem fneg_lt (a : ℕ) : fneg p a < p := Nat.mod_lt _ ppos

/-- Equality of two products reduced mod `p`, from equality of the casts. -/
theorem fmul_eq_of_cast {a b c d : ℕ} (h : ((a : ZMod p) * b) = (c : ZMod p) * d) : fmul p a b = fmul p c d :=
  eq_of_cast (fmul_lt _ _) (fmul_lt _ _) (by rw [cast_fmul, cast_fmul, h])

theorem cast_mone : ((mone p : ℕ) : ZMod p) = -1 := by
  rw [mone, cast_fneg]; simp

theorem cast_linComb (terms : List (ℕ × ℕ)) (k : ℕ) :
    ((linComb p terms k : ℕ) : ZMod p) =
      terms.foldl (fun acc t => acc + (t.1 : ZMod p) * (t.2 : ZMod p)) (k : ZMod p) := by
  unfold linComb
  rw [foldl_cast (p := p) (fun acc (t : ℕ × ℕ) => fadd p acc (fmul p t.1 t.2))
    (fun acc t => acc + (t.1 : ZMod p) * (t.2 : ZMod p)) (by intro a x; rw [cast_fadd, cast_fmul])]
  simp

theorem linComb_lt (terms : List (ℕ × ℕ)) (k : ℕ) : linComb p terms k < p := by
  unfold linComb
  induction terms using List.reverseRecOn with
  | nil => exact Nat.mod_lt _ ppos
  | append_singleton l a _ => rw [List.foldl_append]; exact fadd_lt _ _

theorem cast_addAndMul (ax bY cz : ℕ × ℕ) (k m : ℕ) :
    ((addAndMul p ax bY cz k m : ℕ) : ZMod p) =
      (ax.1 : ZMod p) * ax.2 + (bY.1 : ZMod p) * bY.2 + (cz.1 : ZMod p) * cz.2 + k + (m : ZMod p) * ax.2 * bY.2 := by
  unfold addAndMul
  rw [cast_linComb]
  simp only [List.foldl_cons, List.foldl_nil, cast_fmul]
  ring

theorem addAndMul_lt (ax bY cz : ℕ × ℕ) (k m : ℕ) : addAndMul p ax bY cz k m < p := linComb_lt _ _

theorem cast_mulAdd (x y z : ℕ) : ((mulAdd p x y z : ℕ) : ZMod p) = (x : ZMod p) * y + z := by
  unfold mulAdd; rw [cast_addAndMul]; simp only [Nat.cast_zero, Nat.cast_one]; ring

theorem mulAdd_lt (x y z : ℕ) : mulAdd p x y z < p := addAndMul_lt _ _ _ _ _

theorem cast_invMod (a : ℕ) : ((invMod a p : ℕ) : ZMod p) = (a : ZMod p) ^ (p - 2) := by
  unfold invMod; rw [cast_powMod]

theorem cast_cdiv (a b : ℕ) : ((cdiv p a b : ℕ) : ZMod p) = (a : ZMod p) * (b : ZMod p) ^ (p - 2) := by
  unfold cdiv; rw [cast_fmul, cast_invMod]

theorem cast_cmulK (x y k : ℕ) : ((cmulK p x y k : ℕ) : ZMod p) = (k : ZMod p) * ((x : ZMod p) * y) := by
  unfold cmulK; rw [cast_fmul, cast_fmul, ZMod.natCast_mod]

/-! ## expressions -/

/-- `eval_expression` (in-circuit) and `Expression::evaluate` with the verifier's closures
(off-circuit) are the same function wherever the former does not panic. -/
theorem gEvalExpr_eq (e : Env) (ex : Expr) (v : ℕ) (h : gEvalExpr e ex = some v) : v = evalQ e ex := by
  induction ex generalizing v with
  | const c => simp [gEvalExpr] at h; simp [evalQ, h]
  | fixed c r => simp [gEvalExpr] at h; simp [evalQ, h]
  | advice c r => simp [gEvalExpr] at h; simp [evalQ, h]
  | inst c r => simp [gEvalExpr] at h; simp [evalQ, h]
  | challenge i => simp [gEvalExpr] at h
  | neg a ih =>
    simp only [gEvalExpr, Option.map_eq_some_iff] at h
    obtain ⟨va, ha, rfl⟩ := h
    rw [evalQ, ih va ha]
  | sum a b iha ihb =>
    simp only [gEvalExpr, bind, Option.bind_eq_some_iff, pure, Option.some.injEq] at h
    obtain ⟨va, ha, vb, hb, rfl⟩ := h
    rw [evalQ, iha va ha, ihb vb hb]
  | prod a b iha ihb =>
    simp only [gEvalExpr, bind, Option.bind_eq_some_iff, pure, Option.some.injEq] at h
    obtain ⟨va, ha, vb, hb, rfl⟩ := h
    rw [evalQ, iha va ha, ihb vb hb]
  | scaled a c ih =>
    simp only [gEvalExpr, Option.map_eq_some_iff] at h
    obtain ⟨va, ha, rfl⟩ := h
    rw [evalQ, ih va ha]

theorem mapM_gEvalExpr_eq (e : Env) (es : List Expr) (vs : List ℕ) (h : es.mapM (gEvalExpr e) = some vs) :
    vs = es.map (evalQ e) := by
  induction es generalizing vs with
  | nil => simp at h; simp [h]
  | cons x t ih =>
    rw [List.mapM_cons] at h
    simp only [bind, Option.bind_eq_some_iff, pure, Option.some.injEq] at h
    obtain ⟨v, hv, vt, hvt, rfl⟩ := h
    rw [List.map_cons, gEvalExpr_eq e x v hv, ih vt hvt]

/-- `try_reduce(values, acc·r + v)` against `fold(0, acc·r + v)`, after the cast. -/
theorem cast_tryReduce (r : ℕ) (vs : List ℕ) (v : ℕ) (h : tryReduce p r vs = some v) :
    ((v : ℕ) : ZMod p) = vs.foldl (fun (acc : ZMod p) (w : ℕ) => acc * (r : ZMod p) + (w : ZMod p)) 0 := by
  cases vs with
  | nil => simp [tryReduce] at h
  | cons v0 t =>
    simp only [tryReduce, Option.some.injEq] at h
    subst h
    rw [foldl_cast (p := p) (fun acc w => mulAdd p acc r w)
      (fun (acc : ZMod p) (w : ℕ) => acc * (r : ZMod p) + (w : ZMod p)) (by intro a x; rw [cast_mulAdd])]
    simp

/-- `compress_expressions` (in-circuit) and `compress` (off-circuit) agree modulo `p`. -/
theorem cast_gCompress (e : Env) (hp : e.p = p) (r : ℕ) (es : List Expr) (v : ℕ)
    (h : gCompress e r es = some v) : ((v : ℕ) : ZMod p) = ((compress e r es : ℕ) : ZMod p) := by
  unfold gCompress at h
  simp only [Option.bind_eq_some_iff] at h
  obtain ⟨vs, hvs, hv⟩ := h
  rw [mapM_gEvalExpr_eq e es vs hvs] at hv
  subst hp
  rw [cast_tryReduce r _ v hv, cast_compress e rfl, List.foldl_map]

/-! ## lookup and trash identities -/

/-- The cast of every gadget operation, as ring operations. -/
macro "castring" : tactic =>
  `(tactic| (simp only [cast_addAndMul, cast_fmul, cast_fadd, cast_fsub, cast_fneg, cast_mone, cast_linComb,
      cast_mulAdd, cast_cmulK, List.foldl_cons, List.foldl_nil, Nat.cast_one, Nat.cast_zero]; ring))

/-- `lookup_expressions` (in-circuit) = `lookup::Evaluated::expressions` (off-circuit), value by
value in order. -/
theorem gLookupIdsOne_eq (e : Env) (hp : e.p = p) (L : Lagrange) (ch : Challenges) (li : ℕ) (ev : LookupEvals)
    (arg : List Expr × List Expr) (v : List ℕ)
    (h : gLookupIdsOne e L ch.theta ch.beta ch.gamma ev arg = some v) :
    v = (lookupIdsOne e L ch li ev arg).map (·.2) := by
  unfold gLookupIdsOne at h
  simp only [bind, Option.bind_eq_some_iff, pure, Option.some.injEq] at h
  obtain ⟨c1, h1, c2, h2, rfl⟩ := h
  have e1 := cast_gCompress e hp ch.theta arg.1 c1 h1
  have e2 := cast_gCompress e hp ch.theta arg.2 c2 h2
  subst hp
  simp only [lookupIdsOne, List.map_cons, List.map_nil]
  refine congrArg₂ List.cons ?_ (congrArg₂ List.cons ?_ (congrArg₂ List.cons ?_
    (congrArg₂ List.cons rfl (congrArg₂ List.cons ?_ rfl))))
  · exact eq_of_cast (addAndMul_lt ..) (fmul_lt ..) (by castring)
  · exact eq_of_cast (fmul_lt ..) (fmul_lt ..) (by castring)
  · refine eq_of_cast (fmul_lt ..) (fmul_lt ..) ?_
    simp only [cast_fmul, cast_fadd, cast_fsub, cast_mone, cast_linComb, List.foldl_cons, List.foldl_nil,
      Nat.cast_one, e1, e2]
    ring
  · exact eq_of_cast (fmul_lt ..) (fmul_lt ..) (by castring)

theorem mapM_eq_map_of {α β : Type} (g : α → Option β) (g' : α → β) (l : List α) (r : List β)
    (hg : ∀ a ∈ l, ∀ b, g a = some b → b = g' a) (h : l.mapM g = some r) : r = l.map g' := by
  induction l generalizing r with
  | nil => simp at h; simp [h]
  | cons x t ih =>
    rw [List.mapM_cons] at h
    simp only [bind, Option.bind_eq_some_iff, pure, Option.some.injEq] at h
    obtain ⟨b, hb, bt, hbt, rfl⟩ := h
    rw [List.map_cons, hg x (by simp) b hb, ih bt (fun a ha => hg a (by simp [ha])) hbt]

theorem zipIdx_flatMap_forget {α : Type} (w : α → ℕ → List (IdClass × ℕ)) (w' : α → List ℕ) (l : List α) (k : ℕ)
    (hw : ∀ a i, (w a i).map (·.2) = w' a) :
    ((l.zipIdx k).flatMap fun (a, i) => w a i).map (·.2) = (l.map w').flatten := by
  induction l generalizing k with
  | nil => rfl
  | cons a t ih => simp only [List.zipIdx_cons, List.flatMap_cons, List.map_append, List.map_cons, List.flatten_cons, ih, hw]

theorem zipIdx_map_forget' {α : Type} (w : α → ℕ → IdClass × ℕ) (w' : α → ℕ) (l : List α) (k : ℕ)
    (hw : ∀ a i, (w a i).2 = w' a) :
    ((l.zipIdx k).map fun (a, i) => w a i).map (·.2) = l.map w' := by
  induction l generalizing k with
  | nil => rfl
  | cons a t ih => simp only [List.zipIdx_cons, List.map_cons, ih, hw]

theorem gLookupIds_eq (e : Env) (hp : e.p = p) (L : Lagrange) (ch : Challenges) (evs : List LookupEvals) (v : List ℕ)
    (h : gLookupIds e L ch.theta ch.beta ch.gamma evs = some v) :
    v = (lookupIds e L ch evs).map (·.2) := by
  unfold gLookupIds at h
  simp only [Option.map_eq_some_iff] at h
  obtain ⟨r, hr, rfl⟩ := h
  have := mapM_eq_map_of _ (fun ea : LookupEvals × (List Expr × List Expr) => (lookupIdsOne e L ch 0 ea.1 ea.2).map (·.2))
    _ r (fun a _ b hb => gLookupIdsOne_eq e hp L ch 0 a.1 a.2 b hb) hr
  rw [this]
  unfold lookupIds
  exact (zipIdx_flatMap_forget (fun (ea : LookupEvals × (List Expr × List Expr)) li => lookupIdsOne e L ch li ea.1 ea.2)
    (fun ea => (lookupIdsOne e L ch 0 ea.1 ea.2).map (·.2)) (evs.zip e.cs.lookups) 0
    (by intro a i; simp [lookupIdsOne])).symm

/-- `trash_expressions` (in-circuit, `compressed − trash + q·trash`) = `trash::Evaluated::expressions`
(off-circuit, `compressed − (1 − q)·trash`). -/
theorem gTrashId_eq (e : Env) (hp : e.p = p) (ch : Challenges) (trashEval : ℕ) (arg : Expr × List Expr) (v : ℕ)
    (h : gTrashId e ch.trash trashEval arg = some v) : v = trashIdOne e ch trashEval arg := by
  unfold gTrashId at h
  simp only [bind, Option.bind_eq_some_iff, pure, Option.some.injEq] at h
  obtain ⟨c, hc, q, hq, rfl⟩ := h
  have e1 := cast_gCompress e hp ch.trash arg.2 c hc
  have e2 := gEvalExpr_eq e arg.1 q hq
  subst hp
  unfold trashIdOne
  refine eq_of_cast (addAndMul_lt ..) (fsub_lt ..) ?_
  simp only [cast_addAndMul, cast_fmul, cast_fsub, cast_mone, Nat.cast_one, Nat.cast_zero, e1, e2]
  ring

theorem gTrashIds_eq (e : Env) (hp : e.p = p) (ch : Challenges) (evs : List ℕ) (v : List ℕ)
    (h : gTrashIds e ch.trash evs = some v) : v = (trashIds e ch evs).map (·.2) := by
  unfold gTrashIds at h
  rw [mapM_eq_map_of _ (fun ea : ℕ × (Expr × List Expr) => trashIdOne e ch ea.1 ea.2) _ v
    (fun a _ b hb => gTrashId_eq e hp ch a.1 a.2 b hb) h]
  unfold trashIds
  rw [zipIdx_map_forget' (fun ea ti => (IdClass.trash ti, trashIdOne e ch ea.1 ea.2))
    (fun ea : ℕ × (Expr × List Expr) => trashIdOne e ch ea.1 ea.2)]
  intro a i; rfl

theorem gGateIds_eq (e : Env) (v : List ℕ) (h : gGateIds e = some v) : v = (gateIds e).map (·.2) := by
  unfold gGateIds at h
  rw [mapM_gEvalExpr_eq e _ v h]
  unfold gateIds
  generalize e.cs.gates = gs
  rw [zipIdx_flatMap_forget (fun (g : List Expr) gi => g.zipIdx.map fun (poly, j) => (IdClass.gate gi j, evalQ e poly))
    (fun g => g.map (evalQ e))]
  · induction gs with
    | nil => rfl
    | cons g t ih => simp only [List.flatMap_cons, List.map_append, List.map_cons, List.flatten_cons, id, ih]
  · intro g gi
    exact zipIdx_map_forget' (fun poly j => (IdClass.gate gi j, evalQ e poly)) (evalQ e) g 0 (fun _ _ => rfl)

/-! ## permutation identities -/

theorem cast_gPermLeft (e : Env) (hp : e.p = p) (β γ next : ℕ) (cols : List (ColKind × Nat)) (pevals : List ℕ) :
    ((gPermLeft e β γ next cols pevals : ℕ) : ZMod p) = ((permLeft e β γ next cols pevals : ℕ) : ZMod p) := by
  rw [cast_permLeft e hp]
  subst hp
  unfold gPermLeft
  rw [List.zip_map, List.foldl_map]
  apply foldl_cast
  intro a x
  simp only [cast_fmul, cast_linComb, List.foldl_cons, List.foldl_nil, Nat.cast_zero, Nat.cast_one, Prod.map]
  ring

theorem cast_gPermRight (f : Fld) (e : Env) (hp : e.p = p) (β γ x ci L cur : ℕ) (cols : List (ColKind × Nat)) :
    ((gPermRight f e β γ x ci L cur cols : ℕ) : ZMod p) = ((permRight f e β γ x ci L cur cols : ℕ) : ZMod p) := by
  rw [cast_permRight f e hp]
  subst hp
  unfold gPermRight
  rw [List.foldl_map]
  have := foldl_cast2 (p := e.p)
    (fun (st : ℕ × ℕ) (c : ColKind × Nat) =>
      (fmul e.p st.1 (linComb e.p [(1, colEval e c), (1, st.2), (1, γ)] 0), fmul e.p st.2 (f.delta % e.p)))
    (fun (st : ZMod e.p × ZMod e.p) (c : ColKind × Nat) =>
      (st.1 * (((colEval e c : ℕ) : ZMod e.p) + st.2 + (γ : ZMod e.p)), st.2 * (f.delta : ZMod e.p)))
    (by
      intro st c
      simp only [cast_fmul, cast_linComb, List.foldl_cons, List.foldl_nil, Nat.cast_zero, Nat.cast_one,
        ZMod.natCast_mod, Prod.mk.injEq, and_true]
      ring)
    cols (cur, cmulK e.p β x (powMod f.delta (ci * L) e.p))
  simp only [cast_cmulK, cast_powMod] at this
  refine (congrArg Prod.fst this).trans ?_
  have hinit : ((f.delta : ZMod e.p) ^ (ci * L) * ((β : ZMod e.p) * (x : ZMod e.p))) =
      (β : ZMod e.p) * (x : ZMod e.p) * (f.delta : ZMod e.p) ^ (ci * L) := by ring
  rw [hinit]

theorem head?_map_toList_snd {α : Type} (o : Option α) (g : α → ℕ) (t : IdClass) :
    ((o.map fun s => (t, g s)).toList).map (·.2) = (o.map g).toList := by
  cases o <;> rfl

/-- `permutation_expressions` (in-circuit) = `permutation.rs: expressions` (off-circuit), value by
value in order, wherever the former does not panic. -/
theorem gPermIds_eq (f : Fld) (e : Env) (hp : e.p = p) (permCommon : List ℕ) (sets : List PermSet) (L : Lagrange)
    (ch : Challenges) (v : List ℕ) (h : gPermIds f e permCommon sets L ch.beta ch.gamma ch.x = some v) :
    v = (permIds f e permCommon sets L ch).map (·.2) := by
  unfold gPermIds at h
  simp only [Option.map_eq_some_iff] at h
  obtain ⟨ids3, h3, rfl⟩ := h
  have e3 := mapM_eq_map_of _ (fun sp : PermSet × PermSet => fmul e.p (fsub e.p sp.1.eval (sp.2.last.getD 0)) L.l0) _ ids3
    (by
      intro a _ b hb
      simp only [Option.map_eq_some_iff] at hb
      obtain ⟨z, hz, rfl⟩ := hb
      rw [hz, Option.getD_some]
      subst hp
      exact eq_of_cast (fmul_lt ..) (fmul_lt ..) (by castring)) h3
  unfold permIds
  simp only [List.map_append, head?_map_toList_snd]
  subst hp
  refine congrArg₂ (· ++ ·) (congrArg₂ (· ++ ·) (congrArg₂ (· ++ ·) ?_ ?_) ?_) ?_
  · cases sets.head? with
    | none => rfl
    | some s =>
      simp only [Option.map_some, Option.toList_some, List.cons.injEq, and_true]
      exact eq_of_cast (addAndMul_lt ..) (fmul_lt ..) (by castring)
  · cases sets.getLast? with
    | none => rfl
    | some s =>
      simp only [Option.map_some, Option.toList_some, List.cons.injEq, and_true]
      exact eq_of_cast (fmul_lt ..) (fmul_lt ..) (by castring)
  · rw [e3]
    exact (zipIdx_map_forget' (fun (sp : PermSet × PermSet) i =>
      (IdClass.permChain (i + 1), fmul e.p (fsub e.p sp.1.eval (sp.2.last.getD 0)) L.l0)) _ _ 0 (fun _ _ => rfl)).symm
  · rw [List.map_map]
    apply List.map_congr_left
    intro x _
    simp only [Function.comp]
    refine eq_of_cast (fmul_lt ..) (fmul_lt ..) ?_
    simp only [cast_fmul, cast_fsub, cast_fadd, cast_linComb, cast_mone, List.foldl_cons, List.foldl_nil,
      Nat.cast_one, cast_gPermLeft e rfl, cast_gPermRight f e rfl]
    ring

/-! ## `x^n`, `expected_h_eval` -/

/-- `xn = mul(x, pow(x, (1 << k) - 1))` (in-circuit) = `x.pow_vartime([n])` (off-circuit). -/
theorem xn_eq (x k : ℕ) : fmul p x (powMod x (2 ^ k - 1) p) = xnOf p k x := by
  unfold xnOf
  refine eq_of_cast (fmul_lt ..) (by rw [powMod_spec _ _ _ ppos]; exact Nat.mod_lt _ ppos) ?_
  rw [cast_fmul, cast_powMod, cast_powMod, ← pow_succ']
  congr 1
  have : 1 ≤ 2 ^ k := Nat.one_le_two_pow
  omega

theorem cast_foldH (y : ℕ) (vs : List ℕ) :
    ((foldH p y vs : ℕ) : ZMod p) = vs.foldl (fun (acc : ZMod p) (w : ℕ) => acc * (y : ZMod p) + (w : ZMod p)) 0 := by
  unfold foldH
  rw [foldl_cast (p := p) (fun h v => fadd p (fmul p h y) v)
    (fun (acc : ZMod p) (w : ℕ) => acc * (y : ZMod p) + (w : ZMod p)) (by intro a x; rw [cast_fadd, cast_fmul])]
  simp

/-- `try_reduce(..)/ (xn − 1)` (in-circuit) = `fold(0, ..)·(xn − 1)⁻¹` (off-circuit). -/
theorem gExpectedH_eq (y xn : ℕ) (ids : List ℕ) (h : ℕ) (hh : gExpectedH p y xn ids = some h) :
    h = expectedH p y xn ids := by
  unfold gExpectedH at hh
  simp only [Option.map_eq_some_iff] at hh
  obtain ⟨num, hnum, rfl⟩ := hh
  unfold expectedH cdiv
  refine fmul_eq_of_cast ?_
  rw [cast_tryReduce y ids num hnum, cast_foldH, cast_invMod, cast_invMod, cast_fadd, cast_mone, cast_fsub]
  simp [sub_eq_add_neg]

/-! ## Lagrange evaluations -/

/-- What the comparison of the two Lagrange computations needs of the evaluation domain: `omega`
is a `2^k`-th root of unity and `omega_inv` (Fermat) is its inverse, in `ZMod p`. Both are decided
by kernel evaluation for the generated field constants (`Props/C20.lean: domainOK_bls`). -/
structure DomainOK (f : Fld) (k : ℕ) : Prop where
  omega_pow : ((omegaOf f k : ℕ) : ZMod f.p) ^ (2 ^ k) = 1
  omega_inv : ((omegaOf f k : ℕ) : ZMod f.p) * ((invMod (omegaOf f k) f.p : ℕ) : ZMod f.p) = 1

/-- One entry of `l_i_range`. -/
def lIAt (f : Fld) (k x xn : ℕ) (r : ℤ) : ℕ :=
  rotateOmega f k (fmul f.p (invMod (fsub f.p x (rotateOmega f k 1 r)) f.p)
    (fmul f.p (fsub f.p xn 1) (invMod ((2 ^ k) % f.p) f.p))) r

theorem lIRange_eq_map (f : Fld) (k x xn : ℕ) (rots : List ℤ) :
    lIRange f k x xn rots = rots.map (lIAt f k x xn) := by
  unfold lIRange lIAt
  induction rots with
  | nil => rfl
  | cons r t ih => simp only [List.map_cons, List.zip_cons_cons, ih]

theorem omega_neg_pow {R : Type} [CommRing R] (w wi : R) (n m : ℕ) (hm : m ≤ n) (hn : w ^ n = 1) (hi : w * wi = 1) :
    w ^ (n - m) = wi ^ m := by
  have h1 : w ^ (n - m) * w ^ m = 1 := by rw [← pow_add, Nat.sub_add_cancel hm, hn]
  have h2 : w ^ m * wi ^ m = 1 := by rw [← mul_pow, hi, one_pow]
  calc w ^ (n - m) = w ^ (n - m) * (w ^ m * wi ^ m) := by rw [h2, mul_one]
    _ = (w ^ (n - m) * w ^ m) * wi ^ m := by ring
    _ = wi ^ m := by rw [h1, one_mul]

/-- `evaluate_lagrange_polynomials` (in-circuit: `i < 0 ↦ n + i`, `w^i`, division first) and
`l_i_range` (off-circuit: inverse first, `rotate_omega` with `omega_inv` for negative rotations)
give the same value for every index `i ≥ −n`. -/
theorem lagrangeAt_eq (f : Fld) [NeZero f.p] (k x : ℕ) (i : ℤ) (hd : DomainOK f k) (hi : -((2 ^ k : ℕ) : ℤ) ≤ i) :
    lagrangeAt f k x i = lIAt f k x (xnOf f.p k x) i := by
  unfold lagrangeAt lIAt rotateOmega xnOf
  simp only []
  by_cases h0 : 0 ≤ i
  · rw [if_neg (by omega), if_pos h0, if_pos h0]
    refine eq_of_cast (fmul_lt ..) (fmul_lt ..) ?_
    simp only [cast_fmul, cast_cdiv, cast_fadd, cast_fneg, cast_fsub, cast_mone, cast_invMod, cast_powMod,
      ZMod.natCast_mod, Nat.cast_one]
    ring
  · have hneg : i < 0 := by omega
    rw [if_pos hneg, if_neg h0, if_neg h0]
    have hm : (-i).toNat ≤ 2 ^ k := by omega
    have hto : (((2 ^ k : ℕ) : ℤ) + i).toNat = 2 ^ k - (-i).toNat := by omega
    have key := omega_neg_pow ((omegaOf f k : ℕ) : ZMod f.p) ((invMod (omegaOf f k) f.p : ℕ) : ZMod f.p)
      (2 ^ k) (-i).toNat hm hd.omega_pow hd.omega_inv
    refine eq_of_cast (fmul_lt ..) (fmul_lt ..) ?_
    simp only [cast_fmul, cast_cdiv, cast_fadd, cast_fneg, cast_fsub, cast_mone, cast_invMod, cast_powMod,
      ZMod.natCast_mod, Nat.cast_one]
    rw [cast_invMod] at key
    rw [hto, key]
    ring

theorem gSum_eq (l : List ℕ) : gSum p l = l.foldl (fun acc e => fadd p acc e) 0 := by
  unfold gSum linComb
  rw [List.foldl_map]
  simp only [Nat.zero_mod]
  congr 1
  funext acc e
  simp [fadd, fmul, Nat.add_mod_mod]

theorem mem_intRange (lo : ℤ) (n : ℕ) (i : ℤ) (h : i ∈ intRange lo n) : lo ≤ i := by
  unfold intRange at h
  simp only [List.mem_map, List.mem_range] at h
  obtain ⟨a, _, rfl⟩ := h
  omega

/-- The `l_0 / l_last / l_blind` block: same values in-circuit and off-circuit. -/
theorem gLagrange_eq (f : Fld) [NeZero f.p] (cs : VCS) (x : ℕ) (hd : DomainOK f cs.k)
    (hb : cs.blinding + 1 ≤ 2 ^ cs.k) : gLagrange f cs x = lagrange f cs x (xnOf f.p cs.k x) := by
  unfold gLagrange lagrange lagrangePolys
  have hl : (intRange (-((cs.blinding + 1 : ℕ) : ℤ)) (cs.blinding + 2)).map (lagrangeAt f cs.k x) =
      (intRange (-((cs.blinding + 1 : ℕ) : ℤ)) (cs.blinding + 2)).map (lIAt f cs.k x (xnOf f.p cs.k x)) := by
    apply List.map_congr_left
    intro i hi
    have := mem_intRange _ _ _ hi
    exact lagrangeAt_eq f cs.k x i hd (by omega)
  simp only [lIRange_eq_map, hl, gSum_eq]

/-! ## instance evaluations of the plain instance columns -/

theorem slice_intRange {α : Type} (g : ℤ → α) (lo : ℤ) (cnt d L : ℕ) (h : d + L ≤ cnt) :
    (((intRange lo cnt).map g).drop d).take L = (intRange (lo + d) L).map g := by
  apply List.ext_getElem?
  intro i
  simp only [intRange, List.getElem?_take, List.getElem?_drop, List.getElem?_map, List.getElem?_range, List.map_map]
  by_cases hi : i < L
  · have h1 : d + i < cnt := by omega
    simp only [hi, if_true]
    rw [List.getElem?_range h1, List.getElem?_range hi]
    simp only [Option.map_some, Function.comp]
    congr 2
    push_cast
    ring
  · simp only [hi, if_false]
    rw [List.getElem?_eq_none (by simp; omega)]
    rfl

theorem cast_innerProduct : ∀ (a s : List ℕ),
    ((innerProduct p a s : ℕ) : ZMod p) = ((a.zip s).map (fun xy => ((xy.1 : ℕ) : ZMod p) * ((xy.2 : ℕ) : ZMod p))).sum
  | [], _ => by simp [innerProduct]
  | _ :: _, [] => by simp [innerProduct]
  | x :: a, y :: s => by
    rw [innerProduct, cast_fadd, cast_fmul, cast_innerProduct a s]
    simp

theorem cast_foldl_mulAdd (l : List (ℕ × ℕ)) (init : ℕ) :
    ((l.foldl (fun acc xy => mulAdd p xy.1 xy.2 acc) init : ℕ) : ZMod p) =
      (init : ZMod p) + (l.map (fun xy => ((xy.1 : ℕ) : ZMod p) * ((xy.2 : ℕ) : ZMod p))).sum := by
  induction l generalizing init with
  | nil => simp
  | cons xy t ih => rw [List.foldl_cons, ih, cast_mulAdd]; simp; ring

theorem foldl_mulAdd_lt (l : List (ℕ × ℕ)) (init : ℕ) (h : init < p) :
    l.foldl (fun acc xy => mulAdd p xy.1 xy.2 acc) init < p := by
  induction l generalizing init with
  | nil => exact h
  | cons xy t ih => exact ih _ (mulAdd_lt ..)

theorem gInnerProduct_eq (a s : List ℕ) (b : ℕ) (h : gInnerProduct p a s = some b) : b = innerProduct p a s := by
  cases a with
  | nil => simp [gInnerProduct] at h
  | cons x a =>
    cases s with
    | nil => simp [gInnerProduct] at h
    | cons y s =>
      simp only [gInnerProduct, Option.some.injEq] at h
      subst h
      refine eq_of_cast (foldl_mulAdd_lt _ _ (fmul_lt ..)) (by rw [innerProduct]; exact fadd_lt ..) ?_
      rw [cast_foldl_mulAdd, cast_innerProduct, cast_fmul]
      simp

theorem foldl_min_spec (rs : List ℤ) (r0 : ℤ) : rs.foldl min r0 ≤ r0 ∧ ∀ r ∈ rs, rs.foldl min r0 ≤ r := by
  induction rs generalizing r0 with
  | nil => simp
  | cons a t ih =>
    obtain ⟨h1, h2⟩ := ih (min r0 a)
    refine ⟨le_trans h1 (min_le_left _ _), ?_⟩
    intro r hr
    simp only [List.mem_cons] at hr
    rcases hr with rfl | hr
    · exact le_trans h1 (min_le_right _ _)
    · exact h2 r hr

theorem foldl_max_spec (rs : List ℤ) (r0 : ℤ) : r0 ≤ rs.foldl max r0 ∧ ∀ r ∈ rs, r ≤ rs.foldl max r0 := by
  induction rs generalizing r0 with
  | nil => simp
  | cons a t ih =>
    obtain ⟨h1, h2⟩ := ih (max r0 a)
    refine ⟨le_trans (le_max_left _ _) h1, ?_⟩
    intro r hr
    simp only [List.mem_cons] at hr
    rcases hr with rfl | hr
    · exact le_trans (le_max_right _ _) h1
    · exact h2 r hr

theorem foldl_natmax_spec (ls : List ℕ) (a0 : ℕ) : a0 ≤ ls.foldl max a0 ∧ ∀ a ∈ ls, a ≤ ls.foldl max a0 := by
  induction ls generalizing a0 with
  | nil => simp
  | cons a t ih =>
    obtain ⟨h1, h2⟩ := ih (max a0 a)
    refine ⟨le_trans (le_max_left _ _) h1, ?_⟩
    intro r hr
    simp only [List.mem_cons] at hr
    rcases hr with rfl | hr
    · exact le_trans (le_max_right _ _) h1
    · exact h2 r hr

theorem minMaxRot_spec (qs : List (ℕ × ℤ)) (mm0 : ℤ × ℤ) (h0 : mm0.1 ≤ 0 ∧ 0 ≤ mm0.2) :
    let mm := qs.foldl (fun (mm : ℤ × ℤ) q =>
      if q.2 < mm.1 then (q.2, mm.2) else if q.2 > mm.2 then (mm.1, q.2) else mm) mm0
    mm.1 ≤ mm0.1 ∧ mm0.2 ≤ mm.2 ∧ ∀ q ∈ qs, mm.1 ≤ q.2 ∧ q.2 ≤ mm.2 := by
  induction qs generalizing mm0 with
  | nil => simp
  | cons q t ih =>
    simp only [List.foldl_cons]
    set mm1 : ℤ × ℤ := if q.2 < mm0.1 then (q.2, mm0.2) else if q.2 > mm0.2 then (mm0.1, q.2) else mm0 with hmm1
    have hstep : mm1.1 ≤ mm0.1 ∧ mm0.2 ≤ mm1.2 ∧ mm1.1 ≤ q.2 ∧ q.2 ≤ mm1.2 := by
      rw [hmm1]
      split_ifs with h1 h2
      · simp only; omega
      · simp only; omega
      · omega
    obtain ⟨i1, i2, i3⟩ := ih mm1 ⟨by omega, by omega⟩
    refine ⟨by omega, by omega, ?_⟩
    intro q' hq'
    simp only [List.mem_cons] at hq'
    rcases hq' with rfl | hq'
    · constructor <;> omega
    · exact i3 q' hq'

theorem mapM_eq_some_map' {α β : Type} (g : α → Option β) (g' : α → β) (l : List α)
    (hg : ∀ a ∈ l, g a = some (g' a)) : l.mapM g = some (l.map g') := by
  induction l with
  | nil => rfl
  | cons x t ih =>
    rw [List.mapM_cons, hg x (by simp), ih (fun a ha => hg a (by simp [ha]))]
    rfl

theorem gInnerProduct_isSome (a s : List ℕ) (ha : a ≠ []) (hs : s ≠ []) : ∃ b, gInnerProduct p a s = some b := by
  cases a with
  | nil => exact absurd rfl ha
  | cons x a =>
    cases s with
    | nil => exact absurd rfl hs
    | cons y s => exact ⟨_, rfl⟩

theorem rotMinMax_spec (rots : List ℤ) : ∀ r ∈ rots, (rotMinMax rots).1 ≤ r ∧ r ≤ (rotMinMax rots).2 := by
  cases rots with
  | nil => simp
  | cons r0 rs =>
    intro r hr
    simp only [rotMinMax, List.mem_cons] at hr ⊢
    rcases hr with e | e
    · rw [e]; exact ⟨(foldl_min_spec rs r0).1, (foldl_max_spec rs r0).1⟩
    · exact ⟨(foldl_min_spec rs r0).2 _ e, (foldl_max_spec rs r0).2 _ e⟩

/-- The `instance_evals` block of the gadget never fails and yields exactly the off-circuit
instance evaluations — also for a constraint system without instance queries and for instance
columns without values. -/
theorem gInstanceEvals_total (f : Fld) [NeZero f.p] (cs : VCS) (nc x : ℕ) (plain : List (List ℕ)) (cev : ℕ → ℕ)
    (hd : DomainOK f cs.k) (hrot : ∀ q ∈ cs.instanceQueries, q.2 ≤ ((2 ^ cs.k : ℕ) : ℤ)) :
    gInstanceEvals f cs nc x plain cev =
      some (instanceEvals f cs nc x (xnOf f.p cs.k x) ((plain.map List.length).foldl max 0) plain cev) := by
  unfold gInstanceEvals instanceEvals
  have hmemr : ∀ q ∈ cs.instanceQueries, (rotMinMax (cs.instanceQueries.map (·.2))).1 ≤ q.2 ∧
      q.2 ≤ (rotMinMax (cs.instanceQueries.map (·.2))).2 :=
    fun q hqm => rotMinMax_spec _ q.2 (List.mem_map_of_mem hqm)
  obtain ⟨hm1, hm2, hmm⟩ := minMaxRot_spec cs.instanceQueries (0, 0) ⟨le_refl _, le_refl _⟩
  simp only at hm1 hm2 hmm
  refine mapM_eq_some_map' _ _ _ ?_
  rintro ⟨q, qi⟩ hmemq
  have hqm : q ∈ cs.instanceQueries := by
    have := List.mem_zipIdx hmemq
    rw [this.2.2]; exact List.getElem_mem _
  obtain ⟨hmin, hmax⟩ := hmemr q hqm
  obtain ⟨hmm1, hmm2⟩ := hmm q hqm
  have hr := hrot q hqm
  simp only
  unfold minMaxRot
  by_cases hc : q.1 < nc
  · simp only [hc, if_true]
  · simp only [hc, if_false]
    have hL : (plain.getD (q.1 - nc) []).length ≤ (plain.map List.length).foldl max 0 := by
      rw [List.getD_eq_getElem?_getD]
      cases hg : plain[q.1 - nc]? with
      | none => simp
      | some l =>
        simp only [Option.getD_some]
        exact (foldl_natmax_spec _ 0).2 _ (List.mem_map_of_mem (List.mem_of_getElem? hg))
    generalize plain.getD (q.1 - nc) [] = inst at hL ⊢
    generalize (plain.map List.length).foldl max 0 = maxLen at hL ⊢
    generalize rotMinMax (cs.instanceQueries.map (·.2)) = gm at hmin hmax hmemr ⊢
    generalize List.foldl (fun (mm : ℤ × ℤ) (q : ℕ × ℤ) =>
      if q.2 < mm.1 then (q.2, mm.2) else if q.2 > mm.2 then (mm.1, q.2) else mm) (0, 0) cs.instanceQueries = mm
      at hm1 hm2 hmm hmm1 hmm2 ⊢
    by_cases he : inst = []
    · subst he
      simp [innerProduct]
    · have hne : inst.isEmpty = false := by cases inst <;> simp_all
      simp only [hne, Bool.false_eq_true, if_false]
      unfold lagrangePolys
      rw [slice_intRange _ _ _ _ _ (by omega), lIRange_eq_map, slice_intRange _ _ _ _ _ (by omega)]
      have e1 : -gm.2 + (((gm.2 - q.2).toNat : ℕ) : ℤ) = -q.2 := by omega
      have e2 : -mm.2 + (((mm.2 - q.2).toNat : ℕ) : ℤ) = -q.2 := by omega
      rw [e1, e2]
      have hl : (intRange (-q.2) inst.length).map (lagrangeAt f cs.k x) =
          (intRange (-q.2) inst.length).map (lIAt f cs.k x (xnOf f.p cs.k x)) := by
        apply List.map_congr_left
        intro i hi
        have := mem_intRange _ _ _ hi
        exact lagrangeAt_eq f cs.k x i hd (by omega)
      rw [hl]
      have hs : (intRange (-q.2) inst.length).map (lIAt f cs.k x (xnOf f.p cs.k x)) ≠ [] := by
        intro h0
        have := congrArg List.length h0
        simp [intRange] at this
        exact he this
      obtain ⟨b, hb⟩ := gInnerProduct_isSome (p := f.p) inst _ he hs
      rw [hb, gInnerProduct_eq _ _ _ hb]

theorem gInstanceEvals_eq (f : Fld) [NeZero f.p] (cs : VCS) (nc x : ℕ) (plain : List (List ℕ)) (cev : ℕ → ℕ)
    (v : List ℕ) (hd : DomainOK f cs.k) (hrot : ∀ q ∈ cs.instanceQueries, q.2 ≤ ((2 ^ cs.k : ℕ) : ℤ))
    (h : gInstanceEvals f cs nc x plain cev = some v) :
    v = instanceEvals f cs nc x (xnOf f.p cs.k x) ((plain.map List.length).foldl max 0) plain cev := by
  rw [gInstanceEvals_total f cs nc x plain cev hd hrot] at h
  exact (Option.some.inj h).symm

/-! ## assembly -/

/-- Everything `verify_algebraic_constraints` computes in-circuit before `multi_prepare` equals
what the off-circuit `verify_algebraic_constraints` computes from the same transcript scalars and
the same instance evaluations: Lagrange values, `x^n`, every identity value in order,
`expected_h_eval`. -/
theorem gVerifyIds_eq (f : Fld) [NeZero f.p] (cs : VCS) (nCommitted : ℕ) (plain : List (List ℕ))
    (committedEval : ℕ → ℕ) (com : CommonEvals) (ch : Challenges) (ev : ProofEvals) (r : GFolded)
    (hd : DomainOK f cs.k) (hb : cs.blinding + 1 ≤ 2 ^ cs.k)
    (h : gVerifyIds f cs nCommitted plain committedEval com ch ev = some r) :
    let off := verifyIds f cs com ch [{ ev with inst := r.instEvals }]
    r.lag = off.lag ∧ r.xn = off.xn ∧ r.ids = off.ids.map (·.2) ∧ r.h = off.h := by
  unfold gVerifyIds at h
  simp only [bind, Option.bind_eq_some_iff, pure, Option.some.injEq] at h
  obtain ⟨inst, _, g, hg, pm, hpm, lk, hlk, tr, htr, hh, hhh, rfl⟩ := h
  have hL := gLagrange_eq f cs ch.x hd hb
  have hxn := xn_eq (p := f.p) ch.x cs.k
  have hids : g ++ pm ++ lk ++ tr =
      (proofIds f cs com (gLagrange f cs ch.x) ch { ev with inst := inst }).map (·.2) := by
    unfold proofIds
    simp only [List.map_append]
    rw [gGateIds_eq _ g hg, gPermIds_eq f _ rfl com.permCommon ev.permSets _ ch pm hpm,
      gLookupIds_eq _ rfl _ ch ev.lookups lk hlk, gTrashIds_eq _ rfl ch ev.trash tr htr]
  simp only [verifyIds, allIds, List.flatMap_cons, List.flatMap_nil, List.append_nil]
  refine ⟨hL, hxn, ?_, ?_⟩
  · rw [hids, hL]
  · rw [gExpectedH_eq ch.y _ _ hh hhh, hids, hL, hxn]

/-- The same with the instance evaluations computed off-circuit (`instanceEvals`): nothing is
assumed about them any more. -/
theorem gVerifyIds_eq_full (f : Fld) [NeZero f.p] (cs : VCS) (nCommitted : ℕ) (plain : List (List ℕ))
    (committedEval : ℕ → ℕ) (com : CommonEvals) (ch : Challenges) (ev : ProofEvals) (r : GFolded)
    (hd : DomainOK f cs.k) (hb : cs.blinding + 1 ≤ 2 ^ cs.k)
    (hrot : ∀ q ∈ cs.instanceQueries, q.2 ≤ ((2 ^ cs.k : ℕ) : ℤ))
    (h : gVerifyIds f cs nCommitted plain committedEval com ch ev = some r) :
    let inst := instanceEvals f cs nCommitted ch.x (xnOf f.p cs.k ch.x) ((plain.map List.length).foldl max 0) plain committedEval
    let off := verifyIds f cs com ch [{ ev with inst := inst }]
    r.instEvals = inst ∧ r.lag = off.lag ∧ r.xn = off.xn ∧ r.ids = off.ids.map (·.2) ∧ r.h = off.h := by
  have h0 := gVerifyIds_eq f cs nCommitted plain committedEval com ch ev r hd hb h
  have hi : r.instEvals = instanceEvals f cs nCommitted ch.x (xnOf f.p cs.k ch.x)
      ((plain.map List.length).foldl max 0) plain committedEval := by
    unfold gVerifyIds at h
    simp only [bind, Option.bind_eq_some_iff, pure, Option.some.injEq] at h
    obtain ⟨inst, hinst, g, _, pm, _, lk, _, tr, _, hh, _, rfl⟩ := h
    exact gInstanceEvals_eq f cs nCommitted ch.x plain committedEval inst hd hrot hinst
  intro inst off
  refine ⟨hi, ?_⟩
  have : off = verifyIds f cs com ch [{ ev with inst := r.instEvals }] := by rw [hi]
  rw [this]
  exact h0

end MidnightZK.C20.V
