import Mathlib.Data.List.Sort
import Mathlib.Data.String.Basic
import MidnightZK.Model.C20.Assign
/-! Helper lemmas for the theorems about `AssignedMsm::assign` / `AssignedAccumulator::assign` (C20). -/
namespace MidnightZK.C20

/-- A `BTreeMap<String, F>`: keys strictly increasing. -/
def SortedKeys {F : Type} (l : List (String × F)) : Prop := l.Pairwise (fun a b => a.1 < b.1)

theorem sortNames_eq_insertionSort (names : List String) :
    sortNames names = names.insertionSort (· ≤ ·) := by
  have hi : ∀ (k : String) (l : List String), insertName k l = l.orderedInsert (· ≤ ·) k := by
    intro k l
    induction l with
    | nil => rfl
    | cons h t ih => simp [insertName, List.orderedInsert, ih]
  induction names with
  | nil => rfl
  | cons h t ih =>
    have : sortNames (h :: t) = insertName h (sortNames t) := rfl
    rw [this, ih, hi]; rfl

theorem sortNames_perm (names : List String) : (sortNames names).Perm names := by
  rw [sortNames_eq_insertionSort]; exact List.perm_insertionSort _ _

theorem sortNames_sorted (names : List String) : (sortNames names).Pairwise (· ≤ ·) := by
  rw [sortNames_eq_insertionSort]; exact List.pairwise_insertionSort _ _

/-- The sort of a list of names is THE increasing arrangement of it. -/
theorem sortNames_eq_of_perm_sorted (names keys : List String) (hp : names.Perm keys)
    (hs : keys.Pairwise (· < ·)) : sortNames names = keys := by
  apply List.Perm.eq_of_pairwise (le := (· ≤ ·)) (fun a b _ _ hab hba => le_antisymm hab hba)
    (sortNames_sorted names) (hs.imp le_of_lt)
  exact (sortNames_perm names).trans hp

section
variable {F : Type}

theorem insertWith_append_last (f : F → F → F) (k : String) (v : F) (acc : List (String × F))
    (h : ∀ e ∈ acc, e.1 < k) : insertWith f k v acc = acc ++ [(k, v)] := by
  induction acc with
  | nil => rfl
  | cons e t ih =>
    obtain ⟨k', v'⟩ := e
    have hk : k' < k := h (k', v') (by simp)
    have h1 : ¬ k < k' := fun hlt => lt_irrefl _ (lt_trans hlt hk)
    have h2 : ¬ k = k' := fun he => by subst he; exact lt_irrefl _ hk
    unfold insertWith
    simp only [h1, h2, if_false, List.cons_append]
    rw [ih (fun e he => h e (by simp [he]))]

theorem foldl_insert_sorted (f : F → F → F) (t acc : List (String × F)) (h : SortedKeys (acc ++ t)) :
    t.foldl (fun acc kv => insertWith f kv.1 kv.2 acc) acc = acc ++ t := by
  induction t generalizing acc with
  | nil => simp
  | cons e t ih =>
    simp only [List.foldl_cons]
    have hlt : ∀ x ∈ acc, x.1 < e.1 := by
      intro x hx
      have := List.pairwise_append.mp h
      exact this.2.2 x hx e (by simp)
    rw [insertWith_append_last f e.1 e.2 acc hlt]
    have : acc ++ [(e.1, e.2)] ++ t = acc ++ e :: t := by simp
    rw [ih (acc ++ [(e.1, e.2)]) (by rw [this]; exact h), this]

/-- Collecting a list with strictly increasing keys into a `BTreeMap` gives that list. -/
theorem collectMap_sorted (l : List (String × F)) (h : SortedKeys l) : collectMap l = l := by
  have := foldl_insert_sorted (fun _ new => new) l [] (by simpa using h)
  simpa [collectMap] using this

theorem zip_map_fst_snd (l : List (String × F)) : (l.map (·.1)).zip (l.map (·.2)) = l := by
  induction l with
  | nil => rfl
  | cons e t ih => simp [ih]

theorem sortedKeys_keys (l : List (String × F)) (h : SortedKeys l) : (l.map (·.1)).Pairwise (· < ·) := by
  simpa [SortedKeys, List.pairwise_map] using h

end

/-- A common prefix does not matter for the order of two names. -/
theorem append_lt_append_left (p a b : String) (h : a < b) : p ++ a < p ++ b := by
  rw [String.lt_iff_toList_lt] at h ⊢
  rw [String.toList_append, String.toList_append]
  exact List.append_left_lt h

/-- `…_com_10 < …_com_2` in the order of the `BTreeMap`, for every prefix and infix. -/
theorem name_10_lt_name_2 (p : String) : p ++ toString 10 < p ++ toString 2 :=
  append_lt_append_left p _ _ (by decide)

/-- The names of `n ≥ 11` commitments in numeric order are not in `String` order. -/
theorem range_names_not_sorted (p : String) (n : Nat) (hn : 11 ≤ n) :
    ¬ ((List.range n).map (fun i => p ++ toString i)).Pairwise (· ≤ ·) := by
  intro hs
  rw [List.pairwise_map] at hs
  have := List.pairwise_iff_getElem.mp hs 2 10 (by simp; omega) (by simp; omega) (by omega)
  simp only [List.getElem_range] at this
  exact absurd (name_10_lt_name_2 p) (not_lt.mpr this)

end MidnightZK.C20
