import MidnightZK.Model.C20.Gadget
/-! Helper lemmas for `gadget_schedule_agree` (core Lean only). -/
namespace MidnightZK.C20
open MidnightZK.C01

theorem range_one_flatMap {α : Type} (f : Nat → List α) : (List.range 1).flatMap f = f 0 := by
  simp [List.range_succ]

theorem foldl_max_zero (l : List Nat) (h : ∀ p ∈ l, p = 0) : l.foldl max 0 = 0 := by
  induction l with
  | nil => rfl
  | cons a t ih =>
    have ha : a = 0 := h a (by simp)
    subst ha
    simpa using ih (fun p hp => h p (by simp [hp]))

theorem phases_single (sh : Shape) (h : ∀ p ∈ sh.advicePhase, p = 0) : phases sh = [0] := by
  simp [phases, foldl_max_zero _ h, List.range_succ]

/-- With every column in phase 0, the per-phase filter of `parse_trace` keeps every column. -/
theorem zipIdx_flatMap_all_zero {α : Type} (g : Nat → α) : ∀ (l : List Nat) (k : Nat), (∀ p ∈ l, p = 0) →
    (l.zipIdx k).flatMap (fun qc => if 0 = qc.1 then [g qc.2] else []) =
      (List.range' k l.length).map g
  | [], _, _ => by simp
  | a :: t, k, h => by
    have ha : a = 0 := h a (by simp)
    subst ha
    have := zipIdx_flatMap_all_zero g t (k + 1) (fun p hp => h p (by simp [hp]))
    simp [List.zipIdx_cons, List.range'_succ, this]

theorem flatMap_ite_eq_filterMap {α β : Type} (p : α → Bool) (f : α → β) (l : List α) :
    l.flatMap (fun a => if p a then [f a] else []) = l.filterMap (fun a => if p a then some (f a) else none) := by
  induction l with
  | nil => rfl
  | cons a t ih =>
    simp only [List.flatMap_cons, List.filterMap_cons, ih]
    cases p a <;> simp

theorem le_foldl_max (l : List Nat) : ∀ (init : Nat), init ≤ l.foldl max init ∧ ∀ p ∈ l, p ≤ l.foldl max init := by
  induction l with
  | nil => intro init; simp
  | cons a t ih =>
    intro init
    obtain ⟨h1, h2⟩ := ih (max init a)
    refine ⟨by simp only [List.foldl_cons]; omega, ?_⟩
    intro p hp
    simp only [List.foldl_cons]
    cases List.mem_cons.mp hp with
    | inl h => subst h; omega
    | inr h => exact h2 p h

/-- `cs.phases().count() == 1` means that every advice column is in the first phase. -/
theorem single_phase_of_supported (sh : Shape) (h : gadgetSupported sh = true) :
    ∀ p ∈ sh.advicePhase, p = 0 := by
  simp only [gadgetSupported, Bool.and_eq_true, beq_iff_eq, phases, List.length_range] at h
  intro p hp
  have := (le_foldl_max sh.advicePhase 0).2 p hp
  omega

end MidnightZK.C20
