import Mathlib.Tactic.Ring
import Mathlib.Tactic.Abel
import Mathlib.Tactic.Linarith
import Mathlib.Tactic.Module
import Mathlib.Algebra.Module.Basic
import Mathlib.Algebra.BigOperators.Group.List.Basic
import MidnightZK.Model.C20.Ipa
/-! Helper lemmas for the inner-product-argument theorems of C20: scalars in a commutative ring
`F`, group elements in an `F`-module `G`. -/
namespace MidnightZK.C20

section
variable {F G : Type} [CommRing F] [AddCommGroup G] [Module F G]

theorem innerProduct_nil_left (b : List G) : innerProduct ([] : List F) b = 0 := by
  simp [innerProduct]

theorem innerProduct_nil_right (s : List F) : innerProduct s ([] : List G) = 0 := by
  simp [innerProduct]

theorem innerProduct_cons (x : F) (s : List F) (y : G) (b : List G) :
    innerProduct (x :: s) (y :: b) = x • y + innerProduct s b := by
  simp [innerProduct]

theorem innerProduct_append (s s' : List F) (b b' : List G) (h : s.length = b.length) :
    innerProduct (s ++ s') (b ++ b') = innerProduct s b + innerProduct s' b' := by
  unfold innerProduct
  rw [List.zipWith_append h, List.sum_append]

theorem fold_length {S T : Type} [Add T] [SMul S T] (c0 c1 : S) (v0 v1 : List T) :
    (fold c0 v0 c1 v1).length = min v0.length v1.length := by
  simp [fold]

/-- Cross-term expansion of one folding step (the four half-vectors have equal lengths). -/
theorem innerProduct_fold_fold (u ui : F) (hu : u * ui = 1) :
    ∀ (sL sR : List F) (bL bR : List G), sL.length = sR.length → sL.length = bL.length →
      sL.length = bR.length →
      innerProduct (fold u sL ui sR) (fold u bR ui bL) =
        innerProduct sL bL + innerProduct sR bR +
          ((u * u) • innerProduct sL bR + (ui * ui) • innerProduct sR bL)
  | [], sR, bL, bR, h1, h2, h3 => by
    have e1 : sR = [] := List.length_eq_zero_iff.mp h1.symm
    have e2 : bL = [] := List.length_eq_zero_iff.mp h2.symm
    have e3 : bR = [] := List.length_eq_zero_iff.mp h3.symm
    subst e1 e2 e3
    simp [fold, innerProduct]
  | x :: sL, [], _, _, h, _, _ => by simp at h
  | x :: sL, _ :: _, [], _, _, h, _ => by simp at h
  | x :: sL, _ :: _, _ :: _, [], _, _, h => by simp at h
  | x :: sL, x' :: sR, y :: bL, y' :: bR, h1, h2, h3 => by
    have ih := innerProduct_fold_fold u ui hu sL sR bL bR (by simpa using h1) (by simpa using h2)
      (by simpa using h3)
    simp only [fold, List.zipWith_cons_cons] at ih ⊢
    rw [innerProduct_cons, ih, innerProduct_cons, innerProduct_cons, innerProduct_cons,
      innerProduct_cons]
    have e : (u • x + ui • x') • (u • y' + ui • y) =
        x • y + x' • y' + ((u * u) • (x • y') + (ui * ui) • (x' • y)) := by
      simp only [smul_eq_mul]
      have h1 : (u * ui) • (x • y) = x • y := by rw [hu, one_smul]
      have h2 : (u * ui) • (x' • y') = x' • y' := by rw [hu, one_smul]
      rw [← h1, ← h2]
      module
    rw [e]
    module

/-- Folding the bases and pairing with a coefficient vector = pairing the two halves with the
coefficient vector scaled by the two challenges. -/
theorem innerProduct_fold_right (u ui : F) :
    ∀ (c : List F) (x y : List G), x.length = y.length →
      innerProduct c (fold u x ui y) =
        innerProduct (c.map (· * u)) x + innerProduct (c.map (· * ui)) y
  | [], _, _, _ => by simp [innerProduct]
  | _ :: _, [], y, h => by
    have e : y = [] := List.length_eq_zero_iff.mp h.symm
    subst e
    simp [innerProduct, fold]
  | _ :: _, _ :: _, [], h => by simp at h
  | a :: c, p :: x, q :: y, h => by
    have ih := innerProduct_fold_right u ui c x y (by simpa using h)
    simp only [fold, List.zipWith_cons_cons, List.map_cons] at ih ⊢
    rw [innerProduct_cons, ih, innerProduct_cons, innerProduct_cons]
    module

/-- The folding coefficients, recursively from the first challenge: the first challenge splits
the index range into its two halves. -/
def coeffs : List (F × F) → List F
  | [] => [1]
  | u :: us => (coeffs us).map (· * u.2) ++ (coeffs us).map (· * u.1)

theorem coeffs_length (us : List (F × F)) : (coeffs us).length = 2 ^ us.length := by
  induction us with
  | nil => simp [coeffs]
  | cons u us ih => simp [coeffs, ih, pow_succ]; ring

/-- The verifier's loop computes `-s` times the folding coefficients. -/
theorem ipaScalars_eq_coeffs (s : F) (us : List (F × F)) :
    ipaScalars s us = (coeffs us).map (fun c => -s * c) := by
  unfold ipaScalars
  rw [List.foldl_reverse]
  induction us with
  | nil => simp [coeffs]
  | cons u us ih =>
    simp only [List.foldr_cons, ih, coeffs, List.map_append, List.map_map]
    congr 1 <;> (apply List.map_congr_left; intro a _; simp [mul_assoc])

theorem innerProduct_map_mul_left (a : F) (c : List F) (b : List G) :
    innerProduct (c.map (fun x => a * x)) b = a • innerProduct c b := by
  induction c generalizing b with
  | nil => simp [innerProduct]
  | cons x c ih =>
    cases b with
    | nil => simp [innerProduct]
    | cons y b => simp [innerProduct_cons, ih, mul_smul, smul_add]

theorem innerProduct_map_mul_right (a : F) (c : List F) (b : List G) :
    innerProduct (c.map (fun x => x * a)) b = a • innerProduct c b := by
  rw [← innerProduct_map_mul_left]
  congr 1
  apply List.map_congr_left; intro x _; ring

/-- Batching of the two base vectors: `<c, bases1> + <c·r, bases2> = <c, bases1 + r·bases2>`. -/
theorem innerProduct_batch (r : F) :
    ∀ (c : List F) (b1 b2 : List G), b1.length = b2.length →
      innerProduct c b1 + innerProduct (c.map (· * r)) b2 = innerProduct c (fold (1 : F) b1 r b2) := by
  intro c b1 b2 h
  rw [innerProduct_fold_right 1 r c b1 b2 h]
  simp

/-- The `lrs` field only accumulates: the rounds on a state with earlier pairs are the rounds
on the same vectors with no earlier pairs, with the earlier pairs in front. -/
theorem proverRounds_lrs (us : List (F × F)) : ∀ (st : ProverState F G),
    proverRounds st us =
      { lrs := st.lrs ++ (proverRounds { lrs := [], s := st.s, b := st.b } us).lrs
        s := (proverRounds { lrs := [], s := st.s, b := st.b } us).s
        b := (proverRounds { lrs := [], s := st.s, b := st.b } us).b } := by
  induction us with
  | nil => intro st; simp [proverRounds]
  | cons u us ih =>
    intro st
    obtain ⟨u, ui⟩ := u
    simp only [proverRounds]
    rw [ih (proverRound st u ui), ih (proverRound _ u ui)]
    simp [proverRound, List.append_assoc]

theorem half_pow (k : Nat) : 2 ^ (k + 1) / 2 = 2 ^ k := by
  rw [pow_succ]; omega

/-- Everything the completeness proof needs about the rounds of the prover. -/
theorem proverRounds_spec : ∀ (us : List (F × F)) (s : List F) (b : List G),
    s.length = 2 ^ us.length → b.length = 2 ^ us.length → (∀ p ∈ us, p.1 * p.2 = 1) →
    let X := proverRounds { lrs := [], s := s, b := b } us
    X.lrs.length = us.length ∧ X.s.length = 1 ∧
      X.b = [innerProduct (coeffs us) b] ∧
      innerProduct X.s X.b = innerProduct s b +
        innerProduct (us.flatMap (fun u => [u.1 * u.1, u.2 * u.2]))
          (X.lrs.flatMap (fun lr => [lr.1, lr.2]))
  | [], s, b, hs, hb, _ => by
    simp only [proverRounds, List.length_nil, pow_zero] at hs hb ⊢
    obtain ⟨x, rfl⟩ := List.length_eq_one_iff.mp hs
    obtain ⟨y, rfl⟩ := List.length_eq_one_iff.mp hb
    simp [coeffs, innerProduct]
  | (u, ui) :: us, s, b, hs, hb, hinv => by
    simp only [List.length_cons] at hs hb
    have hu : u * ui = 1 := hinv (u, ui) (by simp)
    have hinv' : ∀ p ∈ us, p.1 * p.2 = 1 := fun p hp => hinv p (by simp [hp])
    have hhalf : s.length / 2 = 2 ^ us.length := by rw [hs, half_pow]
    have hlt : 2 ^ us.length ≤ 2 ^ (us.length + 1) := by rw [pow_succ]; omega
    have hsub : 2 ^ (us.length + 1) - 2 ^ us.length = 2 ^ us.length := by rw [pow_succ]; omega
    -- the state after the first round
    set sL := s.take (2 ^ us.length) with hsL
    set sR := s.drop (2 ^ us.length) with hsR
    set bL := b.take (2 ^ us.length) with hbL
    set bR := b.drop (2 ^ us.length) with hbR
    have lsL : sL.length = 2 ^ us.length := by simp [hsL, hs, hlt]
    have lsR : sR.length = 2 ^ us.length := by simp [hsR, hs, hsub]
    have lbL : bL.length = 2 ^ us.length := by simp [hbL, hb, hlt]
    have lbR : bR.length = 2 ^ us.length := by simp [hbR, hb, hsub]
    have es : s = sL ++ sR := (List.take_append_drop _ _).symm
    have eb : b = bL ++ bR := (List.take_append_drop _ _).symm
    have ls' : (fold u sL ui sR).length = 2 ^ us.length := by rw [fold_length, lsL, lsR]; simp
    have lb' : (fold u bR ui bL).length = 2 ^ us.length := by rw [fold_length, lbL, lbR]; simp
    obtain ⟨ih1, ih2, ih3, ih4⟩ := proverRounds_spec us (fold u sL ui sR) (fold u bR ui bL) ls' lb' hinv'
    have hstep : proverRounds { lrs := ([] : List (G × G)), s := s, b := b } ((u, ui) :: us) =
        proverRounds { lrs := [(innerProduct sL bR, innerProduct sR bL)], s := fold u sL ui sR,
                       b := fold u bR ui bL } us := by
      simp only [proverRounds, proverRound, hhalf, List.nil_append]
      rfl
    intro X
    have hX : X = _ := hstep
    rw [proverRounds_lrs] at hX
    simp only at hX
    set Y := proverRounds { lrs := ([] : List (G × G)), s := fold u sL ui sR, b := fold u bR ui bL } us
      with hY
    rw [hX]
    refine ⟨by simp [ih1], ih2, ?_, ?_⟩
    · simp only
      rw [ih3, innerProduct_fold_right u ui _ bR bL (by rw [lbL, lbR]), coeffs, eb,
        innerProduct_append _ _ _ _ (by simp [coeffs_length, lbL]), add_comm]
    · simp only
      rw [ih4, innerProduct_fold_fold u ui hu sL sR bL bR (by rw [lsL, lsR]) (by rw [lsL, lbL])
        (by rw [lsL, lbR])]
      conv => rhs; rw [es, eb, innerProduct_append _ _ _ _ (by rw [lsL, lbL])]
      simp only [List.flatMap_cons, List.cons_append, List.nil_append, innerProduct_cons]
      abel

end
end MidnightZK.C20
