import MidnightZK.Proofs.C14.Lagrange
import MidnightZK.Model.C20.MultiOpen
/-! `utils.rs: evaluate_interpolated_polynomial` (in-circuit, Lagrange form) equals
`eval_polynomial ∘ lagrange_interpolate` (off-circuit, coefficient form) — C20. -/
namespace MidnightZK.C20.V
open MidnightZK Polynomial

section
variable {F : Type} [Field F] [DecidableEq F]

theorem gProd_eq_prod (l : List F) : gProd l = l.prod := by
  cases l with
  | nil => rfl
  | cons t ts =>
    simp only [gProd, List.prod_cons]
    have : ∀ (ts : List F) (a : F), ts.foldl (· * ·) a = a * ts.prod := by
      intro ts
      induction ts with
      | nil => intro a; simp
      | cons b ts ih => intro a; simp [ih, mul_assoc]
    exact this ts t

theorem foldl_mul_add_sum : ∀ (xs ys : List F) (a : F),
    (xs.zip ys).foldl (fun acc xy => xy.1 * xy.2 + acc) a = a + (List.zipWith (· * ·) xs ys).sum
  | [], _, a => by simp
  | _ :: _, [], a => by simp
  | x :: xs, y :: ys, a => by
    simp only [List.zip_cons_cons, List.foldl_cons, List.zipWith_cons_cons, List.sum_cons]
    rw [foldl_mul_add_sum xs ys]; ring

theorem gInnerProductF_sum : ∀ (xs ys : List F), xs ≠ [] → xs.length = ys.length →
    gInnerProductF xs ys = some ((List.zipWith (· * ·) xs ys).sum)
  | [], _, h, _ => absurd rfl h
  | x0 :: xs, [], _, h => by simp at h
  | x0 :: xs, y0 :: ys, _, _ => by
    simp only [gInnerProductF, List.zipWith_cons_cons, List.sum_cons, foldl_mul_add_sum]

/-- Filtering an indexed list by index: `zipIdx` form (gadget) = `range.zip` form (off-circuit). -/
theorem zipIdx_filter_map {α β : Type} (l : List α) (p : Nat → Bool) (g : α → β) :
    (l.zipIdx.filter (fun t => p t.2)).map (fun t => g t.1) =
      (((List.range l.length).zip l).filter (fun kx => p kx.1)).map (fun kx => g kx.2) := by
  have h : l.zipIdx = ((List.range l.length).zip l).map Prod.swap := by
    rw [List.zipIdx_eq_zip_range', List.range_eq_range', ← List.zip_swap]
  rw [h, List.filter_map, List.map_map]
  rfl

theorem eval_basis_list (xj x : F) : ∀ (L : List (Nat × F)),
    ((L.map (fun (kx : Nat × F) => C (xj - kx.2)⁻¹ * (X - C kx.2))).prod).eval x =
      (L.map (fun (kx : Nat × F) => x - kx.2)).prod * ((L.map (fun (kx : Nat × F) => xj - kx.2)).prod)⁻¹
  | [] => by simp
  | a :: L => by
    simp only [List.map_cons, List.prod_cons, eval_mul, eval_C, eval_sub, eval_X, mul_inv, eval_basis_list xj x L]
    ring

/-- The value the gadget's `evaluate_interpolated_polynomial` computes for one basis index. -/
theorem eval_basisP (points : List F) (j : Nat) (xj x : F) :
    (C14.basisP (fun a => a⁻¹) points j xj).eval x =
      gProd (((points.map fun xi => x - xi).zipIdx.filter fun t => t.2 ≠ j).map (·.1)) *
        (gProd ((points.zipIdx.filter fun t => t.2 ≠ j).map fun t => xj - t.1))⁻¹ := by
  have h1 := zipIdx_filter_map (points.map fun xi => x - xi) (fun i => decide (i ≠ j)) (fun a => a)
  have h2 := zipIdx_filter_map points (fun i => decide (i ≠ j)) (fun a => xj - a)
  simp only [List.length_map] at h1
  have h3 : (((List.range points.length).zip (points.map fun xi => x - xi)).filter (fun kx => decide (kx.1 ≠ j))).map (fun kx => kx.2) =
      (((List.range points.length).zip points).filter (fun kx => decide (kx.1 ≠ j))).map (fun kx => x - kx.2) := by
    rw [List.zip_map_right, List.filter_map, List.map_map]; rfl
  rw [gProd_eq_prod, gProd_eq_prod, h1, h2, h3]
  simp only [C14.basisP, List.map_map]
  exact eval_basis_list xj x _

theorem zipIdx_zip_map (G : Nat → F → F) : ∀ (points evals : List F) (k : Nat),
    ((points.zipIdx k).zip evals).map (fun t => G t.1.2 t.1.1 * t.2) =
      ((List.range' k points.length).zip (points.zip evals)).map (fun e => e.2.2 * G e.1 e.2.1)
  | [], _, _ => by simp
  | _ :: _, [], _ => by simp
  | p :: ps, e :: es, k => by
    simp only [List.zipIdx_cons, List.zip_cons_cons, List.map_cons, List.length_cons, List.range'_succ]
    rw [zipIdx_zip_map G ps es (k + 1), mul_comm]

/-- **`evaluate_interpolated_polynomial` = `eval_polynomial ∘ lagrange_interpolate`** for every
non-empty list of points (any number of them), every list of values and every `x`: both fail
(assertion / unsatisfiable `assert_not_equal`) on lists of different lengths or repeated points,
and otherwise the gadget's `Σ_j (∏_{i≠j}(x − x_i) / ∏_{i≠j}(x_j − x_i))·evals_j` is the value at `x`
of the coefficient vector `lagrange_interpolate` builds. -/
theorem gInterpolate_eq (points evals : List F) (x : F) (hne : points ≠ []) :
    gInterpolate (fun a => a⁻¹) points evals x =
      (C14.lagrangeInterpolate (fun a => a⁻¹) points evals).map (fun r => C14.evalPoly r x) := by
  unfold gInterpolate C14.lagrangeInterpolate
  by_cases hlen : points.length ≠ evals.length
  · rw [if_pos hlen, if_pos hlen]; rfl
  rw [if_neg hlen, if_neg hlen]
  by_cases hnd : ¬ points.Nodup
  · rw [if_pos hnd, if_pos hnd]; rfl
  rw [if_neg hnd, if_neg hnd]
  have hlen' : points.length = evals.length := not_not.1 hlen
  by_cases h1 : points.length = 1
  · rw [if_pos h1, if_pos h1]
    cases evals with
    | nil => simp [h1] at hlen'
    | cons e es => simp [C14.evalPoly]
  rw [if_neg h1, if_neg h1]
  have hfold := C14.outer_fold (fun (a : F) => a⁻¹) points ((List.range points.length).zip (points.zip evals))
    (List.replicate points.length 0) (by simp) (by
      intro e he
      exact List.mem_range.1 (List.of_mem_zip he).1)
  have h0 : C14.toPoly (List.replicate points.length (0 : F)) = 0 := by
    have := C14.toPoly_append_zeros ([] : List F) points.length
    simpa using this
  have hr : ∀ r : List F, r = ((List.range points.length).zip (points.zip evals)).foldl (C14.lagStep (fun (a : F) => a⁻¹) points)
      (List.replicate points.length 0) → C14.evalPoly r x =
        (((List.range points.length).zip (points.zip evals)).map
          (fun e => e.2.2 * (C14.basisP (fun a => a⁻¹) points e.1 e.2.1).eval x)).sum := by
    intro r hr
    rw [hr, ← C14.toPoly_eval, hfold.2, h0, zero_add, C14.eval_list_sum', List.map_map]
    congr 1
    apply List.map_congr_left
    intro e _
    simp [Function.comp]
  simp only [Option.map_some]
  change gInnerProductF _ evals = some (C14.evalPoly (List.foldl (C14.lagStep (fun (a : F) => a⁻¹) points)
    (List.replicate points.length 0) ((List.range points.length).zip (points.zip evals))) x)
  rw [hr _ rfl]
  have hl : (points.zipIdx.map fun (t : F × Nat) =>
      gProd (((points.map fun xi => x - xi).zipIdx.filter fun s => s.2 ≠ t.2).map (·.1)) *
        (gProd ((points.zipIdx.filter fun s => s.2 ≠ t.2).map fun s => t.1 - s.1))⁻¹) =
      points.zipIdx.map (fun t => (C14.basisP (fun a => a⁻¹) points t.2 t.1).eval x) := by
    apply List.map_congr_left
    intro t _
    rw [eval_basisP]
  rw [gInnerProductF_sum _ _ (by simpa using hne) (by simpa using hlen')]
  congr 1
  rw [hl, List.range_eq_range', ← zipIdx_zip_map (fun j xj => (C14.basisP (fun a => a⁻¹) points j xj).eval x) points evals 0]
  rw [List.zipWith_map_left, ← List.map_uncurry_zip_eq_zipWith]
  rfl

end
end MidnightZK.C20.V
