import MidnightZK.Proofs.C20.MultiOpen
import MidnightZK.Proofs.C20.Interp
/-!
# C20 — `kzg.rs: multi_prepare` (in-circuit) = `from_dual_msm ∘ multi_prepare` (off-circuit), assembled

The pieces (`final_rhs_eq`, `processMsm_final`, the scalar-side equalities, `gInterpolate_eq`) put
together along the body of `multi_prepare`: first at the level of the grouped queries
(`gPrepareGroups` vs `C14.prepareGroups`), then with the grouping itself.
-/
namespace MidnightZK.C20.V
open MidnightZK MidnightZK.C01

variable {F : Type} [Field F] [DecidableEq F]
set_option linter.unusedSectionVars false
set_option linter.unusedSimpArgs false

/-- Groups of queries with symbolic commitments: the points of the set and, for every commitment
opened at exactly these points, the commitment and its evaluations. -/
abbrev SGroup (F : Type) := List F × List (Com × List F)

/-- The groups as the gadget holds them (`AssignedMsm` per commitment). -/
def inGroups (names : Names) (hMsm : GMsm F) (gs : List (SGroup F)) : List (List F × List (GMsm F × List F)) :=
  gs.map fun g => (g.1, g.2.map fun d => (comMsmOf names hMsm d.1, d.2))

/-- The groups as the off-circuit verifier holds them (term lists per commitment). -/
def offGroups (names : Names) (tbl : List TEntry) (sf : F) (nPieces : Nat) (gs : List (SGroup F)) :
    List (List F × List (List (F × C14.Base) × List F)) :=
  gs.map fun g => (g.1, g.2.map fun d => (offTerms names tbl sf nPieces d.1, d.2))

/-- One step of the `f_eval` fold: in-circuit (`evaluate_interpolated_polynomial`, `div`) =
off-circuit (`lagrange_interpolate` + `eval_polynomial`, `invert`), for a non-empty point set. -/
theorem fEvalStep_eq (x2 x3 : F) (pts : List F) (hne : pts ≠ []) (coms : List (List (F × C14.Base) × List F))
    (evs : List F) (q : F) (acc : Option F) :
    gFEvalStep (fun a => a⁻¹) x2 x3 ((pts, evs), q) acc =
      C14.fEvalStep (fun a => a⁻¹) x2 x3 (((pts, coms), evs), q) acc := by
  cases acc with
  | none => rfl
  | some a =>
    simp only [gFEvalStep, C14.fEvalStep]
    rw [gInterpolate_eq pts evs x3 hne]
    cases hL : C14.lagrangeInterpolate (fun (a : F) => a⁻¹) pts evs with
    | none => rfl
    | some r =>
      cases pts with
      | nil => exact absurd rfl hne
      | cons p0 ps =>
        simp only [Option.map_some]
        rw [den_eq]

/-- The whole `f_eval` fold (from the last set to the first). -/
theorem fEvalFold_eq (names : Names) (tbl : List TEntry) (sf : F) (nP : Nat) (x2 x3 : F) :
    ∀ (gs : List (SGroup F)) (hMsm : GMsm F) (qes : List (List F)) (qE : List F), (∀ g ∈ gs, g.1 ≠ []) →
    ((((inGroups names hMsm gs).map (·.1)).zip qes).zip qE).foldr (gFEvalStep (fun a => a⁻¹) x2 x3) (some 0) =
      (((offGroups names tbl sf nP gs).zip qes).zip qE).foldr (C14.fEvalStep (fun a => a⁻¹) x2 x3) (some 0)
  | [], _, _, _, _ => by simp [inGroups, offGroups]
  | g :: gs, hMsm, [], _, _ => by simp [inGroups, offGroups]
  | g :: gs, hMsm, e :: qes, [], _ => by simp [inGroups, offGroups]
  | g :: gs, hMsm, e :: qes, q :: qE, h => by
    have ih := fEvalFold_eq names tbl sf nP x2 x3 gs hMsm qes qE (fun g' hg' => h g' (by simp [hg']))
    simp only [inGroups, offGroups, List.map_cons, List.zip_cons_cons, List.foldr_cons] at ih ⊢
    rw [ih]
    exact fEvalStep_eq x2 x3 g.1 (h g (by simp)) _ e q _

theorem mapM_evals_eq (names : Names) (tbl : List TEntry) (sf : F) (nP : Nat) (hMsm : GMsm F) (pw : List F) :
    ∀ (gs : List (SGroup F)),
    (inGroups names hMsm gs).mapM (fun g => gEvalsInnerProduct (g.2.map (·.2)) pw) =
      (offGroups names tbl sf nP gs).mapM (fun g => C14.evalsInnerProduct (g.2.map (·.2)) pw)
  | [] => rfl
  | g :: gs => by
    have ih := mapM_evals_eq names tbl sf nP hMsm pw gs
    simp only [inGroups, offGroups, List.map_cons, List.mapM_cons, List.map_map, Function.comp] at ih ⊢
    rw [ih, gEvalsInnerProduct_eq]
    rfl

theorem nb_eq (names : Names) (tbl : List TEntry) (sf : F) (nP : Nat) (hMsm : GMsm F) (gs : List (SGroup F)) :
    ((inGroups names hMsm gs).map fun g => g.2.length) = ((offGroups names tbl sf nP gs).map fun g => g.2.length) := by
  simp [inGroups, offGroups]

theorem foldl_max_pos : ∀ (l : List Nat) (a : Nat), (1 ≤ a ∨ ∃ n ∈ l, 1 ≤ n) → 1 ≤ l.foldl max a
  | [], a, h => by
    rcases h with h | ⟨n, hn, _⟩
    · exact h
    · simp at hn
  | b :: l, a, h => by
    simp only [List.foldl_cons]
    apply foldl_max_pos l
    rcases h with h | ⟨n, hn, h1⟩
    · left; omega
    · simp only [List.mem_cons] at hn
      rcases hn with rfl | hn
      · left; omega
      · right; exact ⟨n, hn, h1⟩

/-- `process_msm` of the off-circuit left-hand side `[(1, π)]`. -/
theorem processMsm_left (tbl : List TEntry) :
    processMsm (decodeOf tbl) [((1 : F), C14.Base.pi)] = some (fromTerm 1 VBase.pi) := by
  simp [processMsm, decodeOf, emptyMsm, fromTerm]

theorem inGroups_length (names : Names) (hMsm : GMsm F) (gs : List (SGroup F)) :
    (inGroups names hMsm gs).length = gs.length := by simp [inGroups]
theorem offGroups_length (names : Names) (tbl : List TEntry) (sf : F) (nP : Nat) (gs : List (SGroup F)) :
    (offGroups names tbl sf nP gs).length = gs.length := by simp [offGroups]

/-- **`multi_prepare` after the grouping: in-circuit accumulator = `from_dual_msm` of the
off-circuit dual MSM**, both sides failing together. -/
theorem prepareGroups_acc_eq_aux (names : Names) (tbl : List TEntry) (sf : F) (n : ℕ) (gs : List (SGroup F))
    (qE : List F) (x1 x2 x3 x4 : F)
    (hpts : ∀ g ∈ gs, g.1 ≠ []) (hcoms : ∃ g ∈ gs, g.2 ≠ [])
    (hq : qE.length = gs.length)
    (hc : ∀ g ∈ gs, ∀ d ∈ g.2, ∀ e ∈ entriesOf names (n + 1) d.1, e ∈ tbl) :
    match gPrepareGroups (fun a => a⁻¹) (inGroups names (hCommitment sf (n + 1)) gs) qE x1 x2 x3 x4,
          C14.prepareGroups (fun a => a⁻¹) (offGroups names tbl sf (n + 1) gs) ⟨true, qE, true⟩ x1 x2 x3 x4 with
    | some g, .ok d => ∃ acc, fromDualMsm (decodeOf tbl) d = some acc ∧
        MsmEq g.acc.lhs acc.lhs ∧ MsmEq g.acc.rhs acc.rhs
    | none, .error _ => True
    | _, _ => False := by
  have hnbpos : 1 ≤ ((offGroups names tbl sf (n + 1) gs).map fun g => g.2.length).foldl max 0 := by
    apply foldl_max_pos
    right
    obtain ⟨g, hg, hg2⟩ := hcoms
    refine ⟨g.2.length, by simp only [offGroups, List.map_map, List.mem_map]; exact ⟨g, hg, by simp⟩, ?_⟩
    cases hg' : g.2 with
    | nil => exact absurd hg' hg2
    | cons a t => simp
  simp only [gPrepareGroups, C14.prepareGroups]
  rw [nb_eq names tbl sf (n + 1) (hCommitment sf (n + 1)) gs, gPowers_eq x1 _ hnbpos,
    mapM_evals_eq names tbl sf (n + 1) (hCommitment sf (n + 1)) _ gs]
  generalize C14.powersN x1 (((offGroups names tbl sf (n + 1) gs).map fun g => g.2.length).foldl max 0) 1 = pw1
  cases hm : (offGroups names tbl sf (n + 1) gs).mapM (fun g => C14.evalsInnerProduct (g.2.map (·.2)) pw1) with
  | none => simp
  | some qes =>
    simp only [inGroups_length, offGroups_length, hq, ne_eq, not_true_eq_false, if_false, lt_irrefl,
      Bool.not_true, Bool.false_eq_true]
    rw [← hq, List.take_length, fEvalFold_eq names tbl sf (n + 1) x2 x3 gs _ qes qE hpts]
    cases hf : (((offGroups names tbl sf (n + 1) gs).zip qes).zip qE).foldr (C14.fEvalStep (fun a => a⁻¹) x2 x3) (some 0) with
    | none => simp
    | some fEval =>
      simp only []
      have hlen4 : ((inGroups names (hCommitment sf (n + 1)) gs).map
          (fun g => gMsmInnerProduct (g.2.map (·.1)) pw1)).length + 1 = (qE ++ [fEval]).length := by
        simp [inGroups, hq]
      have hin : (inGroups names (hCommitment sf (n + 1)) gs).map (fun g => gMsmInnerProduct (g.2.map (·.1)) pw1) =
          (gs.map (fun g => g.2.map (·.1))).map (fun set => gMsmInnerProduct (set.map (comMsmOf names (hCommitment sf (n + 1)))) pw1) := by
        simp only [inGroups, List.map_map, Function.comp_def]
      have hoff : (offGroups names tbl sf (n + 1) gs).map (fun g => C14.msmInnerProduct (g.2.map (·.1)) pw1) =
          (gs.map (fun g => g.2.map (·.1))).map (fun set => C14.msmInnerProduct (set.map (offTerms names tbl sf (n + 1))) pw1) := by
        simp only [offGroups, List.map_map, Function.comp_def]
      have hpw4 : gPowers x4 ((qE ++ [fEval]).length) = C14.powersN x4 (qE.length + 1) 1 := by
        rw [gPowers_eq x4 _ (by simp)]; simp
      rw [hlen4, gInnerProductF_eq, hpw4, hin, hoff]
      cases hv : C14.innerProductScalars (qE ++ [fEval]) x4 with
      | none => simp
      | some v =>
        simp only []
        have hc' : ∀ set ∈ gs.map (fun g => g.2.map (·.1)), ∀ c ∈ set, ∀ e ∈ entriesOf names (n + 1) c, e ∈ tbl := by
          intro set hset c hcs e he
          simp only [List.mem_map] at hset
          obtain ⟨g, hg, rfl⟩ := hset
          simp only [List.mem_map] at hcs
          obtain ⟨d, hd, rfl⟩ := hcs
          exact hc g hg d hd e he
        refine ⟨{ lhs := fromTerm 1 VBase.pi, rhs := tau (decodeOf tbl) _ }, ?_, MsmEq.refl _,
          final_rhs_eq names tbl sf n _ pw1 (C14.powersN x4 (qE.length + 1) 1) v x3 hc'⟩
        simp only [fromDualMsm, processMsm_left, processMsm_final names tbl sf (n + 1) _ pw1 _ v x3 hc']
        rfl

/-- The same for every non-empty list of groups: if no group has a commitment, both sides fail at
`evals_inner_product` (`evals_set[0]`). -/
theorem prepareGroups_acc_eq (names : Names) (tbl : List TEntry) (sf : F) (n : ℕ) (gs : List (SGroup F))
    (qE : List F) (x1 x2 x3 x4 : F)
    (hne : gs ≠ []) (hpts : ∀ g ∈ gs, g.1 ≠ [])
    (hq : qE.length = gs.length)
    (hc : ∀ g ∈ gs, ∀ d ∈ g.2, ∀ e ∈ entriesOf names (n + 1) d.1, e ∈ tbl) :
    match gPrepareGroups (fun a => a⁻¹) (inGroups names (hCommitment sf (n + 1)) gs) qE x1 x2 x3 x4,
          C14.prepareGroups (fun a => a⁻¹) (offGroups names tbl sf (n + 1) gs) ⟨true, qE, true⟩ x1 x2 x3 x4 with
    | some g, .ok d => ∃ acc, fromDualMsm (decodeOf tbl) d = some acc ∧
        MsmEq g.acc.lhs acc.lhs ∧ MsmEq g.acc.rhs acc.rhs
    | none, .error _ => True
    | _, _ => False := by
  by_cases hcoms : ∃ g ∈ gs, g.2 ≠ []
  · exact prepareGroups_acc_eq_aux names tbl sf n gs qE x1 x2 x3 x4 hpts hcoms hq hc
  · cases gs with
    | nil => exact absurd rfl hne
    | cons g gs =>
      have hg : g.2 = [] := by
        by_contra h0
        exact hcoms ⟨g, by simp, h0⟩
      simp only [gPrepareGroups, C14.prepareGroups, inGroups, offGroups, List.map_cons, List.mapM_cons, hg, List.map_nil,
        gEvalsInnerProduct, C14.evalsInnerProduct]
      trivial

end MidnightZK.C20.V
