import Mathlib.Data.String.Basic
import MidnightZK.Proofs.C20.MultiOpen
/-! C20 — the fixed-base names `Accumulator::from_dual_msm` (`process_msm`) produces: exactly the
names of the fixed-labelled terms, as a `BTreeMap` (strictly increasing keys). -/
namespace MidnightZK.C20.V
open MidnightZK MidnightZK.C01

variable {F : Type} [Field F] [DecidableEq F]
set_option linter.unusedSectionVars false

theorem entryAdd_keys (k : String) (s : F) : ∀ (l : List (String × F)) (k' : String),
    k' ∈ (entryAdd k s l).map (·.1) ↔ k' = k ∨ k' ∈ l.map (·.1)
  | [], k' => by simp [entryAdd]
  | (a, v) :: t, k' => by
    simp only [entryAdd]
    split
    · simp
    · split
      · rename_i h; subst h; simp
      · simp only [List.map_cons, List.mem_cons, entryAdd_keys k s t k']; tauto

theorem entryAdd_sorted (k : String) (s : F) : ∀ (l : List (String × F)),
    (l.map (·.1)).Pairwise (· < ·) → ((entryAdd k s l).map (·.1)).Pairwise (· < ·)
  | [], _ => by simp [entryAdd]
  | (a, v) :: t, h => by
    simp only [List.map_cons, List.pairwise_cons] at h
    simp only [entryAdd]
    split
    · rename_i hlt
      simp only [List.map_cons, List.pairwise_cons, List.mem_cons]
      refine ⟨?_, h.1, h.2⟩
      rintro b (rfl | hb)
      · exact hlt
      · exact lt_trans hlt (h.1 b hb)
    · split
      · simp only [List.map_cons, List.pairwise_cons]; exact h
      · rename_i hnlt hne
        have hgt : a < k := lt_of_le_of_ne (not_lt.1 hnlt) (fun e => hne e.symm)
        simp only [List.map_cons, List.pairwise_cons]
        refine ⟨?_, entryAdd_sorted k s t h.2⟩
        intro b hb
        rcases (entryAdd_keys k s t b).1 hb with rfl | hb
        · exact hgt
        · exact h.1 b hb

/-- The keys `process_msm` leaves: strictly increasing, and exactly the names of the terms whose
label is a fixed base (`Fixed(i)`, `Permutation(i)`, `Custom("-G")`), plus the keys it started from. -/
theorem foldl_pstep_keys (decode : C14.Base → Option TEntry) : ∀ (terms : List (F × C14.Base)) (init : GMsm F),
    (init.fixed.map (·.1)).Pairwise (· < ·) →
    (((terms.foldl (pstep decode) init).fixed.map (·.1)).Pairwise (· < ·)) ∧
    ∀ k, k ∈ (terms.foldl (pstep decode) init).fixed.map (·.1) ↔
      (k ∈ init.fixed.map (·.1) ∨ ∃ t ∈ terms, decode t.2 = some (.fixed k))
  | [], init, h => ⟨h, fun k => by simp⟩
  | t :: terms, init, h => by
    simp only [List.foldl_cons]
    have hstep : ((pstep decode init t).fixed.map (·.1)).Pairwise (· < ·) ∧
        ∀ k, k ∈ (pstep decode init t).fixed.map (·.1) ↔ (k ∈ init.fixed.map (·.1) ∨ decode t.2 = some (.fixed k)) := by
      unfold pstep
      cases hd : decode t.2 with
      | none => exact ⟨h, fun k => by simp⟩
      | some e =>
        cases e with
        | var b => exact ⟨h, fun k => by simp⟩
        | fixed name =>
          refine ⟨entryAdd_sorted name t.1 _ h, fun k => ?_⟩
          rw [entryAdd_keys]
          simp only [Option.some.injEq, TEntry.fixed.injEq]
          tauto
    obtain ⟨ih1, ih2⟩ := foldl_pstep_keys decode terms (pstep decode init t) hstep.1
    refine ⟨ih1, fun k => ?_⟩
    rw [ih2 k, hstep.2 k]
    simp only [List.mem_cons, exists_eq_or_imp]
    tauto

/-- **`Accumulator::from_dual_msm` yields `BTreeMap`s whose keys are exactly the fixed-labelled
names of the dual MSM**, on both sides, whenever it does not hit its assertion. -/
theorem fromDualMsm_keys (decode : C14.Base → Option TEntry) (d : C14.DualMSM F) (acc : Acc F VBase)
    (h : fromDualMsm decode d = some acc)
    (hl : ∀ t ∈ d.left, (decode t.2).isSome) (hr : ∀ t ∈ d.right, (decode t.2).isSome) :
    (acc.rhs.fixed.map (·.1)).Pairwise (· < ·) ∧ (acc.lhs.fixed.map (·.1)).Pairwise (· < ·) ∧
      (∀ k, k ∈ acc.rhs.fixed.map (·.1) ↔ ∃ t ∈ d.right, decode t.2 = some (.fixed k)) ∧
      (∀ k, k ∈ acc.lhs.fixed.map (·.1) ↔ ∃ t ∈ d.left, decode t.2 = some (.fixed k)) := by
  simp only [fromDualMsm, processMsm_eq_tau decode _ hl, processMsm_eq_tau decode _ hr, Option.bind_eq_bind,
    Option.bind_some, Option.pure_def, Option.some.injEq] at h
  subst h
  have e : (emptyMsm : GMsm F).fixed = [] := rfl
  obtain ⟨r1, r2⟩ := foldl_pstep_keys decode d.right emptyMsm (by simp [e])
  obtain ⟨l1, l2⟩ := foldl_pstep_keys decode d.left emptyMsm (by simp [e])
  refine ⟨r1, l1, fun k => ?_, fun k => ?_⟩
  · have := r2 k; simpa [e, tau] using this
  · have := l2 k; simpa [e, tau] using this

end MidnightZK.C20.V
