import MidnightZK.Model.C19.Dfa
import MidnightZK.Proofs.C19.Lang
/-!
# C19 — soundness of the certificate checker
-/
namespace MidnightZK.C19
open Rx

/-! ## Generic bisimulation argument -/

/-- A relation that is compatible with acceptance and closed under every admissible letter
relates only states that agree on every admissible word. -/
theorem bisim_fold {S T A : Type} (stepS : S → A → S) (stepT : T → A → T)
    (accS : S → Bool) (accT : T → Bool) (ok : A → Prop) (R : S → T → Prop)
    (hacc : ∀ s t, R s t → accS s = accT t)
    (hstep : ∀ s t a, R s t → ok a → R (stepS s a) (stepT t a)) :
    ∀ (w : List A) (s : S) (t : T), R s t → (∀ a ∈ w, ok a) →
      accS (w.foldl stepS s) = accT (w.foldl stepT t) := by
  intro w
  induction w with
  | nil => intro s t h _; exact hacc s t h
  | cons a w ih =>
    intro s t h hw
    simp only [List.foldl_cons]
    apply ih
    · exact hstep s t a h (hw a (by simp))
    · intro b hb; exact hw b (by simp [hb])

/-- A machine whose `same` test is a sufficient condition for equal steps. -/
def Machine.SameSound {T : Type} (M : Machine T) : Prop :=
  ∀ t x y, M.same t x y = true → M.step t x = M.step t y

theorem mem_letters {S T : Type} (c : Cert S T) (b m : Nat) (hb : b ∈ c.reps) (hm : m ∈ c.markers) :
    (b, m) ∈ c.letters := by
  simp only [Cert.letters, List.mem_flatMap, List.mem_map]
  exact ⟨b, hb, m, hm, rfl⟩

/-- Soundness of `verifyCert`: if the check passes, the two machines agree on the acceptance of
every word whose bytes are `< 256` and whose markers lie in the certificate's marker alphabet. -/
theorem verifyCert_sound {S T : Type} [DecidableEq S] [DecidableEq T]
    (MS : Machine S) (MT : Machine T) (hS : MS.SameSound) (hT : MT.SameSound)
    (s0 : S) (t0 : T) (c : Cert S T) (h : verifyCert MS MT s0 t0 c = true) :
    ∀ w : List Letter, (∀ a ∈ w, a.1 < 256 ∧ a.2 ∈ c.markers) →
      MS.acc (w.foldl MS.step s0) = MT.acc (w.foldl MT.step t0) := by
  unfold verifyCert at h
  simp only [Bool.and_eq_true, List.all_eq_true, List.mem_range] at h
  obtain ⟨⟨h0, hrep⟩, hpairs⟩ := h
  -- the relation
  let R : S → T → Prop := fun s t => ∃ i : Nat, c.pairs[i]? = some (s, t)
  have hR0 : R s0 t0 := by
    refine ⟨0, ?_⟩
    cases hp : c.pairs[0]? with
    | none => simp [hp] at h0
    | some p =>
      simp only [hp, Bool.and_eq_true, decide_eq_true_eq] at h0
      obtain ⟨p1, p2⟩ := p
      simp only at h0
      rw [h0.1, h0.2]
  have hget : ∀ i s t, c.pairs[i]? = some (s, t) → i < c.pairs.size := by
    intro i s t hi
    exact (Array.getElem?_eq_some_iff.mp hi).1
  have hacc : ∀ s t, R s t → MS.acc s = MT.acc t := by
    rintro s t ⟨i, hi⟩
    have := hpairs i (hget i s t hi)
    simp only [hi, Bool.and_eq_true, beq_iff_eq] at this
    exact this.1.1
  have hstep : ∀ s t (a : Letter), R s t → (a.1 < 256 ∧ a.2 ∈ c.markers) →
      R (MS.step s a) (MT.step t a) := by
    rintro s t ⟨b, m⟩ ⟨i, hi⟩ ⟨hb, hm⟩
    have := hpairs i (hget i s t hi)
    simp only [hi, Bool.and_eq_true, List.all_eq_true, List.mem_range] at this
    obtain ⟨⟨_, hsame⟩, hsucc⟩ := this
    have hsm := hsame b hb m hm
    have hr := hrep b hb
    simp only [Bool.and_eq_true, decide_eq_true_eq, List.contains_iff_mem] at hr
    rw [hS s _ _ hsm.1, hT t _ _ hsm.2]
    have hmem : (c.repOf b, m) ∈ c.letters := mem_letters c _ _ hr.2 hm
    obtain ⟨j, hj⟩ := List.mem_iff_getElem?.mp hmem
    have hz : ((c.repOf b, m), j) ∈ c.letters.zipIdx := by
      rw [List.mk_mem_zipIdx_iff_getElem?]
      simpa using hj
    have := hsucc _ hz
    simp only at this
    split at this
    · next p hp =>
      simp only [Bool.and_eq_true, decide_eq_true_eq] at this
      obtain ⟨p1, p2⟩ := p
      simp only at this
      exact ⟨_, by rw [hp, this.1, this.2]⟩
    · exact absurd this (by simp)
  intro w hw
  exact bisim_fold MS.step MT.step MS.acc MT.acc (fun a => a.1 < 256 ∧ a.2 ∈ c.markers) R
    hacc hstep w s0 t0 hR0 hw

/-! ## The two machines -/

theorem dfaMachine_sameSound (A : Dfa) : (dfaMachine A).SameSound := by
  intro t x y h
  simpa [dfaMachine] using h

/-- The derivative looks at a letter only through the `Single` membership tests (for the letter
itself and for its unmarked version) and through its marker. -/
theorem deriv_congr (r : Rx) : ∀ (x y : Letter), x.2 = y.2 →
    (∀ S ∈ singles r, lmem S x = lmem S y) →
    (∀ S ∈ singles r, lmem S (x.1, 0) = lmem S (y.1, 0)) → deriv x r = deriv y r := by
  induction r with
  | empty => intros; rfl
  | eps => intros; rfl
  | single S =>
    intro x y _ h _
    simp only [deriv, h S (by simp [singles])]
  | cat a b iha ihb =>
    intro x y hm h h0
    simp only [singles, List.mem_append] at h h0
    simp only [deriv]
    rw [iha x y hm (fun S hS => h S (Or.inl hS)) (fun S hS => h0 S (Or.inl hS)),
      ihb x y hm (fun S hS => h S (Or.inr hS)) (fun S hS => h0 S (Or.inr hS))]
  | alt a b iha ihb =>
    intro x y hm h h0
    simp only [singles, List.mem_append] at h h0
    simp only [deriv]
    rw [iha x y hm (fun S hS => h S (Or.inl hS)) (fun S hS => h0 S (Or.inl hS)),
      ihb x y hm (fun S hS => h S (Or.inr hS)) (fun S hS => h0 S (Or.inr hS))]
  | and a b iha ihb =>
    intro x y hm h h0
    simp only [singles, List.mem_append] at h h0
    simp only [deriv]
    rw [iha x y hm (fun S hS => h S (Or.inl hS)) (fun S hS => h0 S (Or.inl hS)),
      ihb x y hm (fun S hS => h S (Or.inr hS)) (fun S hS => h0 S (Or.inr hS)),
      iha (x.1, 0) (y.1, 0) rfl (fun S hS => h0 S (Or.inl hS)) (fun S hS => h0 S (Or.inl hS)),
      ihb (x.1, 0) (y.1, 0) rfl (fun S hS => h0 S (Or.inr hS)) (fun S hS => h0 S (Or.inr hS)),
      hm]
  | star a iha =>
    intro x y hm h h0
    simp only [singles] at h h0
    simp only [deriv]
    rw [iha x y hm h h0]
  | compl a iha =>
    intro x y hm h h0
    simp only [singles] at h h0
    simp only [deriv]
    rw [iha x y hm h h0, hm]

theorem rxMachine_sameSound : rxMachine.SameSound := by
  intro t x y h
  simp only [rxMachine, Bool.and_eq_true, decide_eq_true_eq, sameTests, List.all_eq_true,
    beq_iff_eq] at h
  exact deriv_congr t x y h.1.1 h.1.2 h.2

/-! ## The automaton as a machine over marked letters -/

theorem foldl_mstep_none (A : Dfa) (w : List Letter) : w.foldl A.mstep none = none := by
  induction w with
  | nil => rfl
  | cons a w ih => simpa [Dfa.mstep] using ih

/-- Running the automaton on the bytes and comparing the emitted markers is the same as running
the marked machine. -/
theorem run_eq_mrun (A : Dfa) (w : List Letter) : ∀ s : Nat,
    (match A.run s (w.map (·.1)) with
     | some (q, ms) => A.isFinal q && decide (ms = w.map (·.2))
     | none => false) = A.macc (w.foldl A.mstep (some s)) := by
  induction w with
  | nil => intro s; simp [Dfa.run, Dfa.macc]
  | cons a w ih =>
    intro s
    obtain ⟨b, m⟩ := a
    simp only [List.map_cons, Dfa.run, List.foldl_cons, Dfa.mstep]
    cases hl : A.lookup s b with
    | none => simp [foldl_mstep_none, Dfa.macc]
    | some tm =>
      obtain ⟨t, m'⟩ := tm
      simp only
      by_cases hm : m' = m
      · subst hm
        simp only [if_true]
        rw [← ih t]
        cases A.run t (w.map (·.1)) with
        | none => simp
        | some p => simp
      · simp only [hm, if_false, foldl_mstep_none, Dfa.macc]
        cases A.run t (w.map (·.1)) with
        | none => simp
        | some p => simp [hm]

theorem accepts_eq_acceptsMarked (A : Dfa) (w : List Letter) :
    A.accepts (w.map (·.1)) (w.map (·.2)) = A.acceptsMarked w := by
  simp only [Dfa.accepts, Dfa.acceptsMarked]
  exact run_eq_mrun A w A.init

theorem lookup_marker_mem (A : Dfa) (s b t m : Nat) (h : A.lookup s b = some (t, m)) :
    m ∈ A.markersOf := by
  simp only [Dfa.lookup] at h
  split at h
  · simp only [Dfa.markersOf, List.mem_filterMap]
    refine ⟨some (t, m), ?_, rfl⟩
    cases hx : A.tbl[s * 256 + b]? with
    | none => simp [hx] at h
    | some e =>
      simp only [hx, Option.join_some] at h
      subst h
      have := Array.getElem?_eq_some_iff.mp hx
      obtain ⟨hlt, he⟩ := this
      rw [← he]
      exact Array.getElem_mem_toList hlt
  · simp at h

/-- A word carrying a marker that no transition emits is rejected. -/
theorem acceptsMarked_foreign (A : Dfa) (w : List Letter) (M : List Nat)
    (hM : ∀ m ∈ A.markersOf, m ∈ M) (hw : ∃ a ∈ w, a.2 ∉ M) : ∀ s, A.macc (w.foldl A.mstep s) = false := by
  induction w with
  | nil => simp at hw
  | cons a w ih =>
    intro s
    simp only [List.foldl_cons]
    obtain ⟨x, hx, hxM⟩ := hw
    rcases List.mem_cons.mp hx with rfl | hx
    · have : A.mstep s x = none := by
        cases s with
        | none => rfl
        | some s =>
          simp only [Dfa.mstep]
          cases hl : A.lookup s x.1 with
          | none => rfl
          | some tm =>
            obtain ⟨t, m⟩ := tm
            simp only
            have := hM m (lookup_marker_mem A s x.1 t m hl)
            split
            · next h => subst h; exact absurd this hxM
            · rfl
      rw [this, foldl_mstep_none]; rfl
    · exact ih ⟨x, hx, hxM⟩ _

/-! ## Markers of the words of a language -/

theorem unify_markers {u v w : List Letter} (h : Unify u v w) :
    ∀ a ∈ w, (∃ a' ∈ u, a'.2 = a.2) ∨ (∃ a' ∈ v, a'.2 = a.2) := by
  induction h with
  | nil => simp
  | @cons b m1 m2 u v w hc _ ih =>
    intro a ha
    rcases List.mem_cons.mp ha with rfl | ha
    · by_cases hle : m1 ≤ m2
      · right; exact ⟨(b, m2), by simp, by simp [Nat.max_eq_right hle]⟩
      · left; exact ⟨(b, m1), by simp, by simp [Nat.max_eq_left (Nat.le_of_not_le hle)]⟩
    · rcases ih a ha with ⟨a', h1, h2⟩ | ⟨a', h1, h2⟩
      · left; exact ⟨a', List.mem_cons_of_mem _ h1, h2⟩
      · right; exact ⟨a', List.mem_cons_of_mem _ h1, h2⟩

/-- Every marker of a word of `L r` is 0 or occurs in `r`. -/
theorem mem_L_markers (r : Rx) : ∀ w, L r w → ∀ a ∈ w, a.2 = 0 ∨ a.2 ∈ markersOf r := by
  induction r with
  | empty => intro w h; exact absurd h (by simp [L])
  | eps => intro w h; simp only [L] at h; subst h; simp
  | single S =>
    intro w h a ha
    simp only [L] at h
    obtain ⟨x, rfl, hx⟩ := h
    simp only [List.mem_singleton] at ha
    subst ha
    right
    simp only [lmem, List.any_eq_true, Bool.and_eq_true, beq_iff_eq] at hx
    obtain ⟨p, hp, hp1, _⟩ := hx
    simp only [markersOf, singles, List.flatMap_cons, List.flatMap_nil, List.append_nil,
      List.mem_map]
    exact ⟨p, hp, hp1⟩
  | cat a b iha ihb =>
    intro w h x hx
    simp only [L] at h
    obtain ⟨u, v, rfl, hu, hv⟩ := h
    simp only [markersOf, singles, List.flatMap_append, List.mem_append]
    rcases List.mem_append.mp hx with hx | hx
    · rcases iha u hu x hx with h | h
      · exact Or.inl h
      · exact Or.inr (Or.inl h)
    · rcases ihb v hv x hx with h | h
      · exact Or.inl h
      · exact Or.inr (Or.inr h)
  | alt a b iha ihb =>
    intro w h x hx
    simp only [L] at h
    simp only [markersOf, singles, List.flatMap_append, List.mem_append]
    rcases h with h | h
    · rcases iha w h x hx with h | h
      · exact Or.inl h
      · exact Or.inr (Or.inl h)
    · rcases ihb w h x hx with h | h
      · exact Or.inl h
      · exact Or.inr (Or.inr h)
  | and a b iha ihb =>
    intro w h x hx
    simp only [L] at h
    obtain ⟨u, v, hu, hv, huv⟩ := h
    simp only [markersOf, singles, List.flatMap_append, List.mem_append]
    rcases unify_markers huv x hx with ⟨a', h1, h2⟩ | ⟨a', h1, h2⟩
    · rcases iha u hu a' h1 with h | h
      · exact Or.inl (h2 ▸ h)
      · exact Or.inr (Or.inl (h2 ▸ h))
    · rcases ihb v hv a' h1 with h | h
      · exact Or.inl (h2 ▸ h)
      · exact Or.inr (Or.inr (h2 ▸ h))
  | star a iha =>
    intro w h x hx
    simp only [L] at h
    obtain ⟨ws, rfl, hall⟩ := h
    obtain ⟨u, hu, hxu⟩ := List.mem_flatten.mp hx
    exact iha u (hall u hu) x hxu
  | compl a _ =>
    intro w h x hx
    simp only [L] at h
    exact Or.inl (h.1 x hx)

theorem foldl_deriv_eq_derivs (w : List Letter) : ∀ r : Rx,
    w.foldl (fun t x => deriv x t) r = derivs w r := by
  induction w with
  | nil => intro r; rfl
  | cons a w ih => intro r; simp only [List.foldl_cons, derivs, ih]

end MidnightZK.C19
