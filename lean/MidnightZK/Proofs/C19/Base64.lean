import MidnightZK.Model.C19.Base64
/-!
# C19 — base64: the in-circuit decoder inverts the standard encoder and rejects bad characters
-/
namespace MidnightZK.C19.B64

theorem val_chr : ∀ v, v < 64 → val (chr v) = some v := by decide

theorem chr_ne_pad : ∀ v, v < 64 → chr v ≠ b64Pad := by decide

theorem val_pad : val b64Pad = none := by decide
theorem val_altPad : val altPad = some 0 := by decide

theorem pairVal_chr (v0 v1 : Nat) (h0 : v0 < 64) (h1 : v1 < 64) :
    pairVal (chr v0) (chr v1) = some (v0 * 64 + v1) := by
  simp [pairVal, val_chr v0 h0, val_chr v1 h1]

theorem pairVal_alt : pairVal altPad altPad = some 0 := by decide

/-- Four characters of three bytes decode to the three bytes. -/
theorem chunk_enc3 (b0 b1 b2 : Nat) (h0 : b0 < 256) (h1 : b1 < 256) (h2 : b2 < 256) :
    chunk (chr ((b0 * 65536 + b1 * 256 + b2) / 262144)) (chr ((b0 * 65536 + b1 * 256 + b2) / 4096 % 64))
      (chr ((b0 * 65536 + b1 * 256 + b2) / 64 % 64)) (chr ((b0 * 65536 + b1 * 256 + b2) % 64))
      = some [b0, b1, b2] := by
  generalize ht : b0 * 65536 + b1 * 256 + b2 = t
  have htb : t < 16777216 := by omega
  unfold chunk
  rw [pairVal_chr _ _ (by omega) (Nat.mod_lt _ (by decide)),
    pairVal_chr _ _ (Nat.mod_lt _ (by decide)) (Nat.mod_lt _ (by decide))]
  simp only [Option.bind_eq_bind, Option.bind_some, Option.pure_def, Option.some.injEq,
    List.cons.injEq, and_true]
  refine ⟨?_, ?_, ?_⟩ <;> omega

theorem chunk_two (b0 b1 : Nat) (h0 : b0 < 256) (h1 : b1 < 256) :
    chunk (chr ((b0 * 65536 + b1 * 256) / 262144)) (chr ((b0 * 65536 + b1 * 256) / 4096 % 64))
      (chr ((b0 * 65536 + b1 * 256) / 64 % 64)) altPad = some [b0, b1, 0] := by
  generalize ht : b0 * 65536 + b1 * 256 = t
  have htb : t < 16777216 := by omega
  unfold chunk
  rw [pairVal_chr _ _ (by omega) (Nat.mod_lt _ (by decide))]
  simp only [pairVal, val_chr _ (Nat.mod_lt (t / 64) (by decide : 0 < 64)), val_altPad,
    Option.bind_eq_bind, Option.bind_some, Option.pure_def, Option.some.injEq,
    List.cons.injEq, and_true]
  refine ⟨?_, ?_, ?_⟩ <;> omega

theorem chunk_one (b0 : Nat) (h0 : b0 < 256) :
    chunk (chr (b0 * 65536 / 262144)) (chr (b0 * 65536 / 4096 % 64)) altPad altPad
      = some [b0, 0, 0] := by
  unfold chunk
  rw [pairVal_chr _ _ (by omega) (Nat.mod_lt _ (by decide)), pairVal_alt]
  simp only [Option.bind_eq_bind, Option.bind_some, Option.pure_def, Option.some.injEq,
    List.cons.injEq, and_true]
  refine ⟨?_, ?_, ?_⟩ <;> omega

theorem zeroFill_add3 (n : Nat) : zeroFill (n + 3) = zeroFill n := by
  simp [zeroFill]

theorem encode_eq_nil (pad : Bool) (l : List Nat) : encode pad l = [] ↔ l = [] := by
  constructor
  · intro h
    match l with
    | [] => rfl
    | [_] => simp [encode] at h
    | [_, _] => simp [encode] at h
    | _ :: _ :: _ :: _ => simp [encode, enc3] at h
  · rintro rfl; rfl

/-- **The in-circuit decoding inverts the standard encoding**: for every byte string, decoding
its RFC 4648 encoding (padded mode on the padded encoding, unpadded mode on the unpadded one)
is satisfiable and yields the bytes followed by the zero fill. -/
theorem decode_encode (pad : Bool) : ∀ bytes : List Nat, (∀ b ∈ bytes, b < 256) →
    decode pad (encode pad bytes) = some (bytes ++ zeroFill bytes.length)
  | [], _ => by simp [encode, decode, zeroFill]
  | [b0], h => by
    have h0 : b0 < 256 := h b0 (by simp)
    cases pad
    · simp only [encode, decode, Bool.false_eq_true, if_false, List.append_nil, List.cons_append,
        List.nil_append]
      rw [chunk_one b0 h0]; simp [zeroFill]
    · simp only [encode, if_true, List.cons_append, List.nil_append, decode, lastPadded,
        beq_self_eq_true, Bool.not_true, Bool.and_false, Bool.false_eq_true, if_false]
      rw [chunk_one b0 h0]; simp [zeroFill]
  | [b0, b1], h => by
    have h0 : b0 < 256 := h b0 (by simp)
    have h1 : b1 < 256 := h b1 (by simp)
    have hne := chr_ne_pad ((b0 * 65536 + b1 * 256) / 64 % 64) (Nat.mod_lt _ (by decide))
    cases pad
    · simp only [encode, decode, Bool.false_eq_true, if_false, List.append_nil, List.cons_append,
        List.nil_append]
      rw [chunk_two b0 b1 h0 h1]; simp [zeroFill]
    · simp only [encode, if_true, List.cons_append, List.nil_append, decode, lastPadded,
        beq_self_eq_true, Bool.not_true, Bool.and_false, Bool.false_eq_true, if_false,
        beq_eq_false_iff_ne.mpr hne]
      rw [chunk_two b0 b1 h0 h1]; simp [zeroFill]
  | b0 :: b1 :: b2 :: rest, h => by
    have h0 : b0 < 256 := h b0 (by simp)
    have h1 : b1 < 256 := h b1 (by simp)
    have h2 : b2 < 256 := h b2 (by simp)
    have ih := decode_encode pad rest (fun b hb => h b (by simp [hb]))
    have hc := chunk_enc3 b0 b1 b2 h0 h1 h2
    simp only [encode, enc3, List.cons_append, List.nil_append]
    cases hr : encode pad rest with
    | nil =>
      have : rest = [] := (encode_eq_nil pad rest).mp hr
      subst this
      have hn2 := chr_ne_pad ((b0 * 65536 + b1 * 256 + b2) / 64 % 64) (Nat.mod_lt _ (by decide))
      have hn3 := chr_ne_pad ((b0 * 65536 + b1 * 256 + b2) % 64) (Nat.mod_lt _ (by decide))
      cases pad
      · simp only [decode, Bool.false_eq_true, if_false, hc]; simp [zeroFill]
      · simp only [decode, if_true, lastPadded, beq_eq_false_iff_ne.mpr hn2,
          beq_eq_false_iff_ne.mpr hn3, Bool.false_and, Bool.false_eq_true, if_false, hc]
        simp [zeroFill]
    | cons c cs =>
      rw [hr] at ih
      simp only [decode, hc, ih, Option.bind_eq_bind, Option.bind_some, Option.pure_def,
        List.length_cons, zeroFill_add3]
      simp

/-- The lookup rejects every byte outside the alphabet (`=` included). -/
theorem chunk_reject (c0 c1 c2 c3 : Nat)
    (h : val c0 = none ∨ val c1 = none ∨ val c2 = none ∨ val c3 = none) :
    chunk c0 c1 c2 c3 = none := by
  unfold chunk pairVal
  rcases h with h | h | h | h
  · simp [h]
  · cases val c0 <;> simp [h]
  · cases val c0 <;> cases val c1 <;> simp [h]
  · cases val c0 <;> cases val c1 <;> cases val c2 <;> simp [h]

/-- `process_padded_chunk`: `=` followed by something else than `=` is unsatisfiable. -/
theorem lastPadded_reject (c0 c1 c3 : Nat) (h : c3 ≠ b64Pad) :
    lastPadded c0 c1 b64Pad c3 = none := by
  simp [lastPadded, beq_eq_false_iff_ne.mpr h]

/-- A byte that is neither in the alphabet nor `=` makes the decoding unsatisfiable, wherever it
stands, in padded and unpadded mode. -/
theorem decode_reject_char (pad : Bool) : ∀ input : List Nat,
    (∃ c ∈ input, val c = none ∧ c ≠ b64Pad) → decode pad input = none
  | [], h => by simp at h
  | [c0], h => by
    obtain ⟨c, hc, hv, _⟩ := h
    simp only [List.mem_singleton] at hc; subst hc
    cases pad <;> simp [decode, chunk_reject _ _ _ _ (Or.inl hv)]
  | [c0, c1], h => by
    obtain ⟨c, hc, hv, _⟩ := h
    cases pad
    · simp only [decode, Bool.false_eq_true, if_false]
      apply chunk_reject
      simp only [List.mem_cons, List.not_mem_nil, or_false] at hc
      rcases hc with rfl | rfl
      · exact Or.inl hv
      · exact Or.inr (Or.inl hv)
    · simp [decode]
  | [c0, c1, c2], h => by
    obtain ⟨c, hc, hv, _⟩ := h
    cases pad
    · simp only [decode, Bool.false_eq_true, if_false]
      apply chunk_reject
      simp only [List.mem_cons, List.not_mem_nil, or_false] at hc
      rcases hc with rfl | rfl | rfl
      · exact Or.inl hv
      · exact Or.inr (Or.inl hv)
      · exact Or.inr (Or.inr (Or.inl hv))
    · simp [decode]
  | [c0, c1, c2, c3], h => by
    obtain ⟨c, hc, hv, hne⟩ := h
    simp only [List.mem_cons, List.not_mem_nil, or_false] at hc
    cases pad
    · simp only [decode, Bool.false_eq_true, if_false]
      apply chunk_reject
      rcases hc with rfl | rfl | rfl | rfl
      · exact Or.inl hv
      · exact Or.inr (Or.inl hv)
      · exact Or.inr (Or.inr (Or.inl hv))
      · exact Or.inr (Or.inr (Or.inr hv))
    · simp only [decode, if_true, lastPadded]
      split
      · rfl
      · apply chunk_reject
        rcases hc with rfl | rfl | rfl | rfl
        · exact Or.inl hv
        · exact Or.inr (Or.inl hv)
        · right; right; left
          simp [beq_eq_false_iff_ne.mpr hne, hv]
        · right; right; right
          simp [beq_eq_false_iff_ne.mpr hne, hv]
  | c0 :: c1 :: c2 :: c3 :: c4 :: rest, h => by
    obtain ⟨c, hc, hv, hne⟩ := h
    simp only [decode]
    by_cases hin : c = c0 ∨ c = c1 ∨ c = c2 ∨ c = c3
    · have : chunk c0 c1 c2 c3 = none := by
        apply chunk_reject
        rcases hin with rfl | rfl | rfl | rfl
        · exact Or.inl hv
        · exact Or.inr (Or.inl hv)
        · exact Or.inr (Or.inr (Or.inl hv))
        · exact Or.inr (Or.inr (Or.inr hv))
      simp [this]
    · have hmem : c ∈ c4 :: rest := by
        simp only [List.mem_cons] at hc ⊢
        rcases hc with h | h | h | h | h
        · exact absurd (Or.inl h) hin
        · exact absurd (Or.inr (Or.inl h)) hin
        · exact absurd (Or.inr (Or.inr (Or.inl h))) hin
        · exact absurd (Or.inr (Or.inr (Or.inr h))) hin
        · exact h
      have := decode_reject_char pad (c4 :: rest) ⟨c, hmem, hv, hne⟩
      cases chunk c0 c1 c2 c3 <;> simp [this]

/-- In a chunk that is not the last one, `=` is rejected as well. -/
theorem decode_reject_early_pad (pad : Bool) (c0 c1 c2 c3 c4 : Nat) (rest : List Nat)
    (h : c0 = b64Pad ∨ c1 = b64Pad ∨ c2 = b64Pad ∨ c3 = b64Pad) :
    decode pad (c0 :: c1 :: c2 :: c3 :: c4 :: rest) = none := by
  have : chunk c0 c1 c2 c3 = none := by
    apply chunk_reject
    rcases h with rfl | rfl | rfl | rfl
    · exact Or.inl val_pad
    · exact Or.inr (Or.inl val_pad)
    · exact Or.inr (Or.inr (Or.inl val_pad))
    · exact Or.inr (Or.inr (Or.inr val_pad))
  simp [decode, this]

theorem chunk_length (c0 c1 c2 c3 : Nat) (a : List Nat) (h : chunk c0 c1 c2 c3 = some a) :
    a.length = 3 := by
  unfold chunk at h
  cases h1 : pairVal c0 c1 with
  | none => simp [h1] at h
  | some x =>
    cases h2 : pairVal c2 c3 with
    | none => simp [h1, h2] at h
    | some y => simp [h1, h2] at h; subst h; rfl

/-- Output length: 3 bytes per (possibly completed) chunk of 4 characters. -/
theorem decode_length (pad : Bool) : ∀ (input out : List Nat), decode pad input = some out →
    out.length = (input.length + 3) / 4 * 3
  | [], out, h => by simp [decode] at h; subst h; rfl
  | [c0], out, h => by
    cases pad
    · simp only [decode, Bool.false_eq_true, if_false] at h; exact (chunk_length _ _ _ _ _ h).trans (by simp)
    · simp [decode] at h
  | [c0, c1], out, h => by
    cases pad
    · simp only [decode, Bool.false_eq_true, if_false] at h; exact (chunk_length _ _ _ _ _ h).trans (by simp)
    · simp [decode] at h
  | [c0, c1, c2], out, h => by
    cases pad
    · simp only [decode, Bool.false_eq_true, if_false] at h; exact (chunk_length _ _ _ _ _ h).trans (by simp)
    · simp [decode] at h
  | [c0, c1, c2, c3], out, h => by
    cases pad
    · simp only [decode, Bool.false_eq_true, if_false] at h; exact (chunk_length _ _ _ _ _ h).trans (by simp)
    · simp only [decode, if_true, lastPadded] at h
      split at h
      · simp at h
      · exact (chunk_length _ _ _ _ _ h).trans (by simp)
  | c0 :: c1 :: c2 :: c3 :: c4 :: rest, out, h => by
    simp only [decode] at h
    cases hc : chunk c0 c1 c2 c3 with
    | none => simp [hc] at h
    | some a =>
      cases hd : decode pad (c4 :: rest) with
      | none => simp [hc, hd] at h
      | some b =>
        simp [hc, hd] at h
        subst h
        have ih := decode_length pad (c4 :: rest) b hd
        have ha : a.length = 3 := chunk_length _ _ _ _ _ hc
        simp only [List.length_append, ha, ih, List.length_cons]
        omega

end MidnightZK.C19.B64
