import MidnightZK.Model.C19.Serial
/-!
# C19 — serialization round trip
-/
namespace MidnightZK.C19

theorem leBytes_length (k n : Nat) : (leBytes k n).length = k := by
  induction k generalizing n with
  | zero => rfl
  | succ k ih => simp [leBytes, ih]

theorem fromLe_leBytes (k : Nat) : ∀ n, fromLe (leBytes k n) = n % 256 ^ k := by
  induction k with
  | zero => intro n; simp [leBytes, fromLe, Nat.mod_one]
  | succ k ih =>
    intro n
    simp only [leBytes, fromLe, ih]
    rw [Nat.pow_succ, Nat.mul_comm (256 ^ k) 256, Nat.mod_mul]

theorem deUsize_ser (n : Nat) (h : n < 2 ^ 64) (rest : List Nat) :
    deUsize (serUsize n ++ rest) = some (n, rest) := by
  unfold deUsize serUsize
  have hl : (leBytes 8 n).length = 8 := leBytes_length 8 n
  have h1 : ¬ (leBytes 8 n ++ rest).length < 8 := by simp [hl]
  rw [if_neg h1]
  have h2 : (leBytes 8 n ++ rest).take 8 = leBytes 8 n := by
    rw [List.take_append_of_le_length (by omega)]
    exact List.take_of_length_le (by omega)
  have h3 : (leBytes 8 n ++ rest).drop 8 = rest := by
    rw [List.drop_append_of_le_length (by omega)]
    simp [List.drop_of_length_le (Nat.le_of_eq hl)]
  rw [h2, h3, fromLe_leBytes]
  have : n % 256 ^ 8 = n := Nat.mod_eq_of_lt (by
    have : (256 : Nat) ^ 8 = 2 ^ 64 := by decide
    omega)
  rw [this]

theorem deTrans_ser (e : (Nat × Nat) × (Nat × Nat))
    (h : e.1.1 < 2 ^ 64 ∧ e.1.2 < 256 ∧ e.2.1 < 2 ^ 64 ∧ e.2.2 < 2 ^ 64) (rest : List Nat) :
    deTrans (serTrans e ++ rest) = some (e, rest) := by
  obtain ⟨⟨s, b⟩, ⟨t, m⟩⟩ := e
  simp only at h
  unfold deTrans serTrans
  simp only [List.append_assoc, deUsize_ser s h.1, Option.bind_eq_bind, Option.bind_some,
    List.cons_append, List.nil_append, deU8, deUsize_ser t h.2.2.1, deUsize_ser m h.2.2.2]
  rfl

theorem deItems_ser {α : Type} (ser : α → List Nat) (de : List Nat → Option (α × List Nat))
    (l : List α) (h : ∀ x ∈ l, ∀ rest, de (ser x ++ rest) = some (x, rest)) (rest : List Nat) :
    deItems de l.length (l.flatMap ser ++ rest) = some (l, rest) := by
  induction l with
  | nil => simp [deItems]
  | cons x xs ih =>
    simp only [List.length_cons, deItems, List.flatMap_cons, List.append_assoc,
      h x (by simp), Option.bind_eq_bind, Option.bind_some]
    rw [ih (fun y hy => h y (List.mem_cons_of_mem _ hy))]
    rfl

theorem deVec_ser {α : Type} (ser : α → List Nat) (de : List Nat → Option (α × List Nat))
    (l : List α) (hl : l.length < 2 ^ 64)
    (h : ∀ x ∈ l, ∀ rest, de (ser x ++ rest) = some (x, rest)) (rest : List Nat) :
    deVec de (serVec ser l ++ rest) = some (l, rest) := by
  unfold deVec serVec
  simp only [List.append_assoc, deUsize_ser _ hl, Option.bind_eq_bind, Option.bind_some]
  exact deItems_ser ser de l h rest

theorem deserialize_serialize (A : AutData) (h : A.wf) (rest : List Nat) :
    deserialize (serialize A ++ rest) = some (A, rest) := by
  obtain ⟨h1, h2, h3, h4, h5, h6⟩ := h
  unfold deserialize serialize
  simp only [List.append_assoc, deUsize_ser _ h1, deUsize_ser _ h2, Option.bind_eq_bind,
    Option.bind_some]
  rw [deVec_ser serUsize deUsize A.finals h3 (fun x hx r => deUsize_ser x (h5 x hx) r)]
  simp only [Option.bind_some]
  rw [deVec_ser serTrans deTrans A.trans h4 (fun e he r => deTrans_ser e (h6 e he) r)]
  rfl

/-- A truncated buffer is rejected, never mis-read: `deUsize` needs 8 bytes. -/
theorem deUsize_short (buf : List Nat) (h : buf.length < 8) : deUsize buf = none := by
  simp [deUsize, h]

end MidnightZK.C19
