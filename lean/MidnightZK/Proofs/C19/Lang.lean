import MidnightZK.Model.C19.Rx
/-!
# C19 — denotational language of marked regular expressions and correctness of derivatives
-/
namespace MidnightZK.C19
open Rx

/-- Marker unification of two marked words letter by letter (`RawAutomaton::inter`, closure
`join`): same byte, markers equal or one of them 0; the result carries the larger marker. -/
inductive Unify : List Letter → List Letter → List Letter → Prop
  | nil : Unify [] [] []
  | cons {b m1 m2 : Nat} {u v w : List Letter} :
      (m1 = m2 ∨ m1 = 0 ∨ m2 = 0) → Unify u v w →
      Unify ((b, m1) :: u) ((b, m2) :: v) ((b, max m1 m2) :: w)

/-- Denotational semantics: the set of marked words of an expression. -/
def L : Rx → List Letter → Prop
  | .empty, _ => False
  | .eps, w => w = []
  | .single S, w => ∃ a, w = [a] ∧ lmem S a = true
  | .cat a b, w => ∃ u v, w = u ++ v ∧ L a u ∧ L b v
  | .alt a b, w => L a w ∨ L b w
  | .and a b, w => ∃ u v, L a u ∧ L b v ∧ Unify u v w
  | .star a, w => ∃ ws : List (List Letter), w = ws.flatten ∧ ∀ u ∈ ws, L a u
  | .compl a, w => (∀ x ∈ w, x.2 = 0) ∧ ¬ L a w

theorem unify_nil_iff {u v : List Letter} : Unify u v [] ↔ u = [] ∧ v = [] := by
  constructor
  · intro h; cases h; exact ⟨rfl, rfl⟩
  · rintro ⟨rfl, rfl⟩; exact .nil

theorem unify_cons_iff {u v w : List Letter} {x : Letter} :
    Unify u v (x :: w) ↔ ∃ m1 m2 u' v', u = (x.1, m1) :: u' ∧ v = (x.1, m2) :: v' ∧
      (m1 = m2 ∨ m1 = 0 ∨ m2 = 0) ∧ max m1 m2 = x.2 ∧ Unify u' v' w := by
  constructor
  · intro h
    cases h with
    | cons hc hu => exact ⟨_, _, _, _, rfl, rfl, hc, rfl, hu⟩
  · rintro ⟨m1, m2, u', v', rfl, rfl, hc, hm, hu⟩
    obtain ⟨b, m⟩ := x
    simp only at hm
    subst hm
    exact .cons hc hu

theorem nullable_iff (r : Rx) : nullable r = true ↔ L r [] := by
  induction r with
  | empty => simp [nullable, L]
  | eps => simp [nullable, L]
  | single S => simp [nullable, L]
  | cat a b iha ihb =>
    simp only [nullable, L, Bool.and_eq_true, iha, ihb]
    constructor
    · rintro ⟨h1, h2⟩; exact ⟨[], [], rfl, h1, h2⟩
    · rintro ⟨u, v, h, h1, h2⟩
      have := List.append_eq_nil_iff.mp h.symm
      rw [this.1] at h1; rw [this.2] at h2; exact ⟨h1, h2⟩
  | alt a b iha ihb => simp only [nullable, L, Bool.or_eq_true, iha, ihb]
  | and a b iha ihb =>
    simp only [nullable, L, Bool.and_eq_true, iha, ihb]
    constructor
    · rintro ⟨h1, h2⟩; exact ⟨[], [], h1, h2, .nil⟩
    · rintro ⟨u, v, h1, h2, h⟩
      obtain ⟨rfl, rfl⟩ := unify_nil_iff.mp h
      exact ⟨h1, h2⟩
  | star a _ =>
    simp only [nullable, L, true_iff]
    exact ⟨[], rfl, by simp⟩
  | compl a iha =>
    simp only [nullable, L, Bool.not_eq_true', ← iha]
    cases nullable a <;> simp

theorem isEmpty_eq {a : Rx} (h : a.isEmpty = true) : a = .empty := by
  cases a <;> simp_all [isEmpty]

theorem isEps_eq {a : Rx} (h : a.isEps = true) : a = .eps := by
  cases a <;> simp_all [isEps]

theorem L_altInsert (x r : Rx) (w : List Letter) : L (altInsert x r) w ↔ L x w ∨ L r w := by
  induction r with
  | alt y z _ ihz =>
    unfold altInsert
    split
    · next h => subst h; simp only [L]; constructor
                · intro h; exact Or.inr h
                · rintro (h | h); exact Or.inl h; exact h
    · split
      · simp [L]
      · simp only [L, ihz]
        constructor
        · rintro (h | h | h)
          · exact Or.inr (Or.inl h)
          · exact Or.inl h
          · exact Or.inr (Or.inr h)
        · rintro (h | h | h)
          · exact Or.inr (Or.inl h)
          · exact Or.inl h
          · exact Or.inr (Or.inr h)
  | empty => simp [altInsert, L]
  | eps =>
    simp only [altInsert]
    split
    · next h => subst h; simp
    · split <;> simp only [L] <;> exact Or.comm
  | single S =>
    simp only [altInsert]
    split
    · next h => subst h; simp
    · split
      · simp only [L]
      · simp only [L]; exact Or.comm
  | cat a b _ _ =>
    simp only [altInsert]
    split
    · next h => subst h; simp
    · split
      · simp only [L]
      · simp only [L]; exact Or.comm
  | and a b _ _ =>
    simp only [altInsert]
    split
    · next h => subst h; simp
    · split
      · simp only [L]
      · simp only [L]; exact Or.comm
  | star a _ =>
    simp only [altInsert]
    split
    · next h => subst h; simp
    · split
      · simp only [L]
      · simp only [L]; exact Or.comm
  | compl a _ =>
    simp only [altInsert]
    split
    · next h => subst h; simp
    · split
      · simp only [L]
      · simp only [L]; exact Or.comm

theorem L_mkAlt (a b : Rx) (w : List Letter) : L (mkAlt a b) w ↔ L a w ∨ L b w := by
  induction a with
  | empty => simp [mkAlt, L]
  | alt x y _ ihy =>
    simp only [mkAlt, L_altInsert, ihy, L]
    exact or_assoc.symm
  | eps => simp only [mkAlt, L_altInsert]
  | single S => simp only [mkAlt, L_altInsert]
  | cat _ _ _ _ => simp only [mkAlt, L_altInsert]
  | and _ _ _ _ => simp only [mkAlt, L_altInsert]
  | star _ _ => simp only [mkAlt, L_altInsert]
  | compl _ _ => simp only [mkAlt, L_altInsert]

theorem L_cat_assoc (a b c : Rx) (w : List Letter) :
    L (.cat (.cat a b) c) w ↔ L (.cat a (.cat b c)) w := by
  simp only [L]
  constructor
  · rintro ⟨u, v, rfl, ⟨u1, u2, rfl, h1, h2⟩, h3⟩
    exact ⟨u1, u2 ++ v, by simp, h1, u2, v, rfl, h2, h3⟩
  · rintro ⟨u, v, rfl, h1, v1, v2, rfl, h2, h3⟩
    exact ⟨u ++ v1, v2, by simp, ⟨u, v1, rfl, h1, h2⟩, h3⟩

theorem L_cat_congr_right (a b b' : Rx) (h : ∀ w, L b w ↔ L b' w) (w : List Letter) :
    L (.cat a b) w ↔ L (.cat a b') w := by
  simp only [L, h]

private theorem L_mkCat_base (a b : Rx) (w : List Letter) :
    L (if b.isEmpty then .empty else if b.isEps then a else .cat a b) w ↔ L (.cat a b) w := by
  split
  · next h => rw [isEmpty_eq h]; simp [L]
  · split
    · next h =>
      rw [isEps_eq h]; simp only [L]
      constructor
      · intro h; exact ⟨w, [], by simp, h, rfl⟩
      · rintro ⟨u, v, rfl, h, rfl⟩; simpa using h
    · rfl

theorem L_mkCat (a : Rx) : ∀ (b : Rx) (w : List Letter), L (mkCat a b) w ↔ L (.cat a b) w := by
  induction a with
  | empty => intro b w; simp [mkCat, L]
  | eps =>
    intro b w
    simp only [mkCat, L]
    constructor
    · intro h; exact ⟨[], w, rfl, rfl, h⟩
    · rintro ⟨u, v, rfl, rfl, h⟩; simpa using h
  | alt x y _ _ => intro b w; simp only [mkCat]; exact L_mkCat_base _ b w
  | cat x y ihx ihy =>
    intro b w
    simp only [mkCat]
    rw [ihx, L_cat_assoc]
    exact L_cat_congr_right x _ _ (ihy b) w
  | single S => intro b w; simp only [mkCat]; exact L_mkCat_base _ b w
  | and x y _ _ => intro b w; simp only [mkCat]; exact L_mkCat_base _ b w
  | star x _ => intro b w; simp only [mkCat]; exact L_mkCat_base _ b w
  | compl x _ => intro b w; simp only [mkCat]; exact L_mkCat_base _ b w

/-- The unmarked version of a word unifies with the word into the word itself. -/
theorem unify_unmark (v : List Letter) : Unify (v.map (fun a => (a.1, 0))) v v := by
  induction v with
  | nil => exact .nil
  | cons a v ih =>
    obtain ⟨b, m⟩ := a
    have := @Unify.cons b 0 m _ _ _ (Or.inr (Or.inl rfl)) ih
    simpa using this

theorem unify_unmark' (v : List Letter) : Unify v (v.map (fun a => (a.1, 0))) v := by
  induction v with
  | nil => exact .nil
  | cons a v ih =>
    obtain ⟨b, m⟩ := a
    have := @Unify.cons b m 0 _ _ _ (Or.inr (Or.inr rfl)) ih
    simpa using this

theorem unify_unmarked_left {u v w : List Letter} (h : Unify u v w) (hu : ∀ x ∈ u, x.2 = 0) :
    w = v := by
  induction h with
  | nil => rfl
  | @cons b m1 m2 u v w _ _ ih =>
    have h0 : m1 = 0 := hu (b, m1) (by simp)
    subst h0
    rw [ih (fun x hx => hu x (List.mem_cons_of_mem _ hx))]
    simp

theorem unify_unmarked_right {u v w : List Letter} (h : Unify u v w) (hv : ∀ x ∈ v, x.2 = 0) :
    w = u := by
  induction h with
  | nil => rfl
  | @cons b m1 m2 u v w _ _ ih =>
    have h0 : m2 = 0 := hv (b, m2) (by simp)
    subst h0
    rw [ih (fun x hx => hv x (List.mem_cons_of_mem _ hx))]
    simp

theorem L_univ (w : List Letter) : L univ w ↔ ∀ x ∈ w, x.2 = 0 := by
  simp [univ, L]

theorem L_and_univ_left (b : Rx) (w : List Letter) : L (.and univ b) w ↔ L b w := by
  simp only [L]
  constructor
  · rintro ⟨u, v, hu, hv, h⟩
    have : (∀ x ∈ u, x.2 = 0) := (L_univ u).mp hu
    rw [unify_unmarked_left h this]; exact hv
  · intro h
    exact ⟨w.map (fun a => (a.1, 0)), w, (L_univ _).mpr (by intro x hx; obtain ⟨y, _, rfl⟩ := List.mem_map.mp hx; rfl), h, unify_unmark w⟩

theorem L_and_univ_right (a : Rx) (w : List Letter) : L (.and a univ) w ↔ L a w := by
  simp only [L]
  constructor
  · rintro ⟨u, v, hu, hv, h⟩
    have : (∀ x ∈ v, x.2 = 0) := (L_univ v).mp hv
    rw [unify_unmarked_right h this]; exact hu
  · intro h
    exact ⟨w, w.map (fun a => (a.1, 0)), h, (L_univ _).mpr (by intro x hx; obtain ⟨y, _, rfl⟩ := List.mem_map.mp hx; rfl), unify_unmark' w⟩

private theorem L_mkAndR_base (a b : Rx) (w : List Letter) :
    L (if a = univ then b else if b = univ then a else .and a b) w ↔ L (.and a b) w := by
  split
  · next h => subst h; exact (L_and_univ_left b w).symm
  · split
    · next h => subst h; exact (L_and_univ_right a w).symm
    · rfl

theorem L_mkAndR (a b : Rx) : ∀ w : List Letter, L (mkAndR a b) w ↔ L (.and a b) w := by
  induction b with
  | empty => intro w; simp [mkAndR, L]
  | alt x y ihx ihy =>
    intro w
    simp only [mkAndR, L_mkAlt, ihx, ihy]
    simp only [L]
    constructor
    · rintro (⟨u, v, h1, h2, h3⟩ | ⟨u, v, h1, h2, h3⟩)
      · exact ⟨u, v, h1, Or.inl h2, h3⟩
      · exact ⟨u, v, h1, Or.inr h2, h3⟩
    · rintro ⟨u, v, h1, h2 | h2, h3⟩
      · exact Or.inl ⟨u, v, h1, h2, h3⟩
      · exact Or.inr ⟨u, v, h1, h2, h3⟩
  | eps => intro w; simp only [mkAndR]; exact L_mkAndR_base a _ w
  | single S => intro w; simp only [mkAndR]; exact L_mkAndR_base a _ w
  | cat x y _ _ => intro w; simp only [mkAndR]; exact L_mkAndR_base a _ w
  | and x y _ _ => intro w; simp only [mkAndR]; exact L_mkAndR_base a _ w
  | star x _ => intro w; simp only [mkAndR]; exact L_mkAndR_base a _ w
  | compl x _ => intro w; simp only [mkAndR]; exact L_mkAndR_base a _ w

theorem L_mkAnd (a : Rx) : ∀ (b : Rx) (w : List Letter), L (mkAnd a b) w ↔ L (.and a b) w := by
  induction a with
  | empty => intro b w; simp [mkAnd, L]
  | alt x y ihx ihy =>
    intro b w
    simp only [mkAnd, L_mkAlt, ihx, ihy]
    simp only [L]
    constructor
    · rintro (⟨u, v, h1, h2, h3⟩ | ⟨u, v, h1, h2, h3⟩)
      · exact ⟨u, v, Or.inl h1, h2, h3⟩
      · exact ⟨u, v, Or.inr h1, h2, h3⟩
    · rintro ⟨u, v, h1 | h1, h2, h3⟩
      · exact Or.inl ⟨u, v, h1, h2, h3⟩
      · exact Or.inr ⟨u, v, h1, h2, h3⟩
  | eps => intro b w; simp only [mkAnd]; exact L_mkAndR _ b w
  | single S => intro b w; simp only [mkAnd]; exact L_mkAndR _ b w
  | cat x y _ _ => intro b w; simp only [mkAnd]; exact L_mkAndR _ b w
  | and x y _ _ => intro b w; simp only [mkAnd]; exact L_mkAndR _ b w
  | star x _ => intro b w; simp only [mkAnd]; exact L_mkAndR _ b w
  | compl x _ => intro b w; simp only [mkAnd]; exact L_mkAndR _ b w

/-- Unfolding of the star on a non-empty word. -/
theorem L_star_cons (a : Rx) (x : Letter) (w : List Letter) :
    L (.star a) (x :: w) ↔ ∃ u v, w = u ++ v ∧ L a (x :: u) ∧ L (.star a) v := by
  constructor
  · rintro ⟨ws, hw, hall⟩
    induction ws with
    | nil => simp at hw
    | cons u ws ih =>
      cases u with
      | nil =>
        simp only [List.flatten_cons, List.nil_append] at hw
        exact ih hw (fun u hu => hall u (List.mem_cons_of_mem _ hu))
      | cons y u =>
        simp only [List.flatten_cons, List.cons_append, List.cons.injEq] at hw
        obtain ⟨rfl, rfl⟩ := hw
        exact ⟨u, ws.flatten, rfl, hall _ (List.mem_cons_self ..),
          ws, rfl, fun v hv => hall v (List.mem_cons_of_mem _ hv)⟩
  · rintro ⟨u, v, rfl, hu, ws, rfl, hall⟩
    refine ⟨(x :: u) :: ws, by simp, ?_⟩
    intro z hz
    rcases List.mem_cons.mp hz with rfl | hz
    · exact hu
    · exact hall z hz

/-- Correctness of the derivative: `w ∈ L (deriv x r) ↔ x·w ∈ L r`. -/
theorem deriv_correct (r : Rx) : ∀ (x : Letter) (w : List Letter), L (deriv x r) w ↔ L r (x :: w) := by
  induction r with
  | empty => intro x w; simp [deriv, L]
  | eps => intro x w; simp [deriv, L]
  | single S =>
    intro x w
    simp only [deriv]
    split
    · next h =>
      simp only [L]
      constructor
      · rintro rfl; exact ⟨x, rfl, h⟩
      · rintro ⟨a, ha, _⟩; simp at ha; exact ha.2
    · next h =>
      simp only [L, false_iff]
      rintro ⟨a, ha, hm⟩
      simp at ha
      rw [← ha.1] at hm
      exact h hm
  | cat a b iha ihb =>
    intro x w
    have key : L (.cat a b) (x :: w) ↔
        (∃ u v, w = u ++ v ∧ L a (x :: u) ∧ L b v) ∨ (L a [] ∧ L b (x :: w)) := by
      simp only [L]
      constructor
      · rintro ⟨u, v, h, hu, hv⟩
        cases u with
        | nil => simp at h; subst h; exact Or.inr ⟨hu, hv⟩
        | cons y u =>
          simp only [List.cons_append, List.cons.injEq] at h
          obtain ⟨rfl, rfl⟩ := h
          exact Or.inl ⟨u, v, rfl, hu, hv⟩
      · rintro (⟨u, v, rfl, hu, hv⟩ | ⟨hu, hv⟩)
        · exact ⟨x :: u, v, rfl, hu, hv⟩
        · exact ⟨[], x :: w, rfl, hu, hv⟩
    rw [key]
    simp only [deriv]
    split
    · next h =>
      rw [L_mkAlt, L_mkCat, ihb]
      simp only [L, iha]
      have hn : L a [] := (nullable_iff a).mp h
      simp [hn]
    · next h =>
      rw [L_mkCat]
      simp only [L, iha]
      have : ¬ L a [] := fun hn => h ((nullable_iff a).mpr hn)
      simp [this]
  | alt a b iha ihb => intro x w; simp only [deriv, L_mkAlt, iha, ihb, L]
  | and a b iha ihb =>
    intro x w
    obtain ⟨c, m⟩ := x
    have key : L (.and a b) ((c, m) :: w) ↔ ∃ m1 m2 u v, L a ((c, m1) :: u) ∧ L b ((c, m2) :: v) ∧
        (m1 = m2 ∨ m1 = 0 ∨ m2 = 0) ∧ max m1 m2 = m ∧ Unify u v w := by
      simp only [L]
      constructor
      · rintro ⟨u, v, hu, hv, h⟩
        obtain ⟨m1, m2, u', v', rfl, rfl, hc, hm, hu'⟩ := unify_cons_iff.mp h
        exact ⟨m1, m2, u', v', hu, hv, hc, hm, hu'⟩
      · rintro ⟨m1, m2, u, v, hu, hv, hc, hm, h⟩
        exact ⟨_, _, hu, hv, unify_cons_iff.mpr ⟨m1, m2, u, v, rfl, rfl, hc, hm, h⟩⟩
    rw [key]
    simp only [deriv]
    split
    · next h =>
      have h : m = 0 := h
      subst h
      rw [L_mkAnd]
      simp only [L, iha, ihb]
      constructor
      · rintro ⟨u, v, hu, hv, h⟩
        exact ⟨0, 0, u, v, hu, hv, Or.inl rfl, rfl, h⟩
      · rintro ⟨m1, m2, u, v, hu, hv, _, hm, h⟩
        have h1 : m1 = 0 := by omega
        have h2 : m2 = 0 := by omega
        subst h1 h2
        exact ⟨u, v, hu, hv, h⟩
    · next h =>
      have h : ¬ m = 0 := h
      simp only [L_mkAlt, L_mkAnd, L, iha, ihb]
      constructor
      · rintro (⟨u, v, hu, hv, h'⟩ | ⟨u, v, hu, hv, h'⟩ | ⟨u, v, hu, hv, h'⟩)
        · exact ⟨m, m, u, v, hu, hv, Or.inl rfl, by simp, h'⟩
        · exact ⟨m, 0, u, v, hu, hv, Or.inr (Or.inr rfl), by simp, h'⟩
        · exact ⟨0, m, u, v, hu, hv, Or.inr (Or.inl rfl), by simp, h'⟩
      · rintro ⟨m1, m2, u, v, hu, hv, hc, hm, h'⟩
        rcases hc with hc | hc | hc
        · subst hc
          have : m1 = m := by simpa using hm
          subst this
          exact Or.inl ⟨u, v, hu, hv, h'⟩
        · subst hc
          have : m2 = m := by simpa using hm
          subst this
          exact Or.inr (Or.inr ⟨u, v, hu, hv, h'⟩)
        · subst hc
          have : m1 = m := by simpa using hm
          subst this
          exact Or.inr (Or.inl ⟨u, v, hu, hv, h'⟩)
  | star a iha =>
    intro x w
    rw [L_star_cons]
    simp only [deriv, L_mkCat]
    simp only [L, iha]
  | compl a iha =>
    intro x w
    simp only [deriv]
    split
    · next h =>
      simp only [L, iha, List.mem_cons, forall_eq_or_imp, h, true_and]
    · next h =>
      simp only [L, List.mem_cons, forall_eq_or_imp, false_iff]
      rintro ⟨⟨h0, _⟩, _⟩
      exact h h0

theorem derivs_spec (w : List Letter) : ∀ (r : Rx) (v : List Letter),
    L (derivs w r) v ↔ L r (w ++ v) := by
  induction w with
  | nil => intro r v; simp [derivs]
  | cons x w ih => intro r v; simp only [derivs, ih, deriv_correct, List.cons_append]

/-- The derivative matcher decides the denotational language. -/
theorem matches_correct (r : Rx) (w : List Letter) : r.matches w = true ↔ L r w := by
  simp only [Rx.matches, nullable_iff, derivs_spec, List.append_nil]

theorem L_star_empty (w : List Letter) : L (.star .empty) w ↔ w = [] := by
  simp only [L]
  constructor
  · rintro ⟨ws, rfl, h⟩
    cases ws with
    | nil => rfl
    | cons u ws => exact (h u (by simp)).elim
  · rintro rfl; exact ⟨[], rfl, by simp⟩

theorem L_star_eps (w : List Letter) : L (.star .eps) w ↔ w = [] := by
  simp only [L]
  constructor
  · rintro ⟨ws, rfl, h⟩
    induction ws with
    | nil => rfl
    | cons u ws ih =>
      have hu : u = [] := h u (by simp)
      subst hu
      simpa using ih (fun v hv => h v (List.mem_cons_of_mem _ hv))
  · rintro rfl; exact ⟨[], rfl, by simp⟩

theorem L_star_star (a : Rx) (w : List Letter) : L (.star (.star a)) w ↔ L (.star a) w := by
  constructor
  · rintro ⟨ws, rfl, h⟩
    induction ws with
    | nil => exact ⟨[], rfl, by simp⟩
    | cons u ws ih =>
      obtain ⟨us, rfl, hus⟩ := h u (by simp)
      obtain ⟨vs, hvs, hv⟩ := ih (fun v hv => h v (List.mem_cons_of_mem _ hv))
      refine ⟨us ++ vs, by simp [hvs], ?_⟩
      intro x hx
      rcases List.mem_append.mp hx with hx | hx
      · exact hus x hx
      · exact hv x hx
  · intro h
    exact ⟨[w], by simp, by simpa using h⟩

theorem L_mkStar (a : Rx) (w : List Letter) : L (mkStar a) w ↔ L (.star a) w := by
  cases a with
  | empty => simp only [mkStar, L_star_empty]; simp [L]
  | eps => simp only [mkStar, L_star_eps]; simp [L]
  | star x => simp only [mkStar]; exact (L_star_star x w).symm
  | single S => rfl
  | cat x y => rfl
  | alt x y => rfl
  | and x y => rfl
  | compl x => rfl

/-- The bottom-up normalisation preserves the language. -/
theorem L_norm (r : Rx) : ∀ w : List Letter, L (norm r) w ↔ L r w := by
  induction r with
  | empty => intro w; rfl
  | eps => intro w; rfl
  | single S =>
    intro w
    simp only [norm]
    split
    · next h =>
      simp only [L, false_iff]
      rintro ⟨a, _, ha⟩
      simp only [lmem, List.any_eq_true, Bool.and_eq_true, beq_iff_eq] at ha
      obtain ⟨p, hp, _, hbit⟩ := ha
      have := List.all_eq_true.mp h p hp
      simp only [beq_iff_eq] at this
      rw [this] at hbit
      simp at hbit
    · rfl
  | cat a b iha ihb => intro w; simp only [norm, L_mkCat]; simp only [L, iha, ihb]
  | alt a b iha ihb => intro w; simp only [norm, L_mkAlt, iha, ihb, L]
  | and a b iha ihb => intro w; simp only [norm, L_mkAnd]; simp only [L, iha, ihb]
  | star a iha => intro w; simp only [norm, L_mkStar]; simp only [L, iha]
  | compl a iha => intro w; simp only [norm, L, iha]

end MidnightZK.C19
