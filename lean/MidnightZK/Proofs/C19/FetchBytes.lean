import MidnightZK.Proofs.C19.DataTypes
import MidnightZK.Proofs.C19.SerialCanon
/-! # C19 — `fetch_bytes`: the chunked selection returns the window -/
namespace MidnightZK.C19.PG
open MidnightZK.C19
set_option linter.unusedSimpArgs false

theorem leBytes_append_zero (k : Nat) : ∀ (j n : Nat), n < 256 ^ k →
    leBytes (k + j) n = leBytes k n ++ List.replicate j 0 := by
  induction k with
  | zero =>
    intro j n hn
    have : n = 0 := by simpa using hn
    subst this
    induction j with
    | zero => rfl
    | succ j ih => simp only [Nat.zero_add] at ih ⊢; simp [leBytes, ih, List.replicate_succ]
  | succ k ih =>
    intro j n hn
    have : n / 256 < 256 ^ k := by
      rw [Nat.pow_succ] at hn
      exact Nat.div_lt_of_lt_mul (by rwa [Nat.mul_comm] at hn)
    have e : k + 1 + j = (k + j) + 1 := by omega
    rw [e]
    simp only [leBytes, ih j _ this, List.cons_append]

/-- Packing a chunk of at most `k` bytes and unpacking `k` bytes pads it with zeros. -/
theorem leBytes_fromLe_pad (k : Nat) (l : List Nat) (h : ∀ b ∈ l, b < 256) (hl : l.length ≤ k) :
    leBytes k (fromLe l) = l ++ List.replicate (k - l.length) 0 := by
  have e : k = l.length + (k - l.length) := by omega
  rw [e, leBytes_append_zero l.length (k - l.length) _ (fromLe_lt l h), leBytes_fromLe l h]
  simp

theorem chunks_flat (k : Nat) (hk : 0 < k) : ∀ (fuel : Nat) (seq : List Nat), seq.length ≤ fuel →
    (∀ b ∈ seq, b < 256) →
    ((chunksOfN k fuel seq).map fromLe).flatMap (leBytes k) =
      seq ++ List.replicate ((seq.length + k - 1) / k * k - seq.length) 0 ∧
    (chunksOfN k fuel seq).length = (seq.length + k - 1) / k := by
  intro fuel
  induction fuel with
  | zero =>
    intro seq hl _
    have : seq = [] := List.length_eq_zero_iff.mp (by omega)
    subst this
    have : (k - 1) / k = 0 := Nat.div_eq_of_lt (by omega)
    simp [chunksOfN, this]
  | succ fuel ih =>
    intro seq hl hb
    cases seq with
    | nil =>
      have : (k - 1) / k = 0 := Nat.div_eq_of_lt (by omega)
      simp [chunksOfN, this]
    | cons x xs =>
      have hdl : ((x :: xs).drop k).length ≤ fuel := by simp only [List.length_drop, List.length_cons] at hl ⊢; omega
      have hdb : ∀ b ∈ (x :: xs).drop k, b < 256 := fun b hx => hb b (List.mem_of_mem_drop hx)
      have htb : ∀ b ∈ (x :: xs).take k, b < 256 := fun b hx => hb b (List.mem_of_mem_take hx)
      obtain ⟨ih1, ih2⟩ := ih ((x :: xs).drop k) hdl hdb
      simp only [chunksOfN, List.map_cons, List.flatMap_cons, List.length_cons]
      rw [ih1, ih2, leBytes_fromLe_pad k _ htb (by simp; omega)]
      simp only [List.length_take, List.length_drop, List.length_cons] at hl ⊢
      have hd0 : (x :: xs).drop k = [] ∨ True := Or.inr trivial
      generalize hn : xs.length + 1 = n at *
      have hnpos : 0 < n := by omega
      by_cases hc : k ≤ n
      · have e1 : min k n = k := by omega
        have e2 : (n - k + k - 1) / k + 1 = (n + k - 1) / k := by
          have : n + k - 1 = (n - k + k - 1) + k := by omega
          rw [this, Nat.add_div_right _ hk]
        have e3 : (n + k - 1) / k * k = (n - k + k - 1) / k * k + k := by
          rw [← e2, Nat.add_mul, Nat.one_mul]
        refine ⟨?_, e2⟩
        rw [e1, Nat.sub_self, List.replicate_zero, List.append_nil, ← List.append_assoc,
          List.take_append_drop, e3]
        have hge : n - k ≤ (n - k + k - 1) / k * k := by
          have h1 := Nat.div_add_mod (n - k + k - 1) k
          have h2 := Nat.mod_lt (n - k + k - 1) hk
          rw [Nat.mul_comm ((n - k + k - 1) / k) k]
          omega
        congr 2
        omega
      · have hlt : n < k := by omega
        have e1 : min k n = n := by omega
        have e0 : n - k = 0 := by omega
        have e2 : (n + k - 1) / k = 1 := by
          have : n + k - 1 = (n - 1) + k := by omega
          rw [this, Nat.add_div_right _ hk, Nat.div_eq_of_lt (by omega)]
        have e4 : (0 + k - 1) / k = 0 := by rw [Nat.zero_add]; exact Nat.div_eq_of_lt (by omega)
        have hd : (x :: xs).drop k = [] := List.drop_eq_nil_of_le (by simp only [List.length_cons]; omega)
        have ht : (x :: xs).take k = x :: xs := List.take_of_length_le (by simp only [List.length_cons]; omega)
        rw [e0, e4] at *
        simp only [hd, ht, e1, e2, Nat.zero_mul, Nat.sub_self, List.replicate_zero, List.append_nil,
          Nat.one_mul, Nat.zero_add, and_true]

theorem flatMap_drop_uniform {α β : Type} (f : α → List β) (k : Nat) (hf : ∀ x, (f x).length = k) :
    ∀ (l : List α) (a : Nat), (l.drop a).flatMap f = (l.flatMap f).drop (k * a) := by
  intro l
  induction l with
  | nil => intro a; simp
  | cons x xs ih =>
    intro a
    cases a with
    | zero => simp
    | succ a =>
      simp only [List.drop_succ_cons, List.flatMap_cons, ih a]
      have : k * (a + 1) = (f x).length + k * a := by rw [hf x, Nat.mul_succ, Nat.add_comm]
      rw [this, List.drop_append]
      simp

theorem flatMap_take_uniform {α β : Type} (f : α → List β) (k : Nat) (hf : ∀ x, (f x).length = k) :
    ∀ (l : List α) (b : Nat), (l.take b).flatMap f = (l.flatMap f).take (k * b) := by
  intro l
  induction l with
  | nil => intro b; simp
  | cons x xs ih =>
    intro b
    cases b with
    | zero => simp
    | succ b =>
      simp only [List.take_succ_cons, List.flatMap_cons, ih b]
      have : k * (b + 1) = (f x).length + k * b := by rw [hf x, Nat.mul_succ, Nat.add_comm]
      rw [this, List.take_append]
      have t1 : List.take ((f x).length + k * b) (f x) = f x := List.take_of_length_le (by omega)
      rw [t1, Nat.add_sub_cancel_left]

theorem flatMap_length_uniform {α β : Type} (f : α → List β) (k : Nat) (hf : ∀ x, (f x).length = k) :
    ∀ (l : List α), (l.flatMap f).length = k * l.length := by
  intro l
  induction l with
  | nil => simp
  | cons x xs ih => simp only [List.flatMap_cons, List.length_append, hf x, ih, List.length_cons, Nat.mul_succ]; omega

/-- **`fetch_bytes` returns the window.** For every byte sequence, every window length
`len ≤ n` and every (prover-supplied) index: the chunked algorithm (31-byte little-endian chunks
plus a dummy chunk, `div_rem` of the index, coarse selection of
`min(nb_chunks, 1 + ⌈len/31⌉)` chunks, unpacking, fine selection) is satisfiable iff
`idx ≤ n − len` and then returns exactly `sequence[idx .. idx + len]`. -/
theorem fetchBytes_eq (seq : List Nat) (hb : ∀ b ∈ seq, b < 256) (idx len : Nat)
    (hlen : len ≤ seq.length) :
    fetchBytes seq idx len =
      if idx < seq.length - len + 1 then some ((seq.drop idx).take len) else none := by
  unfold fetchBytes
  by_cases h : idx < seq.length - len + 1
  · simp only [h, not_true_eq_false, if_false, if_true]
    obtain ⟨hflat, hcnt⟩ := chunks_flat perChunk (by decide) seq.length seq (Nat.le_refl _) hb
    generalize hC : (chunksOfN perChunk seq.length seq).map fromLe ++ [0] = C
    have hClen : C.length = (seq.length + perChunk - 1) / perChunk + 1 := by
      rw [← hC]; simp [hcnt]
    have hCflat : C.flatMap (leBytes perChunk) =
        seq ++ List.replicate ((seq.length + perChunk - 1) / perChunk * perChunk - seq.length) 0 ++
          List.replicate perChunk 0 := by
      rw [← hC, List.flatMap_append, hflat]
      simp [leBytes, perChunk]
    generalize hX : C.flatMap (leBytes perChunk) = X at hCflat
    have hXlen : X.length = perChunk * C.length := by
      rw [← hX]; exact flatMap_length_uniform _ perChunk (fun x => leBytes_length _ x) C
    rw [getSubsequence_eq]
    have c1 : idx / perChunk < C.length - min ((seq.length + perChunk - 1) / perChunk)
        (1 + (len + perChunk - 1) / perChunk) + 1 := by
      rw [hClen]; simp only [perChunk] at *; omega
    rw [if_pos c1]
    simp only []
    rw [flatMap_take_uniform _ perChunk (fun x => leBytes_length _ x),
      flatMap_drop_uniform _ perChunk (fun x => leBytes_length _ x), hX, getSubsequence_eq]
    have c2 : idx % perChunk < ((X.drop (perChunk * (idx / perChunk))).take
        (perChunk * min ((seq.length + perChunk - 1) / perChunk)
          (1 + (len + perChunk - 1) / perChunk))).length - len + 1 := by
      rw [List.length_take, List.length_drop, hXlen, hClen]; simp only [perChunk] at *; omega
    rw [if_pos c2]
    congr 1
    rw [List.drop_take, List.drop_drop, List.take_take]
    have e1 : perChunk * (idx / perChunk) + idx % perChunk = idx := Nat.div_add_mod idx perChunk
    have e2 : min len (perChunk * min ((seq.length + perChunk - 1) / perChunk)
        (1 + (len + perChunk - 1) / perChunk) - idx % perChunk) = len := by
      simp only [perChunk] at *; omega
    rw [e1, e2, hCflat, List.append_assoc, List.drop_append_of_le_length (by omega),
      List.take_append_of_le_length (by rw [List.length_drop]; omega)]
  · simp [h]

end MidnightZK.C19.PG
