import MidnightZK.Proofs.C19.Serial
/-!
# C19 — serialization: the deserializer is the exact inverse (canonical form)
-/
namespace MidnightZK.C19

theorem leBytes_fromLe (l : List Nat) (h : ∀ b ∈ l, b < 256) : leBytes l.length (fromLe l) = l := by
  induction l with
  | nil => rfl
  | cons b bs ih =>
    have hb : b < 256 := h b (by simp)
    have h1 : (b + 256 * fromLe bs) % 256 = b := by omega
    have h2 : (b + 256 * fromLe bs) / 256 = fromLe bs := by omega
    simp only [List.length_cons, leBytes, fromLe, h1, h2]
    rw [ih (fun x hx => h x (by simp [hx]))]

theorem fromLe_lt (l : List Nat) (h : ∀ b ∈ l, b < 256) : fromLe l < 256 ^ l.length := by
  induction l with
  | nil => simp [fromLe]
  | cons b bs ih =>
    have hb : b < 256 := h b (by simp)
    have := ih (fun x hx => h x (by simp [hx]))
    simp only [fromLe, List.length_cons, Nat.pow_succ]
    omega

/-- `usize::deserialize` succeeded: the buffer starts with the 8 little-endian bytes of the value. -/
theorem deUsize_inv (buf : List Nat) (hb : ∀ b ∈ buf, b < 256) (n : Nat) (rest : List Nat)
    (h : deUsize buf = some (n, rest)) : buf = serUsize n ++ rest ∧ n < 2 ^ 64 := by
  unfold deUsize at h
  split at h
  · simp at h
  · rename_i hl
    simp only [Option.some.injEq, Prod.mk.injEq] at h
    obtain ⟨rfl, rfl⟩ := h
    have ht : (buf.take 8).length = 8 := by simp; omega
    have hbt : ∀ b ∈ buf.take 8, b < 256 := fun b hx => hb b (List.mem_of_mem_take hx)
    have := leBytes_fromLe (buf.take 8) hbt
    rw [ht] at this
    refine ⟨?_, ?_⟩
    · unfold serUsize; rw [this, List.take_append_drop]
    · have := fromLe_lt (buf.take 8) hbt
      rw [ht] at this
      have e : (256 : Nat) ^ 8 = 2 ^ 64 := by decide
      omega

theorem deU8_inv (buf : List Nat) (b : Nat) (rest : List Nat) (h : deU8 buf = some (b, rest)) :
    buf = b :: rest := by
  cases buf with
  | nil => simp [deU8] at h
  | cons x xs => simp only [deU8, Option.some.injEq, Prod.mk.injEq] at h; rw [h.1, h.2]

theorem mem_of_append_right {buf pre rest : List Nat} (e : buf = pre ++ rest)
    (hb : ∀ b ∈ buf, b < 256) : ∀ b ∈ rest, b < 256 :=
  fun b hx => hb b (e ▸ List.mem_append_right _ hx)

theorem deTrans_inv (buf : List Nat) (hb : ∀ b ∈ buf, b < 256) (e : (Nat × Nat) × (Nat × Nat))
    (rest : List Nat) (h : deTrans buf = some (e, rest)) :
    buf = serTrans e ++ rest ∧
      (e.1.1 < 2 ^ 64 ∧ e.1.2 < 256 ∧ e.2.1 < 2 ^ 64 ∧ e.2.2 < 2 ^ 64) := by
  unfold deTrans at h
  cases h1 : deUsize buf with
  | none => simp [h1] at h
  | some p1 =>
    obtain ⟨s, b1⟩ := p1
    obtain ⟨e1, hs⟩ := deUsize_inv buf hb s b1 h1
    have hb1 := mem_of_append_right e1 hb
    cases h2 : deU8 b1 with
    | none => simp [h1, h2] at h
    | some p2 =>
      obtain ⟨b, b2⟩ := p2
      have e2 := deU8_inv b1 b b2 h2
      have hbb : b < 256 := hb1 b (by rw [e2]; simp)
      have hb2 : ∀ x ∈ b2, x < 256 := fun x hx => hb1 x (by rw [e2]; simp [hx])
      cases h3 : deUsize b2 with
      | none => simp [h1, h2, h3] at h
      | some p3 =>
        obtain ⟨t, b3⟩ := p3
        obtain ⟨e3, ht⟩ := deUsize_inv b2 hb2 t b3 h3
        have hb3 := mem_of_append_right e3 hb2
        cases h4 : deUsize b3 with
        | none => simp [h1, h2, h3, h4] at h
        | some p4 =>
          obtain ⟨m, b4⟩ := p4
          obtain ⟨e4, hm⟩ := deUsize_inv b3 hb3 m b4 h4
          simp only [h1, h2, h3, h4, Option.bind_eq_bind, Option.bind_some, Option.pure_def,
            Option.some.injEq, Prod.mk.injEq] at h
          obtain ⟨rfl, rfl⟩ := h
          refine ⟨?_, hs, hbb, ht, hm⟩
          rw [e1, e2, e3, e4]
          simp [serTrans]

theorem deItems_inv {α : Type} (ser : α → List Nat) (de : List Nat → Option (α × List Nat))
    (P : α → Prop)
    (hde : ∀ buf, (∀ b ∈ buf, b < 256) → ∀ x rest, de buf = some (x, rest) →
      buf = ser x ++ rest ∧ P x) :
    ∀ (k : Nat) (buf : List Nat), (∀ b ∈ buf, b < 256) → ∀ l rest,
      deItems de k buf = some (l, rest) →
      buf = l.flatMap ser ++ rest ∧ l.length = k ∧ ∀ x ∈ l, P x := by
  intro k
  induction k with
  | zero =>
    intro buf _ l rest h
    simp only [deItems, Option.some.injEq, Prod.mk.injEq] at h
    obtain ⟨rfl, rfl⟩ := h
    simp
  | succ k ih =>
    intro buf hb l rest h
    simp only [deItems] at h
    cases h1 : de buf with
    | none => simp [h1] at h
    | some p =>
      obtain ⟨x, b1⟩ := p
      obtain ⟨e1, hx⟩ := hde buf hb x b1 h1
      have hb1 := mem_of_append_right e1 hb
      cases h2 : deItems de k b1 with
      | none => simp [h1, h2] at h
      | some q =>
        obtain ⟨xs, b2⟩ := q
        obtain ⟨e2, hl, hP⟩ := ih b1 hb1 xs b2 h2
        simp only [h1, h2, Option.bind_eq_bind, Option.bind_some, Option.pure_def,
          Option.some.injEq, Prod.mk.injEq] at h
        obtain ⟨rfl, rfl⟩ := h
        refine ⟨?_, by simp [hl], ?_⟩
        · rw [e1, e2]; simp
        · intro y hy
          simp only [List.mem_cons] at hy
          rcases hy with rfl | hy
          · exact hx
          · exact hP y hy

theorem deVec_inv {α : Type} (ser : α → List Nat) (de : List Nat → Option (α × List Nat))
    (P : α → Prop)
    (hde : ∀ buf, (∀ b ∈ buf, b < 256) → ∀ x rest, de buf = some (x, rest) →
      buf = ser x ++ rest ∧ P x)
    (buf : List Nat) (hb : ∀ b ∈ buf, b < 256) (l : List α) (rest : List Nat)
    (h : deVec de buf = some (l, rest)) :
    buf = serVec ser l ++ rest ∧ l.length < 2 ^ 64 ∧ ∀ x ∈ l, P x := by
  unfold deVec at h
  cases h1 : deUsize buf with
  | none => simp [h1] at h
  | some p =>
    obtain ⟨n, b1⟩ := p
    obtain ⟨e1, hn⟩ := deUsize_inv buf hb n b1 h1
    have hb1 := mem_of_append_right e1 hb
    simp only [h1, Option.bind_eq_bind, Option.bind_some] at h
    obtain ⟨e2, hl, hP⟩ := deItems_inv ser de P hde n b1 hb1 l rest h
    refine ⟨?_, by omega, hP⟩
    rw [e1, e2, serVec, hl]
    simp

/-- **`serialize ∘ deserialize = id` on the consumed bytes.** Whenever `Automaton::deserialize`
succeeds on a byte buffer, the buffer is exactly the serialization of the returned data followed
by the unread rest, and the returned numbers fit their types. -/
theorem deserialize_inv (buf : List Nat) (hb : ∀ b ∈ buf, b < 256) (D : AutData) (rest : List Nat)
    (h : deserialize buf = some (D, rest)) : buf = serialize D ++ rest ∧ D.wf := by
  unfold deserialize at h
  cases h1 : deUsize buf with
  | none => simp [h1] at h
  | some p1 =>
    obtain ⟨n, b1⟩ := p1
    obtain ⟨e1, hn⟩ := deUsize_inv buf hb n b1 h1
    have hb1 := mem_of_append_right e1 hb
    cases h2 : deUsize b1 with
    | none => simp [h1, h2] at h
    | some p2 =>
      obtain ⟨i, b2⟩ := p2
      obtain ⟨e2, hi⟩ := deUsize_inv b1 hb1 i b2 h2
      have hb2 := mem_of_append_right e2 hb1
      cases h3 : deVec deUsize b2 with
      | none => simp [h1, h2, h3] at h
      | some p3 =>
        obtain ⟨fs, b3⟩ := p3
        obtain ⟨e3, hfl, hf⟩ := deVec_inv serUsize deUsize (· < 2 ^ 64)
          (fun buf hb x rest h => deUsize_inv buf hb x rest h) b2 hb2 fs b3 h3
        have hb3 := mem_of_append_right e3 hb2
        cases h4 : deVec deTrans b3 with
        | none => simp [h1, h2, h3, h4] at h
        | some p4 =>
          obtain ⟨tr, b4⟩ := p4
          obtain ⟨e4, htl, ht⟩ := deVec_inv serTrans deTrans
            (fun e => e.1.1 < 2 ^ 64 ∧ e.1.2 < 256 ∧ e.2.1 < 2 ^ 64 ∧ e.2.2 < 2 ^ 64)
            (fun buf hb x rest h => deTrans_inv buf hb x rest h) b3 hb3 tr b4 h4
          simp only [h1, h2, h3, h4, Option.bind_eq_bind, Option.bind_some, Option.pure_def,
            Option.some.injEq, Prod.mk.injEq] at h
          obtain ⟨rfl, rfl⟩ := h
          refine ⟨?_, hn, hi, hfl, htl, hf, ht⟩
          rw [e1, e2, e3, e4]
          simp [serialize]

theorem serialize_length (D : AutData) :
    (serialize D).length = 32 + 8 * D.finals.length + 25 * D.trans.length := by
  have h1 : ∀ l : List Nat, (l.flatMap serUsize).length = 8 * l.length := by
    intro l
    induction l with
    | nil => rfl
    | cons x xs ih => simp [List.flatMap_cons, serUsize, leBytes_length, ih]; omega
  have h2 : ∀ l : List ((Nat × Nat) × (Nat × Nat)), (l.flatMap serTrans).length = 25 * l.length := by
    intro l
    induction l with
    | nil => rfl
    | cons x xs ih => simp [List.flatMap_cons, serTrans, serUsize, leBytes_length, ih]; omega
  simp only [serialize, serVec, List.length_append, serUsize, leBytes_length, h1, h2]
  omega

end MidnightZK.C19
