import MidnightZK.Model.C19.B64Circuit
import MidnightZK.Gen.C19Base64
/-! # C19 — the lookup rows of `Base64Chip` force the arithmetic decoder `B64.decode` -/
namespace MidnightZK.C19.B64
open MidnightZK.C19

theorem val_of_mem : ∀ e ∈ Gen.base64Table, e.1 < 256 ∧ e.2 < 64 ∧ val e.1 = some e.2 := by
  decide +kernel

theorem mem_of_val_range : (List.range 256).all (fun c =>
    match val c with
    | some v => Gen.base64Table.contains (c, v)
    | none => true) = true := by
  decide +kernel

theorem mem_of_val (c v : Nat) (hc : c < 256) (h : val c = some v) : (c, v) ∈ Gen.base64Table := by
  have := List.all_eq_true.mp mem_of_val_range c (List.mem_range.mpr hc)
  rw [h] at this
  simpa using this

theorem xor_add : ∀ e0 ∈ Gen.base64Table, ∀ e1 ∈ Gen.base64Table,
    (e0.1 <<< 8) ^^^ e1.1 = e0.1 * 256 + e1.1 ∧ (e0.2 <<< 6) ^^^ e1.2 = e0.2 * 64 + e1.2 := by
  decide +kernel

/-- A row `(c0·256 + c1, v)` is in the table built by `two_entry_table` from the CURRENT
`BASE64_TABLE` iff both characters are in the alphabet and `v` is their 12-bit value. -/
theorem mem_twoEntry_iff (c0 c1 v : Nat) (h0 : c0 < 256) (h1 : c1 < 256) :
    (c0 * 256 + c1, v) ∈ twoEntryTable Gen.base64Table ↔ pairVal c0 c1 = some v := by
  simp only [twoEntryTable, List.mem_flatMap, List.mem_map]
  constructor
  · rintro ⟨e0, he0, e1, he1, h⟩
    obtain ⟨x1, x2⟩ := xor_add e0 he0 e1 he1
    rw [x1, x2] at h
    simp only [Prod.mk.injEq] at h
    obtain ⟨a0, _, a2⟩ := val_of_mem e0 he0
    obtain ⟨b0, _, b2⟩ := val_of_mem e1 he1
    have hc0 : e0.1 = c0 := by omega
    have hc1 : e1.1 = c1 := by omega
    rw [hc0] at a2
    rw [hc1] at b2
    simp [pairVal, a2, b2, h.2]
  · intro h
    cases hv0 : val c0 with
    | none => simp [pairVal, hv0] at h
    | some v0 =>
      cases hv1 : val c1 with
      | none => simp [pairVal, hv0, hv1] at h
      | some v1 =>
        simp only [pairVal, hv0, hv1, Option.bind_eq_bind, Option.bind_some, Option.pure_def,
          Option.some.injEq] at h
        have m0 := mem_of_val c0 v0 h0 hv0
        have m1 := mem_of_val c1 v1 h1 hv1
        obtain ⟨x1, x2⟩ := xor_add _ m0 _ m1
        exact ⟨(c0, v0), m0, (c1, v1), m1, by simp only [x1, x2, h]⟩

theorem pairVal_lt (c0 c1 v : Nat) (h : pairVal c0 c1 = some v) : v < 4096 := by
  cases hv0 : val c0 with
  | none => simp [pairVal, hv0] at h
  | some v0 =>
    cases hv1 : val c1 with
    | none => simp [pairVal, hv0, hv1] at h
    | some v1 =>
      simp only [pairVal, hv0, hv1, Option.bind_eq_bind, Option.bind_some, Option.pure_def,
        Option.some.injEq] at h
      have b0 : v0 < 64 := by unfold val at hv0; split at hv0 <;> (try split at hv0) <;> (try split at hv0) <;> (try split at hv0) <;> (try split at hv0) <;> simp at hv0 <;> omega
      have b1 : v1 < 64 := by unfold val at hv1; split at hv1 <;> (try split at hv1) <;> (try split at hv1) <;> (try split at hv1) <;> (try split at hv1) <;> simp at hv1 <;> omega
      omega

/-- One chunk: the constraints are satisfiable with output `out` iff the arithmetic chunk decoder
returns `out`. -/
theorem chunkSat_iff (c0 c1 c2 c3 : Nat) (h0 : c0 < 256) (h1 : c1 < 256) (h2 : c2 < 256)
    (h3 : c3 < 256) (out : List Nat) :
    chunkSat (twoEntryTable Gen.base64Table) c0 c1 c2 c3 out ↔ chunk c0 c1 c2 c3 = some out := by
  unfold chunkSat
  simp only [mem_twoEntry_iff _ _ _ h0 h1, mem_twoEntry_iff _ _ _ h2 h3]
  constructor
  · rintro ⟨v01, v23, b0, b1, b2, ha, hb, l0, l1, l2, he, rfl⟩
    have := pairVal_lt _ _ _ ha
    have := pairVal_lt _ _ _ hb
    simp only [chunk, ha, hb, Option.bind_eq_bind, Option.bind_some, Option.pure_def,
      Option.some.injEq, List.cons.injEq, and_true]
    refine ⟨by omega, by omega, by omega⟩
  · intro h
    cases ha : pairVal c0 c1 with
    | none => simp [chunk, ha] at h
    | some a =>
      cases hb : pairVal c2 c3 with
      | none => simp [chunk, ha, hb] at h
      | some b =>
        have := pairVal_lt _ _ _ ha
        have := pairVal_lt _ _ _ hb
        simp only [chunk, ha, hb, Option.bind_eq_bind, Option.bind_some, Option.pure_def,
          Option.some.injEq] at h
        refine ⟨a, b, (a * 4096 + b) / 65536, (a * 4096 + b) / 256 % 256, (a * 4096 + b) % 256,
          rfl, rfl, by omega, by omega, by omega, by omega, h.symm⟩

theorem altPad_lt : altPad < 256 := by decide

/-- **All rows of `decode_base64` ⇒ RFC 4648 arithmetic.** For every input over bytes, both
modes, every output: the constraints of the whole decoding (lookups of every chunk into the
table built from the current `BASE64_TABLE`, byte decompositions, padding assertion and
substitutions of the last chunk) are satisfiable with output `out` iff `B64.decode` returns
`out`. -/
theorem decodeSat_iff (padded : Bool) : ∀ (input : List Nat), (∀ c ∈ input, c < 256) →
    ∀ out, decodeSat (twoEntryTable Gen.base64Table) padded input out ↔
      decode padded input = some out
  | [], _, out => by simp [decodeSat, decode, eq_comm]
  | [c0], h, out => by
    have h0 := h c0 (by simp)
    simp only [decodeSat, decode, chunkSat_iff _ _ _ _ h0 altPad_lt altPad_lt altPad_lt]
    cases padded <;> simp
  | [c0, c1], h, out => by
    have h0 := h c0 (by simp)
    have h1 := h c1 (by simp)
    simp only [decodeSat, decode, chunkSat_iff _ _ _ _ h0 h1 altPad_lt altPad_lt]
    cases padded <;> simp
  | [c0, c1, c2], h, out => by
    have h0 := h c0 (by simp)
    have h1 := h c1 (by simp)
    have h2 := h c2 (by simp)
    simp only [decodeSat, decode, chunkSat_iff _ _ _ _ h0 h1 h2 altPad_lt]
    cases padded <;> simp
  | [c0, c1, c2, c3], h, out => by
    have h0 := h c0 (by simp)
    have h1 := h c1 (by simp)
    have h2 := h c2 (by simp)
    have h3 := h c3 (by simp)
    cases padded with
    | false => simp only [decodeSat, decode, chunkSat_iff _ _ _ _ h0 h1 h2 h3]; simp
    | true =>
      have e2 : (if c2 = b64Pad then altPad else c2) < 256 := by split; exact altPad_lt; exact h2
      have e3 : (if c3 = b64Pad then altPad else c3) < 256 := by split; exact altPad_lt; exact h3
      simp only [decodeSat, decode, if_true, chunkSat_iff _ _ _ _ h0 h1 e2 e3, lastPadded]
      by_cases p2 : c2 = b64Pad <;> by_cases p3 : c3 = b64Pad <;> simp [p2, p3]
  | c0 :: c1 :: c2 :: c3 :: c4 :: rest, h, out => by
    have h0 := h c0 (by simp)
    have h1 := h c1 (by simp)
    have h2 := h c2 (by simp)
    have h3 := h c3 (by simp)
    have hr : ∀ c ∈ c4 :: rest, c < 256 := fun c hc => h c (List.mem_cons_of_mem _ (List.mem_cons_of_mem _ (List.mem_cons_of_mem _ (List.mem_cons_of_mem _ hc))))
    simp only [decodeSat, decode, chunkSat_iff _ _ _ _ h0 h1 h2 h3]
    constructor
    · rintro ⟨a, b, ha, hb, rfl⟩
      rw [decodeSat_iff padded (c4 :: rest) hr b] at hb
      simp [ha, hb]
    · intro hd
      cases ha : chunk c0 c1 c2 c3 with
      | none => simp [ha] at hd
      | some a =>
        cases hb : decode padded (c4 :: rest) with
        | none => simp [ha, hb] at hd
        | some b =>
          simp only [ha, hb, Option.bind_eq_bind, Option.bind_some, Option.pure_def,
            Option.some.injEq] at hd
          exact ⟨a, b, rfl, (decodeSat_iff padded (c4 :: rest) hr b).mpr hb, hd.symm⟩

theorem chr_lt (v : Nat) : chr v < 256 := by
  unfold chr
  split
  · omega
  · split
    · omega
    · split
      · omega
      · split <;> omega

theorem encode_lt (pad : Bool) : ∀ (bytes : List Nat), ∀ c ∈ encode pad bytes, c < 256
  | [], c, hc => by simp [encode] at hc
  | [b0], c, hc => by
    cases pad <;>
      simp only [encode, List.mem_append, List.mem_cons, List.not_mem_nil, or_false, if_true,
        Bool.false_eq_true, if_false] at hc
    · rcases hc with rfl | rfl <;> exact chr_lt _
    · rcases hc with (rfl | rfl) | rfl | rfl <;> first | exact chr_lt _ | decide
  | [b0, b1], c, hc => by
    cases pad <;>
      simp only [encode, List.mem_append, List.mem_cons, List.not_mem_nil, or_false, if_true,
        Bool.false_eq_true, if_false] at hc
    · rcases hc with rfl | rfl | rfl <;> exact chr_lt _
    · rcases hc with (rfl | rfl | rfl) | rfl <;> first | exact chr_lt _ | decide
  | b0 :: b1 :: b2 :: rest, c, hc => by
    simp only [encode, enc3, List.mem_append, List.mem_cons, List.not_mem_nil, or_false] at hc
    rcases hc with (rfl | rfl | rfl | rfl) | hc
    · exact chr_lt _
    · exact chr_lt _
    · exact chr_lt _
    · exact chr_lt _
    · exact encode_lt pad rest c hc

end MidnightZK.C19.B64
