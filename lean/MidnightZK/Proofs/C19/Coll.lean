import MidnightZK.Model.C19.Coll
import MidnightZK.Proofs.C19.Circuit
/-! # C19 — several automata in one table: the members do not interfere -/
namespace MidnightZK.C19

theorem collFrom_ge (As : List Dfa) : ∀ start, ∀ p ∈ collFrom start As, start ≤ p.2 := by
  induction As with
  | nil => intro start p hp; simp [collFrom] at hp
  | cons A As ih =>
    intro start p hp
    simp only [collFrom, List.mem_cons] at hp
    rcases hp with rfl | hp
    · exact Nat.le_refl _
    · have := ih _ p hp
      omega

theorem collFrom_pairwise (As : List Dfa) : ∀ start,
    (collFrom start As).Pairwise (fun p q => p.2 + p.1.nStates ≤ q.2) := by
  induction As with
  | nil => intro start; simp [collFrom]
  | cons A As ih =>
    intro start
    simp only [collFrom, List.pairwise_cons]
    exact ⟨fun q hq => collFrom_ge As _ q hq, ih _⟩

theorem collFrom_fst (As : List Dfa) : ∀ start, (collFrom start As).map (·.1) = As := by
  induction As with
  | nil => intro start; rfl
  | cons A As ih => intro start; simp [collFrom, ih]

theorem closedB_closed (A : Dfa) (h : A.closedB = true) : A.closed := by
  simp only [Dfa.closedB, Bool.and_eq_true, decide_eq_true_eq, List.all_eq_true] at h
  obtain ⟨⟨⟨h0, h1⟩, h2⟩, h3⟩ := h
  refine ⟨h0, ?_, ?_⟩
  · intro s b t m hl
    unfold Dfa.lookup at hl
    split at hl
    · rename_i hb
      cases hg : A.tbl[s * 256 + b]? with
      | none => simp [hg] at hl
      | some v =>
        have hlt := (Array.getElem?_eq_some_iff.mp hg).1
        have hv : v = some (t, m) := by simpa [hg] using hl
        have hmem : v ∈ A.tbl.toList := by
          have := (Array.getElem?_eq_some_iff.mp hg).2
          rw [← this]
          exact Array.mem_toList_iff.mpr (Array.getElem_mem _)
        have := h3 v hmem
        subst hv
        simp only [decide_eq_true_eq] at this
        exact ⟨by omega, this⟩
    · simp at hl
  · intro f hf
    unfold Dfa.isFinal at hf
    cases hg : A.finals[f]? with
    | none => simp [hg] at hf
    | some v =>
      have := (Array.getElem?_eq_some_iff.mp hg).1
      omega

theorem mem_collTableRows_iff (C : List (Dfa × Nat)) (row : Nat × Nat × Nat × Nat) :
    row ∈ collTableRows C ↔ inCollTable C row := by
  simp only [collTableRows, List.mem_cons, List.mem_append, List.mem_flatMap, mem_transRows_iff,
    mem_finalRows_iff, inCollTable, inMember]
  constructor
  · rintro (h | ⟨p, hp, h⟩ | ⟨p, hp, h⟩)
    · exact Or.inl h
    · exact Or.inr ⟨p, hp, Or.inl h⟩
    · exact Or.inr ⟨p, hp, Or.inr h⟩
  · rintro (h | ⟨p, hp, h | h⟩)
    · exact Or.inl h
    · exact Or.inr (Or.inl ⟨p, hp, h⟩)
    · exact Or.inr (Or.inr ⟨p, hp, h⟩)

/-- A row of a member has its source state in the member's range. -/
theorem inMember_source_range (A : Dfa) (off : Nat) (hc : A.closed) (s b s' o : Nat)
    (h : inMember A off (s, b, s', o)) : off ≤ s ∧ s < off + A.nStates := by
  rcases h with ⟨s0, b0, t, m, hl, h⟩ | ⟨f, hf, h⟩
  · simp only [Prod.mk.injEq] at h
    have := (hc.2.1 s0 b0 t m hl).1
    omega
  · simp only [Prod.mk.injEq] at h
    have := hc.2.2 f hf
    omega

/-- Two members of a well-formed collection whose ranges share a state are the same member. -/
theorem collWf_same (C : List (Dfa × Nat)) (hC : collWf C) (p q : Dfa × Nat) (hp : p ∈ C)
    (hq : q ∈ C) (s : Nat) (h1 : p.2 ≤ s ∧ s < p.2 + p.1.nStates)
    (h2 : q.2 ≤ s ∧ s < q.2 + q.1.nStates) : p = q := by
  have hpw := hC.2
  clear hC
  induction C with
  | nil => simp at hp
  | cons c C ih =>
    simp only [List.pairwise_cons] at hpw
    simp only [List.mem_cons] at hp hq
    rcases hp with rfl | hp <;> rcases hq with rfl | hq
    · rfl
    · have := hpw.1 q hq; omega
    · have := hpw.1 p hp; omega
    · exact ih hp hq hpw.2

/-- **No interference.** In a well-formed collection, a table row whose source state lies in the
range of member `(A, off)` is a row of that member's own table. -/
theorem coll_row_restrict (C : List (Dfa × Nat)) (hC : collWf C) (A : Dfa) (off : Nat)
    (hA : (A, off) ∈ C) (s b s' o : Nat) (hs : off ≤ s ∧ s < off + A.nStates) :
    inCollTable C (s, b, s', o) ↔ inTable A off (s, b, s', o) := by
  constructor
  · rintro (h | ⟨p, hp, h⟩)
    · exact Or.inl h
    · have hr := inMember_source_range p.1 p.2 (hC.1 p hp).2 s b s' o h
      have := collWf_same C hC p (A, off) hp hA s hr hs
      subst this
      exact Or.inr h
  · rintro (h | h | h)
    · exact Or.inl h
    · exact Or.inr ⟨(A, off), hA, Or.inl h⟩
    · exact Or.inr ⟨(A, off), hA, Or.inr h⟩

/-- One step of a member's own table from a state of its range on a byte stays in the range and
is the member's transition. -/
theorem inTable_step (A : Dfa) (off : Nat) (hoff : 0 < off) (hc : A.closed) (s b s' o : Nat)
    (hs : off ≤ s) (hb : b < 256) (h : inTable A off (s, b, s', o)) :
    (off ≤ s' ∧ s' < off + A.nStates) ∧ A.lookup (s - off) b = some (s' - off, o) := by
  rcases h with h | ⟨s0, b0, t, m, hl, h⟩ | ⟨f, _, h⟩
  · simp only [Prod.mk.injEq] at h; omega
  · simp only [Prod.mk.injEq] at h
    obtain ⟨h1, h2, h3, h4⟩ := h
    have := (hc.2.1 s0 b0 t m hl).2
    subst h1; subst h2; subst h3; subst h4
    refine ⟨by omega, ?_⟩
    simpa using hl
  · simp only [Prod.mk.injEq] at h; omega

theorem rowsOkT_inTable (A : Dfa) (off : Nat) : ∀ (bytes outs : List Nat) (s : Nat),
    rowsOkT (inTable A off) s bytes outs ↔ rowsOk A off s bytes outs := by
  intro bytes
  induction bytes with
  | nil => intro outs s; cases outs <;> simp [rowsOkT, rowsOk]
  | cons b bs ih =>
    intro outs s
    cases outs with
    | nil => simp [rowsOkT, rowsOk]
    | cons o os => simp only [rowsOkT, rowsOk, ih]

theorem rowsOkT_coll_iff (C : List (Dfa × Nat)) (hC : collWf C) (A : Dfa) (off : Nat)
    (hA : (A, off) ∈ C) : ∀ (bytes outs : List Nat) (s : Nat),
    (∀ b ∈ bytes, b < 256) → (off ≤ s ∧ s < off + A.nStates) →
    (rowsOkT (inCollTable C) s bytes outs ↔ rowsOk A off s bytes outs) := by
  have hA' := hC.1 _ hA
  intro bytes
  induction bytes with
  | nil =>
    intro outs s _ hs
    cases outs with
    | nil => simp only [rowsOkT, rowsOk]; exact coll_row_restrict C hC A off hA s 256 0 0 hs
    | cons o os => simp [rowsOkT, rowsOk]
  | cons b bs ih =>
    intro outs s hb hs
    have hb0 : b < 256 := hb b (by simp)
    have hbs : ∀ x ∈ bs, x < 256 := fun x hx => hb x (by simp [hx])
    cases outs with
    | nil => simp [rowsOkT, rowsOk]
    | cons o os =>
      simp only [rowsOkT, rowsOk]
      constructor
      · rintro ⟨s', hin, hrest⟩
        have hin' := (coll_row_restrict C hC A off hA s b s' o hs).mp hin
        have hs' := (inTable_step A off hA'.1 hA'.2 s b s' o hs.1 hb0 hin').1
        exact ⟨s', hin', (ih os s' hbs hs').mp hrest⟩
      · rintro ⟨s', hin, hrest⟩
        have hs' := (inTable_step A off hA'.1 hA'.2 s b s' o hs.1 hb0 hin).1
        exact ⟨s', (coll_row_restrict C hC A off hA s b s' o hs).mpr hin,
          (ih os s' hbs hs').mpr hrest⟩

set_option linter.unusedSimpArgs false

theorem layoutSatT_mkRows_iff (T : Nat × Nat × Nat × Nat → Prop) : ∀ (bytes outs : List Nat) (cur : PCell),
    (∃ sts, layoutSatT T (mkRows cur sts bytes outs)) ↔
      (pinOk cur ∧ rowsOkT T cur.1 bytes outs) := by
  intro bytes
  induction bytes with
  | nil =>
    intro outs cur
    cases outs with
    | nil =>
      constructor
      · rintro ⟨sts, h⟩
        match sts, h with
        | [z], h =>
          simp only [mkRows, layoutSatT] at h
          obtain ⟨hp, ⟨l, o, _, hl, ho, hpl, hpo, hin⟩, _, hz⟩ := h
          simp only [Option.some.injEq] at hl ho
          subst hl; subst ho
          simp only [pinOk] at hz
          subst hz
          exact ⟨hp, by simpa [rowsOkT] using hin⟩
        | [], h => simp [mkRows, layoutSatT] at h
        | _ :: _ :: _, h => simp [mkRows, layoutSatT] at h
      · rintro ⟨hp, h⟩
        refine ⟨[0], ?_⟩
        simp only [mkRows, layoutSatT]
        exact ⟨hp, ⟨(256, .fixed 256), (0, .fixed 0), by simp [pinOk], by simp [pinOk],
          by simp [pinOk], by simp [pinOk], by simp [pinOk], by simpa [rowsOkT] using h⟩,
          by simp [pinOk], by simp [pinOk]⟩
    | cons o os =>
      constructor
      · rintro ⟨sts, h⟩
        match sts, h with
        | [], h => simp [mkRows, layoutSatT] at h
        | [_], h => simp [mkRows, layoutSatT] at h
        | _ :: _ :: _, h => simp [mkRows, layoutSatT] at h
      · rintro ⟨_, h⟩
        simp [rowsOkT] at h
  | cons b bs ih =>
    intro outs cur
    cases outs with
    | nil =>
      constructor
      · rintro ⟨sts, h⟩
        match sts, h with
        | [], h => simp [mkRows, layoutSatT] at h
        | [_], h => simp [mkRows, layoutSatT] at h
        | _ :: _ :: _, h => simp [mkRows, layoutSatT] at h
      · rintro ⟨_, h⟩
        simp [rowsOkT] at h
    | cons o os =>
      constructor
      · rintro ⟨sts, h⟩
        match sts, h with
        | [], h => simp [mkRows, layoutSatT] at h
        | s' :: sts, h =>
          simp only [mkRows] at h
          have hne : ∃ r rest, mkRows (s', Pin.free) sts bs os = r :: rest := by
            cases hm : mkRows (s', Pin.free) sts bs os with
            | nil => simp [hm, layoutSatT] at h
            | cons r rest => exact ⟨r, rest, rfl⟩
          obtain ⟨r, rest, hm⟩ := hne
          have hr : r.state = (s', Pin.free) := by
            cases sts with
            | nil => simp [mkRows] at hm
            | cons z zs =>
              cases bs with
              | nil =>
                cases os with
                | nil =>
                  cases zs with
                  | nil => simp only [mkRows, List.cons.injEq] at hm; rw [← hm.1]
                  | cons _ _ => simp [mkRows] at hm
                | cons _ _ => simp [mkRows] at hm
              | cons b' bs' =>
                cases os with
                | nil => simp [mkRows] at hm
                | cons o' os' => simp only [mkRows, List.cons.injEq] at hm; rw [← hm.1]
          rw [hm] at h
          simp only [layoutSatT] at h
          obtain ⟨hp, ⟨l, o', _, hl, ho, _, _, hin⟩, hrest⟩ := h
          simp only [Option.some.injEq] at hl ho
          subst hl; subst ho
          rw [hr] at hin
          have := (ih os (s', Pin.free)).mp ⟨sts, by rw [hm]; exact hrest⟩
          exact ⟨hp, by simp only [rowsOkT]; exact ⟨s', hin, this.2⟩⟩
      · rintro ⟨hp, h⟩
        simp only [rowsOkT] at h
        obtain ⟨s', hin, hrest⟩ := h
        obtain ⟨sts, hs⟩ := (ih os (s', Pin.free)).mpr ⟨trivial, hrest⟩
        refine ⟨s' :: sts, ?_⟩
        simp only [mkRows]
        cases hm : mkRows (s', Pin.free) sts bs os with
        | nil => simp [hm, layoutSatT] at hs
        | cons r rest =>
          have hr : r.state = (s', Pin.free) := by
            cases sts with
            | nil => simp [mkRows] at hm
            | cons z zs =>
              cases bs with
              | nil =>
                cases os with
                | nil =>
                  cases zs with
                  | nil => simp only [mkRows, List.cons.injEq] at hm; rw [← hm.1]
                  | cons _ _ => simp [mkRows] at hm
                | cons _ _ => simp [mkRows] at hm
              | cons b' bs' =>
                cases os with
                | nil => simp [mkRows] at hm
                | cons o' os' => simp only [mkRows, List.cons.injEq] at hm; rw [← hm.1]
          simp only [layoutSatT]
          refine ⟨hp, ⟨(b, .copy), (o, .free), by simp [pinOk], by simp [pinOk], by simp [pinOk],
            by simp [pinOk], by simp [pinOk], ?_⟩, ?_⟩
          · rw [hr]; exact hin
          · rw [← hm]; exact hs


end MidnightZK.C19
