import MidnightZK.Model.C19.DataTypes
/-! # C19 — `ParserGadget`: windows and decimal fields -/
namespace MidnightZK.C19.PG
open MidnightZK.C19
set_option linter.unusedSimpArgs false
set_option linter.unusedVariables false

theorem select_loop (seq : List Nat) (idx len : Nat) (init : List Nat) : ∀ m,
    (List.range m).foldl (fun out i => if idx = i then (seq.drop i).take len else out) init =
      if idx < m then (seq.drop idx).take len else init := by
  intro m
  induction m with
  | zero => simp
  | succ m ih =>
    rw [List.range_succ, List.foldl_append, ih]
    simp only [List.foldl_cons, List.foldl_nil]
    by_cases h1 : idx = m
    · subst h1; simp
    · by_cases h2 : idx < m
      · have : idx < m + 1 := by omega
        simp [h1, h2, this]
      · have : ¬ idx < m + 1 := by omega
        simp [h1, h2, this]

/-- `get_subsequence` returns the window `sequence[idx .. idx + len]` exactly when
`idx ≤ n − len`, and is unsatisfiable otherwise. -/
theorem getSubsequence_eq (seq : List Nat) (idx len : Nat) :
    getSubsequence seq idx len =
      if idx < seq.length - len + 1 then some ((seq.drop idx).take len) else none := by
  unfold getSubsequence
  by_cases h : idx < seq.length - len + 1
  · simp only [h, if_true, select_loop]
  · simp [h]

/-! ## Decimal reading -/

/-- The decimal value of a digit string (most significant first). -/
def decimal (l : List Nat) : Nat := l.foldl (fun a b => a * 10 + (b - 48)) 0

def allDigits (l : List Nat) : Prop := ∀ b ∈ l, 48 ≤ b ∧ b < 58

theorem atoiStep_none (b : Nat) : atoiStep none b = none := by
  unfold atoiStep; split <;> simp_all

theorem atoiStep_some (acc base b : Nat) :
    atoiStep (some (acc, base)) b =
      if 48 ≤ b ∧ b < 58 then some (acc + base * (b - 48), base * 10) else none := by
  unfold atoiStep asciiToDigit
  by_cases h : 48 ≤ b ∧ b < 58 <;> simp [h]

theorem atoi_loop (l : List Nat) : l.foldl atoiStep none = none := by
  induction l with
  | nil => rfl
  | cons b bs ih => simp only [List.foldl_cons, atoiStep_none]; exact ih

/-- Value of a reversed digit string scanned with increasing powers of ten. -/
def revValue : List Nat → Nat
  | [] => 0
  | b :: bs => (b - 48) + 10 * revValue bs

theorem atoi_fold (l : List Nat) : ∀ (acc base : Nat),
    l.foldl atoiStep (some (acc, base)) =
    if (∀ b ∈ l, 48 ≤ b ∧ b < 58) then some (acc + base * revValue l, base * 10 ^ l.length)
    else none := by
  induction l with
  | nil => intro acc base; simp [revValue]
  | cons b bs ih =>
    intro acc base
    simp only [List.foldl_cons, atoiStep_some]
    by_cases hb : 48 ≤ b ∧ b < 58
    · simp only [hb, and_self, if_true]
      rw [ih]
      by_cases hr : ∀ x ∈ bs, 48 ≤ x ∧ x < 58
      · have : ∀ x ∈ b :: bs, 48 ≤ x ∧ x < 58 := by
          intro x hx
          simp only [List.mem_cons] at hx
          rcases hx with rfl | hx
          · exact hb
          · exact hr x hx
        rw [if_pos hr, if_pos this]
        simp only [revValue, List.length_cons, Option.some.injEq, Prod.mk.injEq]
        constructor
        · rw [Nat.mul_add, Nat.add_assoc, Nat.mul_assoc]
        · rw [Nat.pow_succ, Nat.mul_assoc, Nat.mul_comm 10]
      · have : ¬ ∀ x ∈ b :: bs, 48 ≤ x ∧ x < 58 := fun h => hr (fun x hx => h x (by simp [hx]))
        simp [hr, this]
    · have : ¬ ∀ x ∈ b :: bs, 48 ≤ x ∧ x < 58 := fun h => hb (h b (by simp))
      simp only [hb, if_false, this]
      exact atoi_loop bs

theorem revValue_reverse (l : List Nat) : revValue l.reverse = decimal l := by
  unfold decimal
  suffices h : ∀ (l : List Nat) (a : Nat),
      l.foldl (fun a b => a * 10 + (b - 48)) a = a * 10 ^ l.length + revValue l.reverse by
    rw [h l 0]; simp
  intro l
  induction l with
  | nil => intro a; simp [revValue]
  | cons b bs ih =>
    intro a
    simp only [List.foldl_cons, List.reverse_cons, List.length_cons]
    rw [ih]
    have hrv : ∀ (xs : List Nat) (y : Nat), revValue (xs ++ [y]) = revValue xs + 10 ^ xs.length * (y - 48) := by
      intro xs y
      induction xs with
      | nil => simp [revValue]
      | cons x xs ihx =>
        simp only [List.cons_append, revValue, ihx, List.length_cons, Nat.pow_succ]
        rw [Nat.mul_add, ← Nat.mul_assoc, Nat.mul_comm 10 (10 ^ xs.length)]
        omega
    rw [hrv, List.length_reverse, Nat.add_mul, Nat.pow_succ]
    rw [Nat.mul_assoc a, Nat.mul_comm 10 (10 ^ bs.length), Nat.mul_comm (b - 48)]
    omega

/-- `ascii_to_int` is satisfiable exactly on strings of ASCII digits and returns their decimal
value (leading zeros allowed, the empty string reads as 0). -/
theorem asciiToInt_eq (input : List Nat) :
    asciiToInt input = if (∀ b ∈ input, 48 ≤ b ∧ b < 58) then some (decimal input) else none := by
  unfold asciiToInt
  rw [atoi_fold]
  by_cases h : ∀ b ∈ input, 48 ≤ b ∧ b < 58
  · have h' : ∀ b ∈ input.reverse, 48 ≤ b ∧ b < 58 := fun b hb => h b (List.mem_reverse.mp hb)
    simp [h, h', revValue_reverse]
  · have h' : ¬ ∀ b ∈ input.reverse, 48 ≤ b ∧ b < 58 :=
      fun h2 => h (fun b hb => h2 b (List.mem_reverse.mpr hb))
    simp [h, h']

abbrev isDigit (b : Nat) : Prop := 48 ≤ b ∧ b < 58

theorem asciiToInt8 (a b c d e f g h : Nat) :
    asciiToInt [a, b, c, d, e, f, g, h] =
      if isDigit a ∧ isDigit b ∧ isDigit c ∧ isDigit d ∧ isDigit e ∧ isDigit f ∧ isDigit g ∧ isDigit h
      then some (decimal [g, h] + 100 * decimal [e, f] + 10000 * decimal [a, b, c, d]) else none := by
  rw [asciiToInt_eq]
  have hc : (∀ x ∈ [a, b, c, d, e, f, g, h], 48 ≤ x ∧ x < 58) ↔
      (isDigit a ∧ isDigit b ∧ isDigit c ∧ isDigit d ∧ isDigit e ∧ isDigit f ∧ isDigit g ∧ isDigit h) := by
    simp only [List.mem_cons, List.not_mem_nil, or_false, forall_eq_or_imp, forall_eq, isDigit]
  by_cases hd : isDigit a ∧ isDigit b ∧ isDigit c ∧ isDigit d ∧ isDigit e ∧ isDigit f ∧ isDigit g ∧ isDigit h
  · rw [if_pos hd, if_pos (hc.mpr hd)]
    simp only [isDigit] at hd
    simp only [decimal, List.foldl_cons, List.foldl_nil, Option.some.injEq]
    omega
  · rw [if_neg hd, if_neg (mt hc.mp hd)]

/-- `date_to_int`, the four formats: satisfiable exactly when the separators (if any) are the
given character and the eight other characters are digits; the value is
`DD + 100·MM + 10000·YYYY`. -/
theorem dateToInt_dmy (d1 d2 m1 m2 y1 y2 y3 y4 : Nat) :
    dateToInt .ddmmyyyy none [d1, d2, m1, m2, y1, y2, y3, y4] =
      if isDigit y1 ∧ isDigit y2 ∧ isDigit y3 ∧ isDigit y4 ∧ isDigit m1 ∧ isDigit m2 ∧ isDigit d1 ∧ isDigit d2
      then some (decimal [d1, d2] + 100 * decimal [m1, m2] + 10000 * decimal [y1, y2, y3, y4]) else none := by
  simp only [dateToInt, slice, List.drop, List.take, List.cons_append, List.nil_append]
  exact asciiToInt8 y1 y2 y3 y4 m1 m2 d1 d2

theorem dateToInt_ymd (d1 d2 m1 m2 y1 y2 y3 y4 : Nat) :
    dateToInt .yyyymmdd none [y1, y2, y3, y4, m1, m2, d1, d2] =
      if isDigit y1 ∧ isDigit y2 ∧ isDigit y3 ∧ isDigit y4 ∧ isDigit m1 ∧ isDigit m2 ∧ isDigit d1 ∧ isDigit d2
      then some (decimal [d1, d2] + 100 * decimal [m1, m2] + 10000 * decimal [y1, y2, y3, y4]) else none := by
  simp only [dateToInt, slice, List.drop, List.take, List.cons_append, List.nil_append]
  exact asciiToInt8 y1 y2 y3 y4 m1 m2 d1 d2

theorem dateToInt_dmy_sep (s s1 s2 d1 d2 m1 m2 y1 y2 y3 y4 : Nat) :
    dateToInt .ddmmyyyy (some s) [d1, d2, s1, m1, m2, s2, y1, y2, y3, y4] =
      if s1 = s ∧ s2 = s then
        (if isDigit y1 ∧ isDigit y2 ∧ isDigit y3 ∧ isDigit y4 ∧ isDigit m1 ∧ isDigit m2 ∧ isDigit d1 ∧ isDigit d2
        then some (decimal [d1, d2] + 100 * decimal [m1, m2] + 10000 * decimal [y1, y2, y3, y4]) else none)
      else none := by
  simp only [dateToInt, slice, List.drop, List.take, List.cons_append, List.nil_append,
    List.getElem?_cons_succ, List.getElem?_cons_zero, beq_iff_eq, Option.some.injEq,
    Bool.and_eq_true]
  split
  · exact asciiToInt8 y1 y2 y3 y4 m1 m2 d1 d2
  · rfl

theorem dateToInt_ymd_sep (s s1 s2 d1 d2 m1 m2 y1 y2 y3 y4 : Nat) :
    dateToInt .yyyymmdd (some s) [y1, y2, y3, y4, s1, m1, m2, s2, d1, d2] =
      if s1 = s ∧ s2 = s then
        (if isDigit y1 ∧ isDigit y2 ∧ isDigit y3 ∧ isDigit y4 ∧ isDigit m1 ∧ isDigit m2 ∧ isDigit d1 ∧ isDigit d2
        then some (decimal [d1, d2] + 100 * decimal [m1, m2] + 10000 * decimal [y1, y2, y3, y4]) else none)
      else none := by
  simp only [dateToInt, slice, List.drop, List.take, List.cons_append, List.nil_append,
    List.getElem?_cons_succ, List.getElem?_cons_zero, beq_iff_eq, Option.some.injEq,
    Bool.and_eq_true]
  split
  · exact asciiToInt8 y1 y2 y3 y4 m1 m2 d1 d2
  · rfl

end MidnightZK.C19.PG
