import MidnightZK.Model.C19.Circuit
/-! # C19 — the rows of the in-circuit parser are satisfiable exactly for accepted inputs -/
namespace MidnightZK.C19

theorem lookup_lt (A : Dfa) (s b : Nat) (tm : Nat × Nat) (h : A.lookup s b = some tm) : b < 256 := by
  unfold Dfa.lookup at h
  split at h
  · assumption
  · simp at h

theorem rowsOk_iff_run (A : Dfa) (off : Nat) (hoff : 0 < off) : ∀ (bytes outs : List Nat) (s : Nat),
    (∀ b ∈ bytes, b < 256) →
    (rowsOk A off (s + off) bytes outs ↔
      ∃ q, A.run s bytes = some (q, outs) ∧ A.isFinal q = true) := by
  intro bytes
  induction bytes with
  | nil =>
    intro outs s _
    cases outs with
    | nil =>
      simp only [rowsOk, inTable, Dfa.run]
      constructor
      · rintro (h | ⟨s', b, t, m, hl, h⟩ | ⟨f, hf, h⟩)
        · simp only [Prod.mk.injEq] at h; omega
        · simp only [Prod.mk.injEq] at h
          have := lookup_lt A s' b _ hl
          omega
        · simp only [Prod.mk.injEq] at h
          have : f = s := by omega
          subst this
          exact ⟨f, rfl, hf⟩
      · rintro ⟨q, hq, hf⟩
        simp only [Option.some.injEq, Prod.mk.injEq, and_true] at hq
        subst hq
        exact Or.inr (Or.inr ⟨s, hf, rfl⟩)
    | cons o os =>
      simp only [rowsOk, Dfa.run, false_iff]
      rintro ⟨q, hq, _⟩
      simp at hq
  | cons b bs ih =>
    intro outs s hb
    have hb0 : b < 256 := hb b (by simp)
    have hbs : ∀ x ∈ bs, x < 256 := fun x hx => hb x (by simp [hx])
    cases outs with
    | nil =>
      simp only [rowsOk, Dfa.run, false_iff]
      rintro ⟨q, hq, _⟩
      cases hl : A.lookup s b with
      | none => simp [hl] at hq
      | some tm =>
        obtain ⟨t, m⟩ := tm
        simp only [hl] at hq
        cases hr : A.run t bs with
        | none => simp [hr] at hq
        | some p => simp [hr] at hq
    | cons o os =>
      simp only [rowsOk, Dfa.run]
      constructor
      · rintro ⟨s', hin, hrest⟩
        rcases hin with h | ⟨s0, b0, t, m, hl, h⟩ | ⟨f, _, h⟩
        · simp only [Prod.mk.injEq] at h; omega
        · simp only [Prod.mk.injEq] at h
          obtain ⟨h1, h2, h3, h4⟩ := h
          have : s0 = s := by omega
          subst this; subst h2; subst h3; subst h4
          obtain ⟨q, hq, hf⟩ := (ih os t hbs).mp hrest
          refine ⟨q, ?_, hf⟩
          simp [hl, hq]
        · simp only [Prod.mk.injEq] at h; omega
      · rintro ⟨q, hq, hf⟩
        cases hl : A.lookup s b with
        | none => simp [hl] at hq
        | some tm =>
          obtain ⟨t, m⟩ := tm
          simp only [hl] at hq
          cases hr : A.run t bs with
          | none => simp [hr] at hq
          | some p =>
            obtain ⟨q', ms⟩ := p
            simp only [hr, Option.map_some, Option.some.injEq, Prod.mk.injEq, List.cons.injEq] at hq
            obtain ⟨rfl, rfl, rfl⟩ := hq
            refine ⟨t + off, Or.inr (Or.inl ⟨s, b, t, m, hl, rfl⟩), ?_⟩
            exact (ih ms t hbs).mpr ⟨q', hr, hf⟩

end MidnightZK.C19
