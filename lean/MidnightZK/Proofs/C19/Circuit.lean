import MidnightZK.Model.C19.Circuit
/-! # C19 — the rows of the in-circuit parser are satisfiable exactly for accepted inputs -/
namespace MidnightZK.C19

theorem lookup_lt (A : Dfa) (s b : Nat) (tm : Nat × Nat) (h : A.lookup s b = some tm) : b < 256 := by
  unfold Dfa.lookup at h
  split at h
  · assumption
  · simp at h

theorem rowsOk_iff_run (A : Dfa) (off : Nat) (hoff : 0 < off) : ∀ (bytes outs : List Nat) (s : Nat),
    (∀ b ∈ bytes, b < 256) →
    (rowsOk A off (s + off) bytes outs ↔
      ∃ q, A.run s bytes = some (q, outs) ∧ A.isFinal q = true) := by
  intro bytes
  induction bytes with
  | nil =>
    intro outs s _
    cases outs with
    | nil =>
      simp only [rowsOk, inTable, Dfa.run]
      constructor
      · rintro (h | ⟨s', b, t, m, hl, h⟩ | ⟨f, hf, h⟩)
        · simp only [Prod.mk.injEq] at h; omega
        · simp only [Prod.mk.injEq] at h
          have := lookup_lt A s' b _ hl
          omega
        · simp only [Prod.mk.injEq] at h
          have : f = s := by omega
          subst this
          exact ⟨f, rfl, hf⟩
      · rintro ⟨q, hq, hf⟩
        simp only [Option.some.injEq, Prod.mk.injEq, and_true] at hq
        subst hq
        exact Or.inr (Or.inr ⟨s, hf, rfl⟩)
    | cons o os =>
      simp only [rowsOk, Dfa.run, false_iff]
      rintro ⟨q, hq, _⟩
      simp at hq
  | cons b bs ih =>
    intro outs s hb
    have hb0 : b < 256 := hb b (by simp)
    have hbs : ∀ x ∈ bs, x < 256 := fun x hx => hb x (by simp [hx])
    cases outs with
    | nil =>
      simp only [rowsOk, Dfa.run, false_iff]
      rintro ⟨q, hq, _⟩
      cases hl : A.lookup s b with
      | none => simp [hl] at hq
      | some tm =>
        obtain ⟨t, m⟩ := tm
        simp only [hl] at hq
        cases hr : A.run t bs with
        | none => simp [hr] at hq
        | some p => simp [hr] at hq
    | cons o os =>
      simp only [rowsOk, Dfa.run]
      constructor
      · rintro ⟨s', hin, hrest⟩
        rcases hin with h | ⟨s0, b0, t, m, hl, h⟩ | ⟨f, _, h⟩
        · simp only [Prod.mk.injEq] at h; omega
        · simp only [Prod.mk.injEq] at h
          obtain ⟨h1, h2, h3, h4⟩ := h
          have : s0 = s := by omega
          subst this; subst h2; subst h3; subst h4
          obtain ⟨q, hq, hf⟩ := (ih os t hbs).mp hrest
          refine ⟨q, ?_, hf⟩
          simp [hl, hq]
        · simp only [Prod.mk.injEq] at h; omega
      · rintro ⟨q, hq, hf⟩
        cases hl : A.lookup s b with
        | none => simp [hl] at hq
        | some tm =>
          obtain ⟨t, m⟩ := tm
          simp only [hl] at hq
          cases hr : A.run t bs with
          | none => simp [hr] at hq
          | some p =>
            obtain ⟨q', ms⟩ := p
            simp only [hr, Option.map_some, Option.some.injEq, Prod.mk.injEq, List.cons.injEq] at hq
            obtain ⟨rfl, rfl, rfl⟩ := hq
            refine ⟨t + off, Or.inr (Or.inl ⟨s, b, t, m, hl, rfl⟩), ?_⟩
            exact (ih ms t hbs).mpr ⟨q', hr, hf⟩

/-! ## The emitted table and layout -/

set_option linter.unusedSimpArgs false

theorem mem_transRows_iff (A : Dfa) (off : Nat) (row : Nat × Nat × Nat × Nat) :
    row ∈ transRows A off ↔
      ∃ s b t m, A.lookup s b = some (t, m) ∧ row = (s + off, b, t + off, m) := by
  simp only [transRows, List.mem_filterMap, List.mem_range]
  constructor
  · rintro ⟨i, hi, h⟩
    cases hj : (A.tbl[i]?).join with
    | none => simp [hj] at h
    | some tm =>
      obtain ⟨t, m⟩ := tm
      simp only [hj, Option.some.injEq] at h
      refine ⟨i / 256, i % 256, t, m, ?_, h.symm⟩
      have hlt : i % 256 < 256 := Nat.mod_lt _ (by decide)
      have hi' : i / 256 * 256 + i % 256 = i := by omega
      simp [Dfa.lookup, hlt, hi', hj]
  · rintro ⟨s, b, t, m, hl, rfl⟩
    unfold Dfa.lookup at hl
    split at hl
    · rename_i hb
      refine ⟨s * 256 + b, ?_, ?_⟩
      · cases hg : A.tbl[s * 256 + b]? with
        | none => simp [hg] at hl
        | some v =>
          have := (Array.getElem?_eq_some_iff.mp hg).1
          exact this
      · have h1 : (s * 256 + b) / 256 = s := by omega
        have h2 : (s * 256 + b) % 256 = b := by omega
        simp [hl, h1, h2]
    · simp at hl

theorem mem_finalRows_iff (A : Dfa) (off : Nat) (row : Nat × Nat × Nat × Nat) :
    row ∈ finalRows A off ↔ ∃ f, A.isFinal f = true ∧ row = (f + off, 256, 0, 0) := by
  simp only [finalRows, List.mem_filterMap, List.mem_range]
  constructor
  · rintro ⟨f, _, h⟩
    by_cases hf : A.isFinal f = true
    · simp only [hf, if_true, Option.some.injEq] at h
      exact ⟨f, hf, h.symm⟩
    · simp [hf] at h
  · rintro ⟨f, hf, rfl⟩
    refine ⟨f, ?_, by simp [hf]⟩
    unfold Dfa.isFinal at hf
    cases hg : A.finals[f]? with
    | none => simp [hg] at hf
    | some v => exact (Array.getElem?_eq_some_iff.mp hg).1

/-- The table loaded by `AutomatonChip::load` (as emitted and compared with the real fixed
columns) has exactly the rows of `inTable`. -/
theorem mem_tableRows_iff (A : Dfa) (off : Nat) (row : Nat × Nat × Nat × Nat) :
    row ∈ tableRows A off ↔ inTable A off row := by
  simp only [tableRows, List.mem_cons, List.mem_append, mem_transRows_iff, mem_finalRows_iff,
    inTable]

theorem layoutSat_mkRows_iff (A : Dfa) (off : Nat) : ∀ (bytes outs : List Nat) (cur : PCell),
    (∃ sts, layoutSat A off (mkRows cur sts bytes outs)) ↔
      (pinOk cur ∧ rowsOk A off cur.1 bytes outs) := by
  intro bytes
  induction bytes with
  | nil =>
    intro outs cur
    cases outs with
    | nil =>
      constructor
      · rintro ⟨sts, h⟩
        match sts, h with
        | [z], h =>
          simp only [mkRows, layoutSat] at h
          obtain ⟨hp, ⟨l, o, _, hl, ho, hpl, hpo, hin⟩, _, hz⟩ := h
          simp only [Option.some.injEq] at hl ho
          subst hl; subst ho
          simp only [pinOk] at hz
          subst hz
          exact ⟨hp, by simpa [rowsOk] using hin⟩
        | [], h => simp [mkRows, layoutSat] at h
        | _ :: _ :: _, h => simp [mkRows, layoutSat] at h
      · rintro ⟨hp, h⟩
        refine ⟨[0], ?_⟩
        simp only [mkRows, layoutSat]
        exact ⟨hp, ⟨(256, .fixed 256), (0, .fixed 0), by simp [pinOk], by simp [pinOk],
          by simp [pinOk], by simp [pinOk], by simp [pinOk], by simpa [rowsOk] using h⟩,
          by simp [pinOk], by simp [pinOk]⟩
    | cons o os =>
      constructor
      · rintro ⟨sts, h⟩
        match sts, h with
        | [], h => simp [mkRows, layoutSat] at h
        | [_], h => simp [mkRows, layoutSat] at h
        | _ :: _ :: _, h => simp [mkRows, layoutSat] at h
      · rintro ⟨_, h⟩
        simp [rowsOk] at h
  | cons b bs ih =>
    intro outs cur
    cases outs with
    | nil =>
      constructor
      · rintro ⟨sts, h⟩
        match sts, h with
        | [], h => simp [mkRows, layoutSat] at h
        | [_], h => simp [mkRows, layoutSat] at h
        | _ :: _ :: _, h => simp [mkRows, layoutSat] at h
      · rintro ⟨_, h⟩
        simp [rowsOk] at h
    | cons o os =>
      constructor
      · rintro ⟨sts, h⟩
        match sts, h with
        | [], h => simp [mkRows, layoutSat] at h
        | s' :: sts, h =>
          simp only [mkRows] at h
          have hne : ∃ r rest, mkRows (s', Pin.free) sts bs os = r :: rest := by
            cases hm : mkRows (s', Pin.free) sts bs os with
            | nil => simp [hm, layoutSat] at h
            | cons r rest => exact ⟨r, rest, rfl⟩
          obtain ⟨r, rest, hm⟩ := hne
          have hr : r.state = (s', Pin.free) := by
            cases sts with
            | nil => simp [mkRows] at hm
            | cons z zs =>
              cases bs with
              | nil =>
                cases os with
                | nil =>
                  cases zs with
                  | nil => simp only [mkRows, List.cons.injEq] at hm; rw [← hm.1]
                  | cons _ _ => simp [mkRows] at hm
                | cons _ _ => simp [mkRows] at hm
              | cons b' bs' =>
                cases os with
                | nil => simp [mkRows] at hm
                | cons o' os' => simp only [mkRows, List.cons.injEq] at hm; rw [← hm.1]
          rw [hm] at h
          simp only [layoutSat] at h
          obtain ⟨hp, ⟨l, o', _, hl, ho, _, _, hin⟩, hrest⟩ := h
          simp only [Option.some.injEq] at hl ho
          subst hl; subst ho
          rw [hr] at hin
          have := (ih os (s', Pin.free)).mp ⟨sts, by rw [hm]; exact hrest⟩
          exact ⟨hp, by simp only [rowsOk]; exact ⟨s', hin, this.2⟩⟩
      · rintro ⟨hp, h⟩
        simp only [rowsOk] at h
        obtain ⟨s', hin, hrest⟩ := h
        obtain ⟨sts, hs⟩ := (ih os (s', Pin.free)).mpr ⟨trivial, hrest⟩
        refine ⟨s' :: sts, ?_⟩
        simp only [mkRows]
        cases hm : mkRows (s', Pin.free) sts bs os with
        | nil => simp [hm, layoutSat] at hs
        | cons r rest =>
          have hr : r.state = (s', Pin.free) := by
            cases sts with
            | nil => simp [mkRows] at hm
            | cons z zs =>
              cases bs with
              | nil =>
                cases os with
                | nil =>
                  cases zs with
                  | nil => simp only [mkRows, List.cons.injEq] at hm; rw [← hm.1]
                  | cons _ _ => simp [mkRows] at hm
                | cons _ _ => simp [mkRows] at hm
              | cons b' bs' =>
                cases os with
                | nil => simp [mkRows] at hm
                | cons o' os' => simp only [mkRows, List.cons.injEq] at hm; rw [← hm.1]
          simp only [layoutSat]
          refine ⟨hp, ⟨(b, .copy), (o, .free), by simp [pinOk], by simp [pinOk], by simp [pinOk],
            by simp [pinOk], by simp [pinOk], ?_⟩, ?_⟩
          · rw [hr]; exact hin
          · rw [← hm]; exact hs

end MidnightZK.C19
