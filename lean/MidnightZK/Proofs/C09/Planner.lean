import MidnightZK.Model.C09.Planner
/-! Helper lemmas for `Props/C09.lean` (core Lean only). -/
namespace MidnightZK.C09

/-! ### erasure and shapes -/

theorem Ev.touch_erase (e : Ev) : e.erase.touch = e.touch := by
  cases e <;> rfl

theorem Ev.constOf_erase (k : Nat) (e : Ev) : e.erase.constOf k = e.constOf k := by
  cases e <;> rfl

theorem Ev.erase_withValue (v : Option Nat) (e : Ev) : (e.withValue v).erase = e.erase := by
  cases e <;> rfl

theorem filterMap_touch_erase (evs : List Ev) :
    (evs.map Ev.erase).filterMap Ev.touch = evs.filterMap Ev.touch := by
  induction evs with
  | nil => rfl
  | cons e rest ih => simp [List.filterMap_cons, Ev.touch_erase, ih]

theorem filterMap_constOf_erase (k : Nat) (evs : List Ev) :
    (evs.map Ev.erase).filterMap (Ev.constOf k) = evs.filterMap (Ev.constOf k) := by
  induction evs with
  | nil => rfl
  | cons e rest ih => simp [List.filterMap_cons, Ev.constOf_erase, ih]

theorem shapeOf_erase (evs : List Ev) : shapeOf (evs.map Ev.erase) = shapeOf evs := by
  unfold shapeOf
  rw [filterMap_touch_erase]

/-- Whether a call pins a constant does not depend on the region index. -/
theorem Ev.constOf_isSome (k k' : Nat) (e : Ev) : (e.constOf k).isSome = (e.constOf k').isSome := by
  cases e <;> rfl

theorem constOf_length (k k' : Nat) (evs : List Ev) :
    (evs.filterMap (Ev.constOf k)).length = (evs.filterMap (Ev.constOf k')).length := by
  induction evs with
  | nil => rfl
  | cons e rest ih =>
    have h := Ev.constOf_isSome k k' e
    simp only [List.filterMap_cons]
    cases h1 : e.constOf k <;> cases h2 : e.constOf k' <;> simp_all

/-! ### emission commutes with erasure -/

theorem emitEv_erase (starts : Array Nat) (st : Nat) (e : Ev) :
    (emitEv starts st e.erase).map Abs.erase = (emitEv starts st e).map Abs.erase := by
  cases e <;> simp [Ev.erase, emitEv, Abs.erase]

theorem flatMap_emitEv_erase (starts : Array Nat) (st : Nat) (evs : List Ev) :
    ((evs.map Ev.erase).flatMap (emitEv starts st)).map Abs.erase
      = (evs.flatMap (emitEv starts st)).map Abs.erase := by
  induction evs with
  | nil => rfl
  | cons e rest ih => simp [List.flatMap_cons, emitEv_erase, ih]

theorem layoutItem_erase (cfg : Cfg) (s : St) (it : Item) :
    (layoutItem cfg s it.erase).1 = (layoutItem cfg s it).1 ∧
    (layoutItem cfg s it.erase).2.map Abs.erase = (layoutItem cfg s it).2.map Abs.erase := by
  cases it with
  | region evs =>
    have hb := flatMap_emitEv_erase (s.starts.push (place s.alloc (shapeOf evs)).1)
      (place s.alloc (shapeOf evs)).1 evs
    simp only [Item.erase, layoutItem, shapeOf_erase, filterMap_constOf_erase]
    cases cfg.constants with
    | nil => simp [hb]
    | cons kcol _ => simp [hb]
  | table cells => simp [Item.erase]
  | inst cell ic ir => simp [Item.erase]

theorem layoutAux_erase (cfg : Cfg) (s : St) (items : List Item) :
    (layoutAux cfg s (items.map Item.erase)).1 = (layoutAux cfg s items).1 ∧
    (layoutAux cfg s (items.map Item.erase)).2.map (·.map Abs.erase)
      = (layoutAux cfg s items).2.map (·.map Abs.erase) := by
  induction items generalizing s with
  | nil => exact ⟨rfl, rfl⟩
  | cons it rest ih =>
    have h := layoutItem_erase cfg s it
    simp only [List.map_cons, layoutAux, h.1, h.2, ih]
    exact ⟨trivial, trivial⟩

theorem calls_erase (cfg : Cfg) (items : List Item) :
    (calls cfg (items.map Item.erase)).map Abs.erase = (calls cfg items).map Abs.erase := by
  have h := (layoutAux_erase cfg St.init items).2
  simp only [calls, layout, List.map_flatten, h]

theorem starts_erase (cfg : Cfg) (items : List Item) :
    starts cfg (items.map Item.erase) = starts cfg items := by
  simp [starts, layout, (layoutAux_erase cfg St.init items).1]

/-! ### views of erased call sequences -/

theorem keygenView_erase (cs : List Abs) : keygenView (cs.map Abs.erase) = keygenView cs := by
  induction cs with
  | nil => rfl
  | cons a rest ih =>
    cases a <;> simp_all [keygenView, Abs.erase, Abs.keygenRelevant, List.filter_cons]

theorem advicePositions_erase (cs : List Abs) :
    advicePositions (cs.map Abs.erase) = advicePositions cs := by
  induction cs with
  | nil => rfl
  | cons a rest ih =>
    cases a <;> simp_all [advicePositions, Abs.erase, List.filterMap_cons]

theorem rowBound_erase (a : Abs) : a.erase.rowBound = a.rowBound := by
  cases a <;> rfl

theorem foldl_rowBound_erase (cs : List Abs) (m : Nat) :
    (cs.map Abs.erase).foldl (fun m a => max m a.rowBound) m
      = cs.foldl (fun m a => max m a.rowBound) m := by
  induction cs generalizing m with
  | nil => rfl
  | cons a rest ih => simp [List.foldl_cons, rowBound_erase, ih]

theorem costStep_erase (s : CostSt) (a : Abs) : costStep s a.erase = costStep s a := by
  cases a <;> rfl

theorem foldl_costStep_erase (cs : List Abs) (s : CostSt) :
    (cs.map Abs.erase).foldl costStep s = cs.foldl costStep s := by
  induction cs generalizing s with
  | nil => rfl
  | cons a rest ih => simp [List.foldl_cons, costStep_erase, ih]

/-! ### witnesses over a fixed structure -/

theorem withValuesEvs_erase (w : Nat → Option Nat) (j : Nat) (evs : List Ev) :
    (withValuesEvs w j evs).map Ev.erase = evs.map Ev.erase := by
  induction evs generalizing j with
  | nil => rfl
  | cons e rest ih => simp [withValuesEvs, Ev.erase_withValue, ih]

theorem withValuesItems_erase (w : Nat → Nat → Option Nat) (i : Nat) (items : List Item) :
    (withValuesItems w i items).map Item.erase = items.map Item.erase := by
  induction items generalizing i with
  | nil => rfl
  | cons it rest ih =>
    cases it <;> simp [withValuesItems, Item.withValues, Item.erase, withValuesEvs_erase, ih]

/-! ### placement from shapes -/

theorem layoutItem_shape (cfg : Cfg) (s : St) (it : Item) :
    (layoutItem cfg s it).1.alloc = (placeStep cfg s.alloc it.shape).1 ∧
    (layoutItem cfg s it).1.starts.toList
      = s.starts.toList ++ (match (placeStep cfg s.alloc it.shape).2 with | some st => [st] | none => []) := by
  cases it with
  | region evs =>
    simp only [layoutItem, Item.shape, placeStep]
    cases cfg.constants with
    | nil => simp
    | cons kcol _ => simp [constOf_length s.starts.size 0 evs]
  | table cells => simp [layoutItem, Item.shape, placeStep]
  | inst cell ic ir => simp [layoutItem, Item.shape, placeStep]

theorem layoutAux_starts (cfg : Cfg) (s : St) (items : List Item) :
    (layoutAux cfg s items).1.starts.toList
      = s.starts.toList ++ placeAllAux cfg s.alloc (items.map Item.shape) := by
  induction items generalizing s with
  | nil => simp [layoutAux, placeAllAux]
  | cons it rest ih =>
    have h := layoutItem_shape cfg s it
    simp only [layoutAux, List.map_cons, placeAllAux, ih, h.1, h.2]
    cases (placeStep cfg s.alloc it.shape).2 <;> simp

/-! ### column usage map -/

theorem Alloc.get_set_same (a : Alloc) (c : Col) (n : Nat) : (a.set c n).get c = n := by
  induction a with
  | nil => simp [Alloc.set, Alloc.get]
  | cons p rest ih =>
    obtain ⟨c', m⟩ := p
    by_cases h : c' = c
    · simp [Alloc.set, Alloc.get, h]
    · simp [Alloc.set, Alloc.get, h, ih]

theorem Alloc.get_set_other (a : Alloc) (c d : Col) (n : Nat) (h : d ≠ c) :
    (a.set c n).get d = a.get d := by
  induction a with
  | nil => simp [Alloc.set, Alloc.get, Ne.symm h]
  | cons p rest ih =>
    obtain ⟨c', m⟩ := p
    by_cases h1 : c' = c
    · subst h1
      simp [Alloc.set, Alloc.get, Ne.symm h]
    · simp only [Alloc.set, h1, if_false, Alloc.get]
      by_cases h2 : c' = d
      · simp [h2]
      · simp [h2, ih]

theorem foldl_max_ge_init (a : Alloc) (cols : List Col) (m : Nat) :
    m ≤ cols.foldl (fun m c => max m (a.get c)) m := by
  induction cols generalizing m with
  | nil => simp
  | cons c rest ih =>
    simp only [List.foldl_cons]
    exact Nat.le_trans (Nat.le_max_left _ _) (ih _)

theorem foldl_max_ge_mem (a : Alloc) (cols : List Col) (m : Nat) (c : Col) (hc : c ∈ cols) :
    a.get c ≤ cols.foldl (fun m c => max m (a.get c)) m := by
  induction cols generalizing m with
  | nil => cases hc
  | cons d rest ih =>
    simp only [List.foldl_cons]
    rcases List.mem_cons.mp hc with h | h
    · subst h
      exact Nat.le_trans (Nat.le_max_right _ _) (foldl_max_ge_init a rest _)
    · exact ih _ h

/-- The fold is attained: the start is 0 or the first free row of one of the columns. -/
theorem foldl_max_attained (a : Alloc) (cols : List Col) (m : Nat) :
    cols.foldl (fun m c => max m (a.get c)) m = m ∨
    ∃ c ∈ cols, cols.foldl (fun m c => max m (a.get c)) m = a.get c := by
  induction cols generalizing m with
  | nil => simp
  | cons d rest ih =>
    simp only [List.foldl_cons]
    rcases ih (max m (a.get d)) with h | ⟨c, hc, h⟩
    · rw [h]
      rcases Nat.le_total m (a.get d) with h1 | h1
      · right; exact ⟨d, List.mem_cons_self, by rw [Nat.max_eq_right h1]⟩
      · left; exact Nat.max_eq_left h1
    · right; exact ⟨c, List.mem_cons_of_mem _ hc, h⟩

theorem occupy_get_not_mem (a : Alloc) (cols : List Col) (n : Nat) (c : Col) (hc : c ∉ cols) :
    (occupy a cols n).get c = a.get c := by
  induction cols generalizing a with
  | nil => rfl
  | cons d rest ih =>
    have h1 : c ≠ d := fun h => hc (h ▸ List.mem_cons_self)
    have h2 : c ∉ rest := fun h => hc (List.mem_cons_of_mem _ h)
    have := ih (a.set d n) h2
    simp only [occupy, List.foldl_cons] at this ⊢
    rw [this]
    exact Alloc.get_set_other _ _ _ _ h1

theorem occupy_get_mem (a : Alloc) (cols : List Col) (n : Nat) (c : Col) (hc : c ∈ cols) :
    (occupy a cols n).get c = n := by
  induction cols generalizing a with
  | nil => cases hc
  | cons d rest ih =>
    by_cases h : c ∈ rest
    · have := ih (a.set d n) h
      simpa only [occupy, List.foldl_cons] using this
    · rcases List.mem_cons.mp hc with h1 | h1
      · subst h1
        have := occupy_get_not_mem (a.set c n) rest n c h
        simp only [occupy, List.foldl_cons] at this ⊢
        rw [this]
        exact Alloc.get_set_same _ _ _
      · exact absurd h1 h

/-! ### placement never reuses a row of a column -/

theorem place_start_ge (a : Alloc) (s : Shape) (c : Col) (hc : c ∈ s.cols) :
    a.get c ≤ (place a s).1 := by
  simp only [place, startOf]
  exact foldl_max_ge_mem a s.cols 0 c hc

theorem place_get_mem (a : Alloc) (s : Shape) (c : Col) (hc : c ∈ s.cols) :
    (place a s).2.get c = (place a s).1 + s.rows := by
  simp only [place]
  exact occupy_get_mem _ _ _ _ hc

theorem place_get_not_mem (a : Alloc) (s : Shape) (c : Col) (hc : c ∉ s.cols) :
    (place a s).2.get c = a.get c := by
  simp only [place]
  exact occupy_get_not_mem _ _ _ _ hc

theorem place_mono (a : Alloc) (s : Shape) (c : Col) : a.get c ≤ (place a s).2.get c := by
  by_cases hc : c ∈ s.cols
  · rw [place_get_mem a s c hc]
    exact Nat.le_trans (place_start_ge a s c hc) (Nat.le_add_right _ _)
  · rw [place_get_not_mem a s c hc]
    exact Nat.le_refl _

theorem set_add_mono (a : Alloc) (k : Col) (n : Nat) (c : Col) :
    a.get c ≤ (a.set k (a.get k + n)).get c := by
  by_cases h : c = k
  · subst h
    rw [Alloc.get_set_same]
    exact Nat.le_add_right _ _
  · rw [Alloc.get_set_other _ _ _ _ h]
    exact Nat.le_refl _

theorem placeStep_mono (cfg : Cfg) (a : Alloc) (sh : ItemShape) (c : Col) :
    a.get c ≤ (placeStep cfg a sh).1.get c := by
  cases sh with
  | other => exact Nat.le_refl _
  | region s n =>
    simp only [placeStep]
    cases cfg.constants with
    | nil => exact place_mono a s c
    | cons kcol _ => exact Nat.le_trans (place_mono a s c) (set_add_mono _ _ _ _)

theorem placeStep_region_ge (cfg : Cfg) (a : Alloc) (s : Shape) (n : Nat) (c : Col) (hc : c ∈ s.cols) :
    (place a s).1 + s.rows ≤ (placeStep cfg a (.region s n)).1.get c := by
  simp only [placeStep]
  cases cfg.constants with
  | nil => exact Nat.le_of_eq (place_get_mem a s c hc).symm
  | cons kcol _ =>
    exact Nat.le_trans (Nat.le_of_eq (place_get_mem a s c hc).symm) (set_add_mono _ _ _ _)

/-- Every region placed from column map `a` starts at or after the first free row recorded in
`a` for each of its columns. -/
theorem placedAux_ge (cfg : Cfg) (a : Alloc) (shapes : List ItemShape) :
    ∀ p ∈ placedAux cfg a shapes, ∀ c ∈ p.1.cols, a.get c ≤ p.2 := by
  induction shapes generalizing a with
  | nil => intro p hp; cases hp
  | cons sh rest ih =>
    cases sh with
    | other => simpa [placedAux] using ih a
    | region s n =>
      intro p hp c hc
      simp only [placedAux, List.mem_cons] at hp
      rcases hp with h | h
      · subst h
        exact place_start_ge a s c hc
      · exact Nat.le_trans (placeStep_mono cfg a (.region s n) c) (ih _ p h c hc)

theorem placedAux_starts (cfg : Cfg) (a : Alloc) (shapes : List ItemShape) :
    (placedAux cfg a shapes).map (·.2) = placeAllAux cfg a shapes := by
  induction shapes generalizing a with
  | nil => rfl
  | cons sh rest ih =>
    cases sh with
    | other => simp [placedAux, placeAllAux, placeStep, ih]
    | region s n =>
      simp only [placedAux, placeAllAux, List.map_cons, ih]
      simp only [placeStep]
      cases cfg.constants <;> rfl

/-! ### shapes cover the calls -/

theorem Shape.add_cols_mono (s : Shape) (t : Col × Nat) (c : Col) (h : c ∈ s.cols) : c ∈ (s.add t).cols := by
  unfold Shape.add
  split
  · exact h
  · exact List.mem_append_left _ h

theorem Shape.add_rows_mono (s : Shape) (t : Col × Nat) : s.rows ≤ (s.add t).rows := by
  unfold Shape.add
  exact Nat.le_max_left _ _

theorem Shape.add_mem (s : Shape) (t : Col × Nat) : t.1 ∈ (s.add t).cols ∧ t.2 < (s.add t).rows := by
  unfold Shape.add
  refine ⟨?_, Nat.lt_of_lt_of_le (Nat.lt_succ_self _) (Nat.le_max_right _ _)⟩
  split
  · next h => simpa using h
  · simp

theorem foldl_add_mono (l : List (Col × Nat)) (s : Shape) :
    (∀ c ∈ s.cols, c ∈ (l.foldl Shape.add s).cols) ∧ s.rows ≤ (l.foldl Shape.add s).rows := by
  induction l generalizing s with
  | nil => exact ⟨fun _ h => h, Nat.le_refl _⟩
  | cons t rest ih =>
    simp only [List.foldl_cons]
    have h := ih (s.add t)
    exact ⟨fun c hc => h.1 c (Shape.add_cols_mono s t c hc), Nat.le_trans (Shape.add_rows_mono s t) h.2⟩

theorem foldl_add_covers (l : List (Col × Nat)) (s : Shape) (t : Col × Nat) (ht : t ∈ l) :
    t.1 ∈ (l.foldl Shape.add s).cols ∧ t.2 < (l.foldl Shape.add s).rows := by
  induction l generalizing s with
  | nil => cases ht
  | cons u rest ih =>
    simp only [List.foldl_cons]
    rcases List.mem_cons.mp ht with h | h
    · subst h
      have m := foldl_add_mono rest (s.add t)
      have a := Shape.add_mem s t
      exact ⟨m.1 _ a.1, Nat.lt_of_lt_of_le a.2 m.2⟩
    · exact ih _ h

/-! ### `minK` -/

theorem minKAux_spec (n fuel k : Nat) (hf : n ≤ 2 ^ (k + fuel)) (hk : ∀ j, j < k → 2 ^ j < n) :
    n ≤ 2 ^ (minKAux n fuel k) ∧ ∀ j, j < minKAux n fuel k → 2 ^ j < n := by
  induction fuel generalizing k with
  | zero => simpa [minKAux] using ⟨hf, hk⟩
  | succ f ih =>
    simp only [minKAux]
    split
    · next h => exact ⟨h, hk⟩
    · next h =>
      apply ih (k + 1)
      · simpa [Nat.add_assoc, Nat.add_comm 1 f] using hf
      · intro j hj
        rcases Nat.lt_succ_iff_lt_or_eq.mp hj with h1 | h1
        · exact hk j h1
        · subst h1; exact Nat.lt_of_not_le h

/-! ### constant cache -/

theorem cacheStep_prefix (cache : List Nat) (c : Nat) : cache <+: (cacheStep cache c).1 := by
  unfold cacheStep
  cases cache.idxOf? c <;> simp

theorem cacheRun_prefix (cache : List Nat) (cs : List Nat) : cache <+: (cacheRun cache cs).1 := by
  induction cs generalizing cache with
  | nil => simp [cacheRun]
  | cons c rest ih =>
    simp only [cacheRun]
    exact List.IsPrefix.trans (cacheStep_prefix cache c) (ih _)

end MidnightZK.C09
