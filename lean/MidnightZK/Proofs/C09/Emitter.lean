import MidnightZK.Model.C09.Emitter
import MidnightZK.Proofs.C09.Planner
/-! Helper lemmas for the emitter / copy-set theorems of `Props/C09.lean` (core Lean only). -/
namespace MidnightZK.C09

/-! ### putting the values of a synthesis back onto its erased form -/

theorem valuesOfEvs_succ (e : Ev) (rest : List Ev) (j : Nat) :
    valuesOfEvs (e :: rest) (j + 1) = valuesOfEvs rest j := by
  simp [valuesOfEvs]

theorem Ev.erase_withValue_self (e : Ev) (rest : List Ev) :
    e.erase.withValue (valuesOfEvs (e :: rest) 0) = e := by
  cases e <;> simp [Ev.erase, Ev.withValue, valuesOfEvs]

theorem withValuesEvs_valuesOf (evs : List Ev) (k : Nat) (w : Nat → Option Nat)
    (h : ∀ j, j < evs.length → w (k + j) = valuesOfEvs evs j) :
    withValuesEvs w k (evs.map Ev.erase) = evs := by
  induction evs generalizing k with
  | nil => rfl
  | cons e rest ih =>
    have h0 : w k = valuesOfEvs (e :: rest) 0 := by simpa using h 0 (by simp)
    have hr : ∀ j, j < rest.length → w (k + 1 + j) = valuesOfEvs rest j := by
      intro j hj
      have := h (j + 1) (by simpa using hj)
      rw [valuesOfEvs_succ] at this
      rw [← this]
      congr 1
      omega
    simp only [List.map_cons, withValuesEvs]
    rw [h0, Ev.erase_withValue_self, ih (k + 1) hr]

theorem valuesOfItems_succ (it : Item) (rest : List Item) (i j : Nat) :
    valuesOfItems (it :: rest) (i + 1) j = valuesOfItems rest i j := by
  simp [valuesOfItems]

theorem withValuesItems_valuesOf (items : List Item) (k : Nat) (w : Nat → Nat → Option Nat)
    (h : ∀ i j, i < items.length → w (k + i) j = valuesOfItems items i j) :
    withValuesItems w k (items.map Item.erase) = items := by
  induction items generalizing k with
  | nil => rfl
  | cons it rest ih =>
    have hr : ∀ i j, i < rest.length → w (k + 1 + i) j = valuesOfItems rest i j := by
      intro i j hi
      have := h (i + 1) j (by simpa using hi)
      rw [valuesOfItems_succ] at this
      rw [← this]
      congr 1
      omega
    simp only [List.map_cons, withValuesItems]
    rw [ih (k + 1) hr]
    congr 1
    cases it with
    | region evs =>
      simp only [Item.erase, Item.withValues]
      congr 1
      apply withValuesEvs_valuesOf
      intro j _
      have := h 0 j (by simp)
      simpa [valuesOfItems] using this
    | table cells => rfl
    | inst cell ic ir => rfl

/-- A synthesis is its erased form with its own values put back. -/
theorem withValuesItems_self (items : List Item) :
    withValuesItems (valuesOfItems items) 0 (items.map Item.erase) = items :=
  withValuesItems_valuesOf items 0 _ (by intro i j _; simp)

/-! ### copy pairs -/

theorem copyPair_erase (a : Abs) : a.erase.copyPair = a.copyPair := by
  cases a <;> rfl

theorem copyPairs_erase (cs : List Abs) : copyPairs (cs.map Abs.erase) = copyPairs cs := by
  simp only [copyPairs, List.filterMap_map]
  congr 1
  funext a
  exact copyPair_erase a

theorem copyPair_keygenRelevant (a : Abs) (p : ACell × ACell) (h : a.copyPair = some p) :
    a.keygenRelevant = true := by
  cases a <;> simp [Abs.copyPair] at h <;> rfl

theorem copyPairs_keygenView (cs : List Abs) : copyPairs (keygenView cs) = copyPairs cs := by
  induction cs with
  | nil => rfl
  | cons a rest ih =>
    simp only [copyPairs, keygenView] at ih ⊢
    by_cases hk : a.keygenRelevant = true
    · simp only [List.filter_cons, hk, ite_true, List.filterMap_cons]
      rw [ih]
    · have hn : a.copyPair = none := by
        cases hc : a.copyPair with
        | none => rfl
        | some p => exact absurd (copyPair_keygenRelevant a p hc) hk
      simp only [List.filter_cons, hk, List.filterMap_cons, hn]
      simpa using ih

/-- The canonical pair of a `copy` call states the same equation. -/
theorem copyPair_copy (asg : ACell → Nat) (c1 : Col) (r1 : Nat) (c2 : Col) (r2 : Nat) :
    ∃ p, (Abs.copy c1 r1 c2 r2).copyPair = some p ∧ (asg p.1 = asg p.2 ↔ asg (c1, r1) = asg (c2, r2)) := by
  simp only [Abs.copyPair]
  by_cases h : ACell.le (c1, r1) (c2, r2) = true
  · exact ⟨((c1, r1), (c2, r2)), by simp [h], Iff.rfl⟩
  · exact ⟨((c2, r2), (c1, r1)), by simp [h], ⟨fun e => e.symm, fun e => e.symm⟩⟩

end MidnightZK.C09
