CHECK = {
    "lean_module": "MidnightZK.Props.C10",
    "harness": "h-c10",
    "translators": ["c10_constants"],
    "level": "proof",
    "technique": "kernel-evaluated constant theorems over source-parsed constants + limb-level Montgomery proofs (omega carry chains, Mathlib ModEq) + Lucas primality certificate; value and limb correspondence vs Nat arithmetic",
    "rule": "prime fields {BLS12-381 Fq, Fp, Jubjub Fr, Curve25519 Fp/Scalar, secp256k1 Fp/Fq, BN254 Fq/Fr} x operand classes "
            "{0, 1, 2, 3, -1, -2, (p±1)/2, R, R^2, R^3, -R, limbs all-ones, 2^64k-1/2^64k/2^64k+1, band [p-2^64, p), random} "
            "x all pairs for add/sub/mul, all unary ops, pow with boundary exponents, decoders at and around the modulus, "
            "64/48-byte uniform patterns; limb-level: raw (also non-canonical) limb vectors x all pairs for the pure-Rust "
            "Montgomery code; towers: coefficient vectors over boundary classes. Non-trivial = involves a random or band operand; "
            "distinctness by hash of the request line",
    "explanation": "Lean theorems: every published constant satisfies its defining equation (kernel evaluation over constants "
                   "re-parsed from the Rust sources on every run); the limb-level Montgomery reduce/mul/add/sub/neg/from_u512 of the "
                   "pure-Rust fields equal arithmetic mod p for all limb values; tower formulas equal products in the quotient ring; "
                   "the BLS scalar modulus is prime. The model is tied to the code by running every public field operation of every "
                   "exported field type on boundary classes and comparing with the model, value by value and limb by limb",
    "trusted_base": [
        "blst field routines (C/assembly), k256, curve25519-dalek and halo2derive-generated arithmetic: specified as arithmetic mod p, checked by correspondence only",
        "python translator translators/c10_constants.py (prints the literals of the Rust sources; cross-checked against the running constants by `const` lines)",
    ],
    "assumptions": [
        "primality of every modulus other than the BLS12-381 scalar modulus is not proved (hypothesis where a theorem needs it)",
    ],
    "level_text": "Kernel-checked Lean theorems about source-parsed constants and an executable limb-level model of the pure-Rust Montgomery arithmetic, tower formulas and codecs (all limb values / all field elements), with the model checked against every exported field type on every run",
    "level_note": "Trusted: Lean kernel, translator, harness and driver; blst/k256/dalek/halo2derive internals are modelled as arithmetic mod p and compared on boundary classes, not verified",
    "timeout": {"quick": 600, "thorough": 3000, "search": 900},
}
