CHECK = {
    "lean_module": "MidnightZK.Props.C10",
    "harness": "h-c10",
    "translators": ["c10_constants", "c10_k256_wrapper"],
    "level": "proof",
    "technique": "kernel-evaluated constant theorems over source-parsed constants + limb-level Montgomery proofs (omega carry chains, Mathlib ModEq) + Lucas primality certificate; "
                 "for-all-lists theorems for the batched entry points (fold = sum/product mod p by induction; Montgomery's batch-inversion trick = element-wise inversion over any field by induction + grind; "
                 "closed forms of repeated in-place operations); magnitude/normalisation model of the k256 wrapper over a source-parsed table of its method bodies; "
                 "ring-level proof of the p = 5 mod 8 square root; value, limb and long-list correspondence vs Nat arithmetic",
    "rule": "prime fields {BLS12-381 Fq, Fp, Jubjub Fr, Curve25519 Fp/Scalar, secp256k1 Fp/Fq, BN254 Fq/Fr} x operand classes "
            "{0, 1, 2, 3, -1, -2, (p±1)/2, R, R^2, R^3, -R, limbs all-ones, 2^64k-1/2^64k/2^64k+1, band [p-2^64, p), random} "
            "x all pairs for add/sub/mul, all unary ops, pow with boundary exponents (also 5..64-limb exponents), decoders at and around the modulus, "
            "64/48-byte uniform patterns; batched: Sum, Sum<&T>, Product, Product<&T>, BatchInvert, BatchInverter x list classes "
            "{all p-1, all limbs-all-ones, alternating 1/p-1, alternating 0/R, alternating p-1/p-2, random (LCG)} x lengths "
            "{0,1,2,3,8,9,255,256,257,2047,2048,2049,4095,4096,4097,5000,8192,10000} (all lengths for the k256/dalek/curve25519 types in every tier, "
            "a subset containing 2049, 4097, 5000 for the others in the quick tier); in-place chains (+=, -=, *= by value and by reference, double, square, neg, invert, "
            "interleaved, up to 5000 steps / 10000 in the thorough tier, only the final value is read); un-normalised secp256k1 wrapper values "
            "(results of invert/sqrt/sqrt_ratio/conditional_select/random, and lazily accumulated k256 elements of magnitude 2, 3, 8 injected through From<k256::FieldElement> - regression of the fixed finding k256.Fp:from-unnormalized) x every predicate/comparison/encoder/operator; "
            "limb-level: raw (also non-canonical) limb vectors x all pairs for the pure-Rust Montgomery code; towers: coefficient vectors over boundary classes, "
            "Sum/Product of the six extension types over lists up to 5000 vs the fold. Non-trivial = involves a random or band operand, or a list/chain; "
            "distinctness by hash of the request line",
    "explanation": "Lean theorems: every published constant satisfies its defining equation (kernel evaluation over constants "
                   "re-parsed from the Rust sources on every run); the limb-level Montgomery reduce/mul/add/sub/neg/from_u512 of the "
                   "pure-Rust fields equal arithmetic mod p for all limb values; tower formulas equal products in the quotient ring; "
                   "the BLS scalar modulus is prime; Sum/Product folds equal the sum/product of the integers mod p for every list; ff's batch inversion "
                   "(Montgomery's trick, mirrored loop by loop) equals element-wise inversion over any field for every list; repeated in-place add/mul/double/square "
                   "have their closed forms; every method body of k256/base_field.rs (re-parsed on every run) keeps the magnitude <= 1 / predicates-on-normalised-values "
                   "discipline (the constructor From<k256::FieldElement> normalises a caller-supplied lazy element of any magnitude since the fix /repo 0cce575; the pinned body is shown unsafe by pinned_k256_from_unnormalized_defect), and the normalising Sum never exceeds magnitude 1 while a lazy Sum fails exactly from 2048 terms; "
                   "the curve25519 square root squares to its input given Euler's criterion and the kernel-checked constant 4*T_SQRT^4 = -1. "
                   "The model is tied to the code by running every public field operation of every exported field type — including the batched entry points on lists "
                   "that cross k256's magnitude budget (2047) and limb wrap (~4096), and in-place chains without intermediate serialisation — and comparing with the model "
                   "value by value, limb by limb and list by list; each batched answer is also checked against a BigUint model inside the harness so that a failure is reported with its failing input. "
                   "The body classification of the k256 wrapper is deliberately tight: renaming closure variables, normalize_weak instead of normalize, and Sum<&T> delegating to Sum<T> are accepted; "
                   "any other rewrite of a method body is flagged for review (theorem k256_wrapper_normalisation_discipline fails; VIOLATION without failing input if the behaviour is unchanged)",
    "trusted_base": [
        "blst field routines (C/assembly), k256, curve25519-dalek and halo2derive-generated arithmetic: specified as arithmetic mod p, checked by correspondence only; "
        "k256's magnitude rules (field_impl.rs debug layer) are hand-modelled in Model/C10/Batch.lean and exercised through the debug assertions the harness profile keeps on",
        "ff-0.13 BatchInvert/BatchInverter: hand-mirrored in Lean (batchInvGen), compared on every list class/length",
        "python translators translators/c10_constants.py (prints the literals of the Rust sources; cross-checked against the running constants by `const` lines) "
        "and translators/c10_k256_wrapper.py (regex classification of the method bodies of k256/base_field.rs; anything unrecognised is emitted as `unknown`)",
    ],
    "assumptions": [
        "primality of every modulus other than the BLS12-381 scalar modulus is not proved (hypothesis where a theorem needs it; Euler's criterion is a hypothesis of c25519_sqrt_spec_partial)",
        "batch_invert_spec is stated over an abstract field; its instance modulo p is the executable model compared with the implementation, not a theorem (needs primality)",
    ],
    "level_text": "Kernel-checked Lean theorems about source-parsed constants, an executable limb-level model of the pure-Rust Montgomery arithmetic, tower formulas and codecs "
                  "(all limb values / all field elements), the batched entry points (Sum/Product/batch inversion for all lists, in-place chains of any length) and the normalisation discipline of the "
                  "secp256k1 wrapper (method bodies re-parsed from the source), with the model checked against every exported field type on every run, including long lists and chains that cross the "
                  "lazy-reduction thresholds of the wrapped crates",
    "level_note": "Trusted: Lean kernel, translators, harness and driver; blst/k256/dalek/halo2derive internals are modelled as arithmetic mod p (k256 additionally by its magnitude rules) and compared on "
                  "boundary classes and list lengths, not verified; Bernstein-Yang inversion/Jacobi (ff_ext) are compared as black boxes (invert, legendre) only; primality of moduli other than the BLS scalar is assumed",
    "timeout": {"quick": 600, "thorough": 3000, "search": 900},
}
