CHECK = {
    "lean_module": "MidnightZK.Props.C10",
    "harness": "h-c10",
    "translators": ["c10_constants", "c10_k256_wrapper"],
    "level": "proof",
    "technique": "kernel-evaluated constant theorems over source-parsed constants + limb-level Montgomery proofs (omega carry chains, Mathlib ModEq) + Lucas primality certificate; "
                 "for-all-lists theorems for the batched entry points (fold = sum/product mod p by induction; Montgomery's batch-inversion trick = element-wise inversion over any field by induction + grind; "
                 "closed forms of repeated in-place operations); magnitude/normalisation model of the k256 wrapper over a source-parsed table of its method bodies; "
                 "ring-level proof of the p = 5 mod 8 square root and of its branch structure; "
                 "Bernstein-Yang inversion: executable mirrors at chunk level (62-bit two's-complement carry chains) and at value level, loop invariants by induction over the fuel "
                 "(matrix invariant of jump: rows annihilate (f, g) mod 2^62 and det = 2^62; exactness of fg/de; d*x = f*A, e*x = g*A mod M preserved) with Mathlib's ring/linear_combination; "
                 "Jacobi: executable mirror of approximate/inner loop/jacobinary and bit-level lemmas for the sign accumulator; carry-aware (curve25519) Montgomery reduction/multiplication/addition "
                 "proved for every odd modulus below 2^256 (omega carry chains); value, limb, long-list and LOOP-STATE correspondence vs the real code",
    "rule": "prime fields {BLS12-381 Fq, Fp, Jubjub Fr, Curve25519 Fp/Scalar, secp256k1 Fp/Fq, BN254 Fq/Fr} x operand classes "
            "{0, 1, 2, 3, -1, -2, (p±1)/2, R, R^2, R^3, -R, limbs all-ones, 2^64k-1/2^64k/2^64k+1, band [p-2^64, p), random} "
            "x all pairs for add/sub/mul, all unary ops, pow with boundary exponents (also 5..64-limb exponents), decoders at and around the modulus, "
            "64/48-byte uniform patterns; batched: Sum, Sum<&T>, Product, Product<&T>, BatchInvert, BatchInverter x list classes "
            "{all p-1, all limbs-all-ones, alternating 1/p-1, alternating 0/R, alternating p-1/p-2, random (LCG)} x lengths "
            "{0,1,2,3,8,9,255,256,257,2047,2048,2049,4095,4096,4097,5000,8192,10000} (all lengths for the k256/dalek/curve25519 types in every tier, "
            "a subset containing 2049, 4097, 5000 for the others in the quick tier); in-place chains (+=, -=, *= by value and by reference, double, square, neg, invert, "
            "interleaved, up to 5000 steps / 10000 in the thorough tier, only the final value is read); un-normalised secp256k1 wrapper values "
            "(results of invert/sqrt/sqrt_ratio/conditional_select/random, and lazily accumulated k256 elements of magnitude 2, 3, 8 injected through From<k256::FieldElement> - regression of the fixed finding k256.Fp:from-unnormalized) x every predicate/comparison/encoder/operator; "
            "limb-level: raw (also non-canonical) limb vectors x all pairs for the pure-Rust Montgomery code; towers: coefficient vectors over boundary classes, "
            "Sum/Product of the six extension types over lists up to 5000 vs the fold; "
            "Bernstein-Yang inverter BYInverter<L> (L = 6 with the moduli of curve25519 Fp [the instance of Fp::invert, adjusters R2, R, 1], BLS12-381 Fq, Jubjub Fr, secp256k1 Fp and a composite; L = 8 with BLS12-381 Fp; L = 2 with 59-bit and composite moduli) "
            "x arguments {0, 1, 2, 3, m-1, m-2, (m±1)/2, R, R^2, m, m+1, 2m±1, all-ones, 2^k, 2^k±1, 2^62k, 2^62k-1, the INVERSES of 2^k and 2^k±1 (results with extreme limbs), multiples of the factors of the composite moduli, "
            "the arguments needing the most batches among 3000 (quick) / 60000 (thorough) seeded tries, random} with EVERY loop state (delta, matrix, f, g, d, e) after each batch compared chunk by chunk (request `by invert`) and as signed integers (`byv invert`); "
            "the private jump / fg / de / norm / new(convert, inv) driven directly on boundary chunks, deltas in {0, ±1, 2, 5, ±61, ±62, ±63, ±700, random} and matrices incl. the extreme ones; "
            "jacobi::<L> for curve25519 Fp (L = 5), BLS12-381 Fq (L = 5), Fp (L = 7), composite and small denominators x numerators {0, 1, 2, 3, 4, d-1, d-2, (d±1)/2, 2^k, 2^k-1, d-2^k, squares, random, "
            "numerators whose approximations hide the difference to d, short numerators with > 32 leading zeros in the top chunk, common factors >= 2^64} with every outer-iteration state (n, d, t, a, b, u, v) compared; approximate and jacobinary driven directly. "
            "Non-trivial = involves a random or band operand, or a list/chain, or a Bernstein-Yang/Jacobi request; "
            "distinctness by hash of the request line",
    "explanation": "Lean theorems: every published constant satisfies its defining equation (kernel evaluation over constants "
                   "re-parsed from the Rust sources on every run); the limb-level Montgomery reduce/mul/add/sub/neg/from_u512 of the "
                   "pure-Rust fields equal arithmetic mod p for all limb values; tower formulas equal products in the quotient ring; "
                   "the BLS scalar modulus is prime; Sum/Product folds equal the sum/product of the integers mod p for every list; ff's batch inversion "
                   "(Montgomery's trick, mirrored loop by loop) equals element-wise inversion over any field for every list; repeated in-place add/mul/double/square "
                   "have their closed forms; every method body of k256/base_field.rs (re-parsed on every run) keeps the magnitude <= 1 / predicates-on-normalised-values "
                   "discipline (the constructor From<k256::FieldElement> normalises a caller-supplied lazy element of any magnitude since the fix /repo 0cce575; the pinned body is shown unsafe by pinned_k256_from_unnormalized_defect), and the normalising Sum never exceeds magnitude 1 while a lazy Sum fails exactly from 2048 terms; "
                   "the curve25519 square root squares to its input given Euler's criterion and the kernel-checked constant 4*T_SQRT^4 = -1, returns None exactly when a0 = -1 and Some(0) for 0; the Jubjub square root returns only values that square to the input; "
                   "the carry-aware Montgomery reduce/mul/add/from_uniform_bytes of curve25519::Fp equal arithmetic mod p for all limb values (any odd modulus < 2^256, no 2M <= 2^256 restriction), R2/R3 kernel-checked; "
                   "Bernstein-Yang inversion (ff_ext/inverse.rs): for every input of jump the returned matrix annihilates (f, g) modulo 2^62 and has determinant 2^62; fg divides exactly and de adds the multiple of M that makes its combination divisible by 2^62, for every matrix; "
                   "one batch preserves d*x = f*A, e*x = g*A (mod M); hence (invert_spec_partial) whenever the loop ends with g = 0, f = ±1 the result r satisfies r*x = A (mod M), and norm maps (-2M, M) into [0, M); the inverse-mod-2^62 constant of the curve25519 instance is kernel-checked. "
                   "NOT proved: termination of the Bernstein-Yang loop with f = ±1 (hypothesis: the model returns a value), the range (-2M, M) of d/e (checked by the harness on every logged state of the real code), and the equality of the chunk-level carry chains with the value level (both are compared with every real loop state). "
                   "Jacobi symbol (ff_ext/jacobi.rs): the four updates of the sign accumulator flip bit 1 exactly under the conditions of the supplements and of reciprocity (jacobi_sign_rules); that the whole algorithm computes the Jacobi symbol is NOT proved - it is compared, state by state, with the model and checked against a BigUint Jacobi symbol and Euler's criterion in the harness. "
                   "The model is tied to the code by running every public field operation of every exported field type — including the batched entry points on lists "
                   "that cross k256's magnitude budget (2047) and limb wrap (~4096), and in-place chains without intermediate serialisation — and comparing with the model "
                   "value by value, limb by limb and list by list; each batched answer is also checked against a BigUint model inside the harness so that a failure is reported with its failing input. "
                   "The body classification of the k256 wrapper is deliberately tight: renaming closure variables, normalize_weak instead of normalize, and Sum<&T> delegating to Sum<T> are accepted; "
                   "any other rewrite of a method body is flagged for review (theorem k256_wrapper_normalisation_discipline fails; VIOLATION without failing input if the behaviour is unchanged)",
    "trusted_base": [
        "blst field routines (C/assembly), k256, curve25519-dalek and halo2derive-generated arithmetic: specified as arithmetic mod p, checked by correspondence only; "
        "k256's magnitude rules (field_impl.rs debug layer) are hand-modelled in Model/C10/Batch.lean and exercised through the debug assertions the harness profile keeps on",
        "ff-0.13 BatchInvert/BatchInverter: hand-mirrored in Lean (batchInvGen), compared on every list class/length",
        "Model/C10/BY.lean and Model/C10/Jacobi.lean are hand-written mirrors of ff_ext/inverse.rs and ff_ext/jacobi.rs; the tie is the loop-state correspondence through the observe-only logs of /repo 66a4bbc "
        "(verif_by_log_*, verif_jacobi_log_*, wrappers verif_jump/verif_fg/verif_de/verif_norm/verif_parts/verif_jacobinary/verif_approximate); convert is modelled by value (bit regrouping), the i64 matrix entries as exact integers "
        "(the harness profile has overflow checks on)",
        "python translators translators/c10_constants.py (prints the literals of the Rust sources; cross-checked against the running constants by `const` lines) "
        "and translators/c10_k256_wrapper.py (regex classification of the method bodies of k256/base_field.rs; anything unrecognised is emitted as `unknown`)",
    ],
    "assumptions": [
        "primality of every modulus other than the BLS12-381 scalar modulus is not proved (hypothesis where a theorem needs it; Euler's criterion is a hypothesis of c25519_sqrt_spec_partial)",
        "batch_invert_spec is stated over an abstract field; its instance modulo p is the executable model compared with the implementation, not a theorem (needs primality)",
        "invert_spec_partial assumes that the Bernstein-Yang loop ends (g = 0, f = ±1) within the fuel; the iteration bound is not proved",
    ],
    "level_text": "Kernel-checked Lean theorems about source-parsed constants, an executable limb-level model of the pure-Rust Montgomery arithmetic, tower formulas and codecs "
                  "(all limb values / all field elements), the batched entry points (Sum/Product/batch inversion for all lists, in-place chains of any length) and the normalisation discipline of the "
                  "secp256k1 wrapper (method bodies re-parsed from the source), with the model checked against every exported field type on every run, including long lists and chains that cross the "
                  "lazy-reduction thresholds of the wrapped crates; Bernstein-Yang inversion and the Jacobi symbol (ff_ext) are inside the model: executable mirrors whose every loop state is compared with the real code, "
                  "the batch/matrix invariants and the partial specification of invert proved, the sign rules of jacobi proved; the carry-aware Montgomery code of curve25519::Fp proved like the other pure-Rust fields",
    "level_note": "Trusted: Lean kernel, translators, harness and driver; blst/k256/dalek/halo2derive internals are modelled as arithmetic mod p (k256 additionally by its magnitude rules) and compared on "
                  "boundary classes and list lengths, not verified; Bernstein-Yang: termination and the (-2M, M) range are hypotheses / harness oracles, the chunk level is tied to the proved value level by correspondence only; Jacobi: only the sign rules are proved, the result is compared with an independent BigUint computation; "
                  "BLS12-381 Fq::sqrt (ff's Tonelli-Shanks helper) is compared as a black box; primality of moduli other than the BLS scalar is assumed (Euler's criterion is a hypothesis of the square-root theorems)",
    "timeout": {"quick": 600, "thorough": 3000, "search": 900},
}
