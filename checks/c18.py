# Operations of zkir/src/instructions/operations/*.rs and their Lean mirrors (both semantics).
# The list of files / functions is regenerated from the directory on every run (Gen.opSources) and
# pinned by theorem `operation_sources_all_mirrored`; the Lean names are resolved by Lean (table
# `mirrors` in Props/C18.lean); the dispatch of both `process_instruction`s (which function, which
# inputs, in which order) is regenerated and pinned by `dispatch_matches_source`.
#
#   operation (file)        off-circuit (Rust -> Lean)                      in-circuit (Rust -> Lean, gadget level)
#   load                    load_offcircuit/check_loadable -> loadOff, getT load_incircuit/convert_values -> loadCVal, assignBoundedShape
#   publish                 as_public_input -> encodeOne / encodePI         publish_incircuit -> publishIn, publishAll (+ get_type -> CVal.type)
#   assert_equal            derived PartialEq -> opOff (.assertEq)          assert_equal_incircuit -> comparableIn + cmpCalls (gadget calls laid out)
#   assert_not_equal        derived PartialEq -> opOff (.assertNe)          assert_not_equal_incircuit -> comparableIn + cmpCalls
#   is_equal                derived PartialEq -> opOff (.isEq)              is_equal_incircuit -> comparableIn + bytesIsEqualIn / bytesIsEqualCalls / cmpCalls
#   (zkir.rs)               -                                               used_chips -> usedChips; constants.rs parse_bool -> parseConst (one-character branch)
#   add                     add_offcircuit -> addOff                        add_incircuit -> addIn, addShape (addBounds, normalizeShape)
#   sub                     sub_offcircuit -> subOff                        sub_incircuit -> subIn, subShape
#   mul                     mul_offcircuit -> mulOff                        mul_incircuit -> mulIn, mulShape (mulRows)
#   neg                     neg_offcircuit -> negOff                        neg_incircuit -> negIn
#   mod_exp                 mod_exp_offcircuit -> modExpOff (powMod)        mod_exp_incircuit -> modExpIn, modExpShape (modExpLoop, divRemShape)
#   inner_product           inner_product_offcircuit -> innerProductOff     inner_product_incircuit -> innerProductIn, ipFoldIn, msmFold
#   affine_coordinates      affine_coordinates_offcircuit -> affineOff      affine_coordinates_incircuit -> affineIn
#   into_bytes              IrValue::into_bytes -> intoBytesOff             into_bytes_incircuit -> intoBytesIn   (Native, BigUint, JubjubPoint)
#   from_bytes              IrValue::from_bytes -> fromBytesOff             from_bytes_incircuit -> fromBytesIn, fromBytesShape (Native, BigUint, JubjubPoint, JubjubScalar)
#   poseidon                poseidon_offcircuit -> opOff + H.poseidon       poseidon_incircuit -> opIn + H.poseidon (uninterpreted, same function)
#   sha256 / sha512         sha*_offcircuit -> opOff + H.sha*               sha*_incircuit -> opIn + H.sha*        (uninterpreted, same function)
# There is no comparison (LessThan), cond_select, div_mod_power_of_two, hash_to_curve or transient /
# persistent operation in this version of the crate: 17 operations, all mirrored.
CHECK = {
    "lean_module": "MidnightZK.Props.C18",
    "harness": "h-c18",
    "translators": ["c18_tables", "c18_serde"],
    "level": "proof",
    "technique": "executable model of both ZKIR interpreters + simulation proof (with an invariant bounding every in-circuit "
                 "BigUint by its limb bounds, which makes format_instance total) + three-way differential run with "
                 "per-instruction off-circuit values, per-instruction in-circuit types and, for every comparison instruction, the "
                 "number of native is_equal / assert_equal gadget regions the real synthesis lays out (region names recorded by an "
                 "Assignment backend of the harness, prefix differencing); arms of the three comparison functions regenerated from the "
                 "sources and pinned; dishonest-witness / forged-public-input search on "
                 "wrap-around pairs for every comparison on every type; dispatch tables and the list of "
                 "operation sources regenerated from the Rust sources; "
                 "executable models of the bincode decoder and of the serde JSON reader/writer + round-trip, injectivity and "
                 "canonical-form proofs + decoder correspondence on mutated encodings",
    "rule": "one request per ZKIR program+witness: hand-written boundary programs (regressions of every repaired defect), "
            "seeded random straight-line programs of length 1..25 over all 17 operations and 6 value types with dataflow reuse, "
            "constants and publication of every type, their ill-formed variants (wrong arity, duplicate / missing names, "
            "retargeted inputs, malformed constants, missing / ill-typed / out-of-range witnesses); non-trivial = at least 2 "
            "instructions; distinctness by hash of the request line; every `run` line also carries the in-circuit type of the outputs of "
            "every instruction (section shp), the gadget calls of every comparison (section ieq) and the chip switches of "
            "used_chips (section arch); batch compare-wrap: IsEqual+Publish / AssertNotEqual / AssertEqual on Bytes(n), n in "
            "{1,2,31,32,33,64}, BigUint(8..400), Native, Bool, JubjubPoint on pairs of DIFFERENT values that a lossy comparison "
            "would identify (x and x + k*p as little-endian bytes, 0 and the bytes of p, p-1 and 2p-1, differences of 2^248 / "
            "2^255 / 2^256 / the limb base 2^96, first byte only, last byte only, one random bit; G and -G) next to equal pairs, and "
            "FromBytes / IntoBytes round trips on non-canonical 32- and 33-byte strings (p, p+-1, 2^255+-.., all ones); "
            "7 of every 25 random programs bind variables whose names are valid constant literals (c0, beef, b0, 0, 1, ff, 00, "
            "0xab, cafe01) by Load and as operation outputs and use them as inputs afterwards (counted in the distribution). "
            "Serialisation: one `dec` request per byte string "
            "(bytes of the real encoder and of a fault-injecting encoder: valid, truncated, extended, flipped / set / inserted "
            "bytes, over-wide integers, u128 / reserved markers, out-of-range variant indices, over-long lengths around the "
            "limit, boundary payloads 0 / 250 / 251 / 2^16 / 2^32 / 2^64-1, empty / multi-byte / ill-formed UTF-8 names, wrong "
            "arities) and one `json` request per JSON tree (the tree of the real serialiser and its mutants: keys reordered / "
            "removed / duplicated / added, structs as arrays, unit variants as objects and back, unknown / wrong-case variant "
            "names, two-key and empty variant objects, negative / out-of-range / floating / quoted numbers, wrong node kinds)",
    "explanation": "Lean theorems about an executable model of the ZKIR loader, the off-circuit interpreter, the in-circuit "
                   "interpreter at gadget level (shapes, honest values, satisfiability, bound public inputs), public-input "
                   "encoding and the binary program format; every line compares the model with the real code on: loader verdict, "
                   "per-instruction off-circuit trace (input and output values), off-circuit verdict with failing position and "
                   "error class, in-circuit compilation verdict with the recorded public-input types (BigUint limb-bound "
                   "bookkeeping), the in-circuit type of the outputs of EVERY instruction (section shp: one witness-free pass over "
                   "the program with `Publish <outputs>` inserted after each instruction, so that the limb bookkeeping of a value "
                   "that is consumed but never published is compared too), for every AssertEqual / AssertNotEqual / IsEqual instruction k the "
                   "number of regions named `is_equal (i)` (native_chip.rs: is_equal) and `Assert equal` that the instruction itself lays "
                   "out in the real witness-free synthesis (section ieq: regions of prog[..=k] minus regions of prog[..k], recorded through "
                   "the public Assignment trait; the model predicts n / n for IsEqual on Bytes(n), n / n+1 for AssertNotEqual, 0 / n for "
                   "AssertEqual, limb count for BigUint, 2 for points, 1 for Native, 0 for Bool: a comparison done through fewer gadget "
                   "calls, e.g. one packed field element instead of n bytes, changes the line; deliberately tight: a re-implementation "
                   "of a comparison with other gadgets - or a renaming of these two region names in native_chip.rs - fires even if sound), the chip switches of used_chips (section arch), raw public inputs, mock-checker verdict on the compiled circuit, bytes of write_relation, JSON "
                   "text of the derived Serialize; the harness checks the property's oracle directly on the real code (no panic, "
                   "off-circuit success => circuit satisfied with encode(P) AND not satisfied when a published Boolean of the instance "
                   "is flipped or when the first / last raw instance value is moved by one (forged public input, same witness; skipped for "
                   "programs of finding N7), off-circuit failure => circuit not satisfied, API "
                   "consistency, JSON and binary round trips). Proved about the two interpreters: off_in_agree_partial, "
                   "off_fail_unsat_partial (hypothesis RunRegular = finding N7 only), typing_errors_agree (an off-circuit rejection "
                   "that is not a witness condition is an error VALUE in-circuit too; an in-circuit error other than the comparison "
                   "gap / a limb-bookkeeping panic is an off-circuit rejection; only witness conditions end in a violated "
                   "constraint), off_in_agree_public_inputs_partial (format_instance SUCCEEDS and returns the bound public inputs: "
                   "the hypothesis `format_instance returns a value` of off_in_agree_partial is discharged by the invariant that "
                   "every BigUint of the in-circuit memory is bounded by its limb bounds - sums, products, differences, remainders, "
                   "byte conversions, loads, constants), dispatch_matches_source and operation_sources_all_mirrored (the arms of "
                   "both process_instruction functions and the functions of instructions/operations/, parsed on every run), "
                   "bytes_is_equal_sound (the per-byte conjunction of is_equal_incircuit returns v = w for every length, n gadget "
                   "calls), is_equal_in_bytes_is_bytewise (the model's IsEqual on bytes is that conjunction), "
                   "compare_bytes_lays_out_one_call_per_byte (the ieq line of Load Bytes(n); compare, for every n), "
                   "compare_biguint_lays_out_one_call_per_limb (ceil(nb/96) calls for every width), compare_fixed_size_types_layout, "
                   "comparison_arms_match_source (the arms of the three in-circuit comparisons - operand pairs, guards, gadget methods "
                   "and iterator adaptors in order - parsed from assert_equal.rs / assert_not_equal.rs / is_equal.rs on every run; "
                   "deliberately tight: a rewritten arm fires even if sound), "
                   "packed_compare_unsound_from_32 (for every n >= 32 two different n-byte arrays - bytes of p, zeros - that a "
                   "comparison of the packed native elements identifies) and packed_compare_sound_up_to_31 (why shorter arrays "
                   "cannot show it), used_chips_cover_program (every chip an instruction or a Jubjub constant needs is switched on). "
                   "Serialisation (last clause of the property): Lean models of "
                   "read_relation (bincode 2 standard configuration: varints, u32 variant indices, length-prefixed vectors and "
                   "UTF-8 strings, the claim/unclaim accounting of the 2^24-byte limit, trailing bytes left unread, then the arity "
                   "check) and of ZkirRelation::read at the level of the serde data model (structs from objects or arrays, "
                   "defaults, duplicate / unknown / missing keys, externally tagged enums, integer ranges). Proved: decoding the "
                   "encoder's bytes followed by anything returns the program and the rest (decode_encode_bin, read_write_relation, "
                   "for every compiled size and limit, under the explicit limit bound), programs beyond the limit are rejected "
                   "(decode_rejects_beyond_limit), the encoder is injective, the decoder accepts exactly the canonical encodings "
                   "plus over-wide integers (decode_canonical_partial + witness decode_not_canonical; as an equivalence: "
                   "decode_strict_iff_encoder_output - the strict decoder accepts bs with result (p, rest) iff bs = write_relation(p) "
                   "++ rest; a byte string accepted only by the real decoder is a canonicity observation - the serialized relation "
                   "is malleable in the width of its integers - not a round-trip violation and not recorded as a defect: nothing "
                   "in the repository compares or hashes relation bytes that were read rather than written), fromJson (toJson p) "
                   "= p (fromJson_toJson), also for the trees that leave out the serde-default fields `inputs` / `outputs` when "
                   "empty and for the positional form (fromJson_defaults, all 17 variants; reader more liberal than writer: "
                   "fromJson_not_injective). Tied on every run: for each `dec` "
                   "line (oracle: a program returned by read_relation must be accepted by from_instructions, and evaluating a "
                   "relation read from bytes must not panic) the real read_relation and the model must agree on the verdict class, the decoded program (names as "
                   "bytes), the number of unread bytes and on whether re-encoding with write_relation gives the consumed bytes "
                   "back (= the strict model decoder accepts); for each `json` line the real ZkirRelation::read on the rendered "
                   "text and the model on the tree must agree on the error class or the program. Variant order, payload integer "
                   "types, serde names / field names / defaults and the decoding limit are parsed from the sources by the "
                   "translators on every run and pinned by theorems; the translator c18_serde is deliberately tight: it stops "
                   "when write_relation / read_relation / read no longer have the literal bincode / serde_json calls it knows, or "
                   "when a serde attribute it does not model appears; c18_tables stops when the arms of process_instruction are "
                   "no longer the variants of Operation in declaration order. Deliberately tight: dispatch_matches_source fires "
                   "on a re-ordered / renamed call inside an arm even if behaviour is unchanged (inputs are compared as the "
                   "literal index expressions)",
    "trusted_base": [
        "gadgets of midnight-circuits / zk_stdlib are taken at their specification at the gadget boundary (properties C04-C07): "
        "the in-circuit model says what each compiled ZKIR operation computes and constrains, not how rows are laid out - except "
        "for the three comparison operations, whose native is_equal / assert_equal region counts are predicted and compared",
        "SHA-256, SHA-512 and Poseidon are uninterpreted functions of the model (the harness passes the digests observed "
        "off-circuit in the request; the in-circuit chips are assumed to compute the same functions: C07)",
        "bincode 2.0.1 and serde / serde_json are third-party code modelled from their sources (decoder, derived impls, limit "
        "accounting; JSON at tree level: text syntax, escapes and number lexing are serde_json's) and compared with the real "
        "libraries on every run, not verified; MockProver as the satisfiability oracle of the compiled circuit",
        "UTF-8 validity is Lean core's `ByteArray.IsValidUTF8` (String.fromUTF8?), compared with Rust's String::from_utf8 on "
        "well- and ill-formed names",
    ],
    "assumptions": [
        "Jubjub group law is not proved here: both interpreters call the same model functions for point addition and scalar multiplication",
        "model restrictions on constants: BigUint: payloads are plain hexadecimal digits (no '+', no '_'); names in `run` "
        "requests are ASCII without separators (arbitrary UTF-8 names go through the `dec` / `json` requests)",
        "size_of::<Instruction>() and size_of::<String>() (limit accounting) are reported by the harness in each `dec` request; "
        "the non-vacuity examples use the 64-bit values 72 and 24",
        "off_in_agree_public_inputs_partial: byte arrays of the witness and hash digests hold values below 256 (BytesOK) and "
        "operation payloads fit their Rust integer types (Op.InRange: ModExp(u64)) - automatically true of Rust values",
    ],
    "level_text": "Kernel-checked Lean theorems about an executable model of both ZKIR interpreters (all programs, all witnesses, "
                  "hash functions uninterpreted; agreement of values, of typing errors and of the public-input encoding) and of the binary and JSON readers/writers of programs (round trips, injectivity, "
                  "exact canonical form), with the model compared line by line with the real loader, interpreter, compiler, "
                  "public-input encoder, mock checker, serialisers and deserialisers on generated programs, byte strings and JSON "
                  "trees on every run (per-instruction values off-circuit, per-instruction types and per-comparison gadget calls in-circuit, "
                  "wrap-around pairs with honest and forged public inputs for every comparison), and the dispatch of "
                  "both interpreters regenerated from the sources",
    "level_note": "Trusted: Lean kernel, the correspondence harness and driver; gadget internals below the ZKIR operation level "
                  "(C04-C07) and the hash functions are specified, not verified. off_in_agree / off_fail_unsat are proved as "
                  "`_partial`: hypothesis RunRegular restricts exactly one operation at one type — FromBytes(JubjubScalar) must be "
                  "fed 1..31 bytes (recorded finding N7, negation proved: off_in_agree_fails_for_long_scalars); every program "
                  "without that instruction is covered for all witnesses (runRegular_of_no_scalar_conversion), and for that class "
                  "off_fail_unsat is proved at full strength (off_fail_unsat_no_scalar_conversion); the in-circuit pass may reject "
                  "with a static error (comparison typing gap, negation of full typing agreement proved; BigUint limb-bookkeeping "
                  "panic); typing_errors_agree is proved at full strength for every operation except that recorded gap (error "
                  "value on both sides for every off-circuit rejection that is not a witness condition); format_instance "
                  "succeeding is no longer a hypothesis: off_in_agree_public_inputs_partial proves it (for byte arrays holding "
                  "bytes and ModExp exponents below 2^64, as every Rust value) - it stays `_partial` only for RunRegular and the "
                  "static-rejection alternative. The comparison theorems (bytes_is_equal_sound, packed_compare_*) are about the "
                  "structure of is_equal_incircuit mirrored in the model; that the real code has this structure is tied by the "
                  "region counts (ieq) and by the wrap-around pairs through the mock checker, not proved. Round trips: the binary one "
                  "holds under an explicit bound of the decoder's 2^24-byte allocation limit (programs beyond it are written but "
                  "not read back: decode_rejects_beyond_limit, more than 233016 instructions); canonical form is `_partial`: "
                  "read_relation also accepts over-wide integers (exactly those: strict-decoder theorem, equivalence "
                  "decode_strict_iff_encoder_output + witness; a canonicity observation, not a round-trip violation) and leaves "
                  "trailing bytes unread; the JSON theorem is about trees (serde data model), text syntax is serde_json's; the "
                  "decoder and reader models are of third-party code (bincode, serde) and are tied by correspondence only",
    "timeout": {"quick": 900, "thorough": 3000, "search": 1500},
    "no_thorough": "on 2026-09-30 the thorough tier reported 4 model/implementation differences in 182436 lines on the unchanged tree (long random programs, first at `run load.big.1;;v2 into_bytes.1;v2;v1 ...`, replay work/thorough_C18.log / replays/C18-7fd98e2ede8f.json), found minutes before the end of the session and not yet triaged (model gap or defect); the quick tier (13540 lines) agrees on every seed",
}
