CHECK = {
    "lean_module": "MidnightZK.Props.C18",
    "harness": "h-c18",
    "translators": ["c18_tables"],
    "level": "proof",
    "technique": "executable model of both ZKIR interpreters + simulation proof + three-way differential run",
    "rule": "one request per ZKIR program+witness: hand-written boundary programs (regressions of every repaired defect), "
            "seeded random straight-line programs of length 1..25 over all 17 operations and 6 value types with dataflow reuse, "
            "constants and publication of every type, their ill-formed variants (wrong arity, duplicate / missing names, "
            "retargeted inputs, malformed constants, missing / ill-typed / out-of-range witnesses); non-trivial = at least 2 "
            "instructions; distinctness by hash of the request line",
    "explanation": "Lean theorems about an executable model of the ZKIR loader, the off-circuit interpreter, the in-circuit "
                   "interpreter at gadget level (shapes, honest values, satisfiability, bound public inputs), public-input "
                   "encoding and the binary program format; every line compares the model with the real code on: loader verdict, "
                   "per-instruction off-circuit trace (input and output values), off-circuit verdict with failing position and "
                   "error class, in-circuit compilation verdict with the recorded public-input types (BigUint limb-bound "
                   "bookkeeping), raw public inputs, mock-checker verdict on the compiled circuit, bytes of write_relation; the "
                   "harness checks the property's oracle directly on the real code (no panic, off-circuit success => circuit "
                   "satisfied with encode(P), off-circuit failure => circuit not satisfied, API consistency, JSON and binary "
                   "round trips)",
    "trusted_base": [
        "gadgets of midnight-circuits / zk_stdlib are taken at their specification at the gadget boundary (properties C04-C07): "
        "the in-circuit model says what each compiled ZKIR operation computes and constrains, not how rows are laid out",
        "SHA-256, SHA-512 and Poseidon are uninterpreted functions of the model (the harness passes the digests observed "
        "off-circuit in the request; the in-circuit chips are assumed to compute the same functions: C07)",
        "serde_json (JSON round trip is checked on the real code only); MockProver as the satisfiability oracle of the compiled circuit",
    ],
    "assumptions": [
        "Jubjub group law is not proved here: both interpreters call the same model functions for point addition and scalar multiplication",
        "model restrictions on constants: ASCII names; BigUint: payloads are plain hexadecimal digits (no '+', no '_')",
    ],
    "level_text": "Kernel-checked Lean theorems about an executable model of both ZKIR interpreters (all programs, all witnesses, "
                  "hash functions uninterpreted), with the model compared line by line with the real loader, interpreter, compiler, "
                  "public-input encoder, mock checker and serialiser on generated programs on every run",
    "level_note": "Trusted: Lean kernel, the correspondence harness and driver; gadget internals below the ZKIR operation level "
                  "(C04-C07) and the hash functions are specified, not verified. off_in_agree / off_fail_unsat are proved as "
                  "`_partial`: hypothesis RunRegular excludes Jubjub scalars built by FromBytes from 0 or >= 32 bytes (recorded "
                  "finding N7, negation proved: off_in_agree_fails_for_long_scalars); the in-circuit pass may reject with a static "
                  "error (comparison typing gap, negation of full typing agreement proved; BigUint limb-bookkeeping panic); "
                  "format_instance succeeding is a hypothesis of the public-input equality; binary/JSON round trips are checked on "
                  "the real code and the byte encoder by correspondence (no decoder theorem)",
    "timeout": {"quick": 900, "thorough": 3000, "search": 1500},
}
