CHECK = {
    "lean_module": "MidnightZK.Props.C18",
    "harness": "h-c18",
    "translators": ["c18_tables", "c18_serde"],
    "level": "proof",
    "technique": "executable model of both ZKIR interpreters + simulation proof + three-way differential run; "
                 "executable models of the bincode decoder and of the serde JSON reader/writer + round-trip, injectivity and "
                 "canonical-form proofs + decoder correspondence on mutated encodings",
    "rule": "one request per ZKIR program+witness: hand-written boundary programs (regressions of every repaired defect), "
            "seeded random straight-line programs of length 1..25 over all 17 operations and 6 value types with dataflow reuse, "
            "constants and publication of every type, their ill-formed variants (wrong arity, duplicate / missing names, "
            "retargeted inputs, malformed constants, missing / ill-typed / out-of-range witnesses); non-trivial = at least 2 "
            "instructions; distinctness by hash of the request line. Serialisation: one `dec` request per byte string "
            "(bytes of the real encoder and of a fault-injecting encoder: valid, truncated, extended, flipped / set / inserted "
            "bytes, over-wide integers, u128 / reserved markers, out-of-range variant indices, over-long lengths around the "
            "limit, boundary payloads 0 / 250 / 251 / 2^16 / 2^32 / 2^64-1, empty / multi-byte / ill-formed UTF-8 names, wrong "
            "arities) and one `json` request per JSON tree (the tree of the real serialiser and its mutants: keys reordered / "
            "removed / duplicated / added, structs as arrays, unit variants as objects and back, unknown / wrong-case variant "
            "names, two-key and empty variant objects, negative / out-of-range / floating / quoted numbers, wrong node kinds)",
    "explanation": "Lean theorems about an executable model of the ZKIR loader, the off-circuit interpreter, the in-circuit "
                   "interpreter at gadget level (shapes, honest values, satisfiability, bound public inputs), public-input "
                   "encoding and the binary program format; every line compares the model with the real code on: loader verdict, "
                   "per-instruction off-circuit trace (input and output values), off-circuit verdict with failing position and "
                   "error class, in-circuit compilation verdict with the recorded public-input types (BigUint limb-bound "
                   "bookkeeping), raw public inputs, mock-checker verdict on the compiled circuit, bytes of write_relation, JSON "
                   "text of the derived Serialize; the harness checks the property's oracle directly on the real code (no panic, "
                   "off-circuit success => circuit satisfied with encode(P), off-circuit failure => circuit not satisfied, API "
                   "consistency, JSON and binary round trips). Serialisation (last clause of the property): Lean models of "
                   "read_relation (bincode 2 standard configuration: varints, u32 variant indices, length-prefixed vectors and "
                   "UTF-8 strings, the claim/unclaim accounting of the 2^24-byte limit, trailing bytes left unread, then the arity "
                   "check) and of ZkirRelation::read at the level of the serde data model (structs from objects or arrays, "
                   "defaults, duplicate / unknown / missing keys, externally tagged enums, integer ranges). Proved: decoding the "
                   "encoder's bytes followed by anything returns the program and the rest (decode_encode_bin, read_write_relation, "
                   "for every compiled size and limit, under the explicit limit bound), programs beyond the limit are rejected "
                   "(decode_rejects_beyond_limit), the encoder is injective, the decoder accepts exactly the canonical encodings "
                   "plus over-wide integers (decode_canonical_partial + witness decode_not_canonical), fromJson (toJson p) = p "
                   "(fromJson_toJson; reader more liberal than writer: fromJson_not_injective). Tied on every run: for each `dec` "
                   "line the real read_relation and the model must agree on the verdict class, the decoded program (names as "
                   "bytes), the number of unread bytes and on whether re-encoding with write_relation gives the consumed bytes "
                   "back (= the strict model decoder accepts); for each `json` line the real ZkirRelation::read on the rendered "
                   "text and the model on the tree must agree on the error class or the program. Variant order, payload integer "
                   "types, serde names / field names / defaults and the decoding limit are parsed from the sources by the "
                   "translators on every run and pinned by theorems; the translator c18_serde is deliberately tight: it stops "
                   "when write_relation / read_relation / read no longer have the literal bincode / serde_json calls it knows, or "
                   "when a serde attribute it does not model appears",
    "trusted_base": [
        "gadgets of midnight-circuits / zk_stdlib are taken at their specification at the gadget boundary (properties C04-C07): "
        "the in-circuit model says what each compiled ZKIR operation computes and constrains, not how rows are laid out",
        "SHA-256, SHA-512 and Poseidon are uninterpreted functions of the model (the harness passes the digests observed "
        "off-circuit in the request; the in-circuit chips are assumed to compute the same functions: C07)",
        "bincode 2.0.1 and serde / serde_json are third-party code modelled from their sources (decoder, derived impls, limit "
        "accounting; JSON at tree level: text syntax, escapes and number lexing are serde_json's) and compared with the real "
        "libraries on every run, not verified; MockProver as the satisfiability oracle of the compiled circuit",
        "UTF-8 validity is Lean core's `ByteArray.IsValidUTF8` (String.fromUTF8?), compared with Rust's String::from_utf8 on "
        "well- and ill-formed names",
    ],
    "assumptions": [
        "Jubjub group law is not proved here: both interpreters call the same model functions for point addition and scalar multiplication",
        "model restrictions on constants: BigUint: payloads are plain hexadecimal digits (no '+', no '_'); names in `run` "
        "requests are ASCII without separators (arbitrary UTF-8 names go through the `dec` / `json` requests)",
        "size_of::<Instruction>() and size_of::<String>() (limit accounting) are reported by the harness in each `dec` request; "
        "the non-vacuity examples use the 64-bit values 72 and 24",
    ],
    "level_text": "Kernel-checked Lean theorems about an executable model of both ZKIR interpreters (all programs, all witnesses, "
                  "hash functions uninterpreted) and of the binary and JSON readers/writers of programs (round trips, injectivity, "
                  "exact canonical form), with the model compared line by line with the real loader, interpreter, compiler, "
                  "public-input encoder, mock checker, serialisers and deserialisers on generated programs, byte strings and JSON "
                  "trees on every run",
    "level_note": "Trusted: Lean kernel, the correspondence harness and driver; gadget internals below the ZKIR operation level "
                  "(C04-C07) and the hash functions are specified, not verified. off_in_agree / off_fail_unsat are proved as "
                  "`_partial`: hypothesis RunRegular restricts exactly one operation at one type — FromBytes(JubjubScalar) must be "
                  "fed 1..31 bytes (recorded finding N7, negation proved: off_in_agree_fails_for_long_scalars); every program "
                  "without that instruction is covered for all witnesses (runRegular_of_no_scalar_conversion), and for that class "
                  "off_fail_unsat is proved at full strength (off_fail_unsat_no_scalar_conversion); the in-circuit pass may reject "
                  "with a static error (comparison typing gap, negation of full typing agreement proved; BigUint limb-bookkeeping "
                  "panic); format_instance succeeding is a hypothesis of the public-input equality. Round trips: the binary one "
                  "holds under an explicit bound of the decoder's 2^24-byte allocation limit (programs beyond it are written but "
                  "not read back: decode_rejects_beyond_limit, more than 233016 instructions); canonical form is `_partial`: "
                  "read_relation also accepts over-wide integers (exactly those: strict-decoder theorem + witness) and leaves "
                  "trailing bytes unread; the JSON theorem is about trees (serde data model), text syntax is serde_json's; the "
                  "decoder and reader models are of third-party code (bincode, serde) and are tied by correspondence only",
    "timeout": {"quick": 900, "thorough": 3000, "search": 1500},
}
