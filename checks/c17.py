CHECK = {
    "lean_module": "MidnightZK.Props.C17",
    "harness": "h-c17",
    "translators": ["c17_consts"],
    "level": "proof",
    "rule": "every generated circuit/relation x thread pool {1,2,3,8,16} x repetition x format pair; "
            "correspondence lines distinct by hash of the request line (real byte images are part of the line)",
    "explanation": "Lean theorems over an executable byte-level model of the key/parameter (de)serialisers, the "
                   "transcript identity, the permutation construction under parallelize and downsize; the model "
                   "parses the real byte images and recomputes transcript_repr, permutation polynomials, "
                   "commitment scalars and Lagrange bases, compared with the real objects on every run; "
                   "determinism, write-A/read-B, 4-way cross-verification and downsize=setup are checked on the real code",
    "trusted_base": [
        "element codecs of curve points and field elements are abstract in the model (laws assumed: C10/C11/C16)",
        "BLAKE2b is specified by RFC 7693 (model checked against blake2b_simd on every trepr line)",
        "best_fft computes the DFT (C12); G1 is represented by its discrete logarithms in the downsize/commit models",
    ],
    "level_text": "Kernel-checked Lean theorems about an executable model of key/parameter serialisation, transcript identity, "
                  "permutation construction (all thread counts) and downsize, with the model run on the real byte images and the "
                  "property's oracle (determinism, round trips, cross-verification) run on the real code on every check",
    "level_note": "Trusted: Lean kernel, the correspondence harness and driver; point/field element codecs are abstract; "
                  "rayon's scheduler is modelled (disjoint chunks), not verified",
    "assumptions": [
        "rayon executes every spawned closure exactly once",
        "the element codecs round-trip (decode(encode p) = p) and have fixed lengths",
    ],
    "timeout": {"quick": 600, "thorough": 3000, "search": 900},
}
