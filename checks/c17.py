CHECK = {
    "lean_module": "MidnightZK.Props.C17",
    "harness": "h-c17",
    "translators": ["c17_consts", "c17_sites"],
    "level": "proof",
    "rule": "every generated circuit/relation x thread pool {1,2,3,5,8,16} x repetition x (write format, read format) for "
            "verifying keys, proving keys, parameter sets, downsized parameter sets and verifier parameters; keys of the "
            "fixed members also from 3 (quick) / 8 child processes (other hash-map seeds, other pools); "
            "correspondence lines distinct by hash of the request line (real byte images are part of the line)",
    "explanation": "Lean theorems over an executable byte-level model of the key/parameter (de)serialisers, the "
                   "transcript identity, the permutation construction under parallelize, downsize, and the part of a "
                   "proving key that is not serialised (compute_lagrange_polys, lagrange_to_coeff, coeff_to_extended with "
                   "distribute_powers_zeta, compute_polys_and_cosets) as the tail of keygen_pk computes it and as "
                   "ProvingKey::read recomputes it. The model parses the real byte images and recomputes transcript_repr, "
                   "permutation polynomials (and the union-find state of Assembly::copy with its invariant, against the "
                   "plain closure of the recorded copies, also for reversed/flipped copy lists), commitment scalars, "
                   "Lagrange bases and every recomputed part of the generated AND of the reloaded proving key (l0, l_last, "
                   "l_active_row, coefficient and extended forms of all fixed and permutation columns, by checksum, through "
                   "the verif_derived_parts hook), compared with the real objects on every run. The ORDER of writes, reads, "
                   "returned arrays, destructuring patterns and struct initialisers of compute_lagrange_polys / keygen_pk / "
                   "ProvingKey::{write,read} / ParamsKZG::{write_custom,read_custom (per format branch),downsize,from_parts,"
                   "verifier_params} is regenerated from the sources by translators/c17_sites.py and the theorems "
                   "lagrange_sites_agree, params_sites_agree, pk_sites_agree, downsize_statement_order, "
                   "lagrange_rows_as_modelled are re-proved over it on every check (a one-sided reordering breaks them; this "
                   "tie is deliberately tight: renaming the locals l0/l_last/l_active_row/g/g_lagrange or re-typing "
                   "compute_lagrange_polys' arguments also fires). Oracle on the real code: determinism over pools x "
                   "repetitions x processes; write-A/read-B for vk, pk, params, downsized params, verifier params with "
                   "(a) byte identity in all formats and equal accessors, (b) monomial basis vs Lagrange basis consistency "
                   "(commit = commit_lagrange = [f(s)]G on monomials and random polynomials), (c) same keys and "
                   "interchangeable proofs under original vs reloaded / downsized vs fresh parameter sets; every recomputed "
                   "part of every reloaded pk equal to the generated key's; proofs made with original and every reloaded pk "
                   "(all five compatible format pairs) verified with original, every reloaded vk and the vk inside every "
                   "reloaded pk; downsize = fresh setup for every k' <= k. Regression cases of the repaired reader (/repo commit "
                   "c2433f0; theorem pk_read_counts_checked: a successful ProvingKey::read returns one polynomial of 2^k values per "
                   "fixed commitment / permutation column): key images with a fixed or permutation polynomial too few / too many, or "
                   "one value too short / too long, must be refused with an error value in every format (model: `err shape`); an "
                   "acceptance or a panic is an oracle failure.",
    "trusted_base": [
        "element codecs of curve points and field elements are abstract in the model (laws assumed: C10/C11/C16)",
        "BLAKE2b is specified by RFC 7693 (model checked against blake2b_simd on every trepr line)",
        "best_fft computes the DFT (C12): lagrange_to_coeff / coeff_to_extended / g_to_lagrange are specified by their "
        "defining sums; G1 is represented by its discrete logarithms in the downsize/commit models",
        "the evaluator (Evaluator::new) is compared by its Debug rendering only (its semantics is C01's subject)",
        "call-site orders are extracted by regular expressions from the Rust text (translators/c17_sites.py), not by a Rust parser",
    ],
    "level_text": "Kernel-checked Lean theorems about an executable model of key/parameter serialisation, transcript identity, "
                  "permutation construction, the recomputed part of a proving key at both call sites (all thread counts) and "
                  "downsize, with the call-site orders regenerated from the sources, the model run on the real byte images, "
                  "and the property's oracle (determinism across pools and processes, round trips in every format, basis "
                  "consistency, cross-verification) run on the real code on every check",
    "level_note": "Trusted: Lean kernel, the correspondence harness and driver; point/field element codecs are abstract; "
                  "rayon's scheduler is modelled (disjoint chunks), not verified. NOT proved: that the cycles of "
                  "Assembly::copy's mapping are the classes of the requested copies (the union-find invariant is checked by "
                  "the driver on every recorded copy list and on reordered lists, not by a theorem); keygen's synthesis "
                  "(fixed columns, selectors) is compared with a recording backend, not modelled in Lean",
    "technique": "byte-level executable model + kernel proofs (induction over lists / chunk layouts, ring identities); "
                 "translator-generated constants and call-site orders with decide-theorems; dense correspondence on real "
                 "byte images and recomputed key parts; in-process and cross-process determinism oracle",
    "assumptions": [
        "rayon executes every spawned closure exactly once",
        "the element codecs round-trip (decode(encode p) = p) and have fixed lengths",
    ],
    "timeout": {"quick": 600, "thorough": 3000, "search": 900},
}
