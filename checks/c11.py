CHECK = {
    "lean_module": "MidnightZK.Props.C11",
    "harness": "h-c11",
    "translators": [],
    "level": "proof",
    "rule": "a case is non-trivial when at least one operand is not the identity / the byte string is not all-zero; "
            "distinctness by hash of the request line (curve, operation, canonical operands)",
    "explanation": "Lean theorems over the executable curve models (pure-Rust formulas = affine group law; codecs canonical); "
                   "model tied to the implementation by running both on the same requests",
    "trusted_base": [],
    "level_text": "",
    "level_note": "",
    "assumptions": [],
    "timeout": {"quick": 900, "thorough": 3000, "search": 900},
}
