CHECK = {
    "lean_module": "MidnightZK.Props.C11",
    "harness": "h-c11",
    "translators": ["c11_constants"],
    "level": "proof",
    "technique": "Lean 4 theorems over executable curve models (grind over Lean.Grind.Field/CommRing, list induction "
                 "with accumulator invariants for the batch/Sum routines, decide +kernel on generated constants) + "
                 "structural correspondence of the models with the Rust types",
    "rule": "one case = one request line `<curve> <op>[:<impl path>] <canonical operands>` answered by both the real "
            "type and the Lean model; a case is non-trivial unless it only restates a constant; distinctness by hash "
            "of the request line (so the same operation through another operator overload / representation mix "
            "counts separately: it is a different code path)",
    "explanation": "Kernel-checked theorems: every pure-Rust curve formula (Jubjub extended/Niels/double/neg/multiply "
                   "loop; BN254 Renes-Costello-Batina add/mixed/double) equals the affine group law for all inputs; "
                   "completeness of the a=-1 Edwards law; is_torsion_free = ([r]P = O) and is_small_order = (u([4]P) = 0) "
                   "by the affine schedule; the Sum fold of Jubjub equals the fold of the affine law for every list; the "
                   "shared-inversion batch routines (ff BatchInverter / batch_invert as used by Jubjub batch_normalize, the "
                   "in-place free function and batch_from_bytes; the hand-written passes of derive/curve.rs) modelled pass "
                   "by pass and proved equal to element-wise inversion / to_affine for every length with zeros (Z = 0, "
                   "identities) at any position; Jacobian/homogeneous conversions and equality tests; codec canonicity "
                   "(Jubjub), flag discipline of BLS12-381 compressed and uncompressed forms (infinity flag only with an "
                   "all-zero body, no flag on a finite uncompressed point, x >= p rejected, the sign flag IS the "
                   "lexicographic sign of y - c1 first for Fp2 - so the wrong sign bit never decodes to the same point), "
                   "BN254 identity/sign flags, secp256k1 tag = 02 + parity(y); constants parsed from the sources satisfy "
                   "their defining equations. The same definitions are compiled into mzk-c11 and compared with the "
                   "implementation (raw coordinates for the pure-Rust types, affine values and byte strings for the "
                   "blst/k256/dalek wrappers) on all operand/scalar/encoding classes of the property; the harness also "
                   "checks the property directly against an affine law over num-bigint. A coverage table (type family x "
                   "trait method -> model line / variant / oracle only / known finding / other property) is written to "
                   "stats.json (extra.coverage_table, harness/c11/src/cover.rs). The checked raw-bytes readers of the derive-generated curve types (from_raw_bytes, read_raw) are compared with the model's on-curve predicates on valid, identity, off-curve and Z = 0 inputs. The correspondence is deliberately tight "
                   "for the pure-Rust types: a re-association that changes the raw (U,V,Z,T1,T2) / (X,Y,Z) representative "
                   "of a result (not its affine value) changes an impl line and fires; affine values are compared for the "
                   "wrapped libraries only.",
    "trusted_base": [
        "blst (G1/G2 point routines incl. the Fp2 sign and flag handling in C, hash-to-curve), k256 and "
        "curve25519-dalek internals: specified by the affine group law and the byte-level decoder models, checked "
        "by correspondence only (exhaustive flag sweeps, sign flips, infinity flag with a body byte at every "
        "position, +p aliases of every coordinate slot, single-bit corruptions, random strings)",
        "crate ff's BatchInverter: modelled from its source (two passes with zero skips) and proved; tied through "
        "the results of batch_normalize / batch_from_bytes only (its scratch values are overwritten)",
        "hash_to_curve (hash_to_curve.rs, blst): not modelled; only determinism, domain separation, on-curve and "
        "prime-order-subgroup membership of the outputs are checked",
        "translator translators/c11_constants.py (prints the constants of the Rust sources into Gen/C11Constants.lean)",
    ],
    "assumptions": [
        "primality of the coordinate-field moduli (BLS12-381 scalar modulus: property C10; the others are hypotheses): "
        "the theorems are stated over an arbitrary field / commutative ring, the driver evaluates them over Z/p",
        "associativity of the group laws is not proved: the multiply-loop / torsion / Sum theorems relate the code to "
        "the affine double-and-add schedule and the affine left fold, not to an abstract k*P",
        "completeness of the Renes-Costello-Batina formulas (Z3 != 0) on BN254 is a hypothesis of the affine corollaries "
        "(*_spec_partial); the fraction-free statements need no hypothesis",
        "the sign-flag / tag theorems (*_partial) assume the decoded y is non-zero: BLS12-381 and secp256k1 have no "
        "point of order two (odd group orders), which is not proved in Lean",
        "full byte-level canonicity (decode accepted => encode gives the same bytes) is a theorem for Jubjub only; for "
        "the flag-bit codecs the flag/sign/range parts are theorems and the body round trip is sampled",
    ],
    "level_text": "Kernel-checked Lean theorems about executable models of the curve formulas, batch routines, "
                  "conversions and codecs (all inputs, all lengths, all representations), with the models run against "
                  "the real curve types on every check and a type x method coverage table in the evidence",
    "level_note": "Trusted: Lean kernel, harness and driver. blst / k256 / curve25519-dalek internals are specified "
                  "(affine law, decoder models) and checked by correspondence, not verified; hash_to_curve is only "
                  "checked for subgroup membership and determinism. Known findings: blst's endomorphism-based scalar "
                  "multiplication is wrong outside the prime-order subgroup (reachable through on-curve-only "
                  "constructors); curve25519-dalek's decoder accepts non-canonical encodings. Fixed during "
                  "this work and kept as regression lines: SerdeObject::read_raw of the BN254 dev-curve types "
                  "accepted off-curve points (569715f).",
    "timeout": {"quick": 900, "thorough": 3000, "search": 900},
}
