CHECK = {
    "lean_module": "MidnightZK.Props.C11",
    "harness": "h-c11",
    "translators": ["c11_constants"],
    "level": "proof",
    "technique": "Lean 4 theorems over executable curve models (grind over Lean.Grind.Field/CommRing, decide +kernel on "
                 "generated constants) + structural correspondence of the models with the Rust types",
    "rule": "one case = one request line `<curve> <op>[:<impl path>] <canonical operands>` answered by both the real "
            "type and the Lean model; a case is non-trivial unless it only restates a constant; distinctness by hash "
            "of the request line (so the same operation through another operator overload / representation mix "
            "counts separately: it is a different code path)",
    "explanation": "Kernel-checked theorems: every pure-Rust curve formula (Jubjub extended/Niels/double/neg/multiply "
                   "loop; BN254 Renes-Costello-Batina add/mixed/double) equals the affine group law for all inputs; "
                   "completeness of the a=-1 Edwards law; Jacobian/homogeneous conversions and equality tests; codec "
                   "canonicity (Jubjub), flag discipline (BLS12-381), tag discipline (secp256k1); constants parsed from "
                   "the sources satisfy their defining equations. The same definitions are compiled into mzk-c11 and "
                   "compared with the implementation (raw coordinates for the pure-Rust types, affine values and byte "
                   "strings for the blst/k256/dalek wrappers) on all operand/scalar/encoding classes of the property; "
                   "the harness also checks the property directly against an affine law over num-bigint.",
    "trusted_base": [
        "blst (G1/G2 point routines, hash-to-curve used only to draw random operands), k256 and curve25519-dalek "
        "internals: specified by the affine group law and the byte-level decoder models, checked by correspondence only",
        "translator translators/c11_constants.py (prints the constants of the Rust sources into Gen/C11Constants.lean)",
    ],
    "assumptions": [
        "primality of the coordinate-field moduli (BLS12-381 scalar modulus: property C10; the others are hypotheses): "
        "the theorems are stated over an arbitrary field / commutative ring, the driver evaluates them over Z/p",
        "associativity of the group laws is not proved: the multiply-loop theorem relates the code to the affine "
        "double-and-add schedule, not to an abstract k·P",
        "completeness of the Renes-Costello-Batina formulas (Z3 != 0) on BN254 is a hypothesis of the affine corollaries "
        "(*_spec_partial); the fraction-free statements need no hypothesis",
    ],
    "level_text": "Kernel-checked Lean theorems about executable models of the curve formulas, conversions and codecs "
                  "(all inputs, all representations), with the models run against the real curve types on every check",
    "level_note": "Trusted: Lean kernel, harness and driver. blst / k256 / curve25519-dalek internals are specified "
                  "(affine law, decoder models) and checked by correspondence, not verified. Known findings: blst's "
                  "endomorphism-based scalar multiplication is wrong outside the prime-order subgroup (reachable through "
                  "on-curve-only constructors); curve25519-dalek's decoder accepts non-canonical encodings.",
    "timeout": {"quick": 900, "thorough": 3000, "search": 900},
}
