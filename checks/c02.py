CHECK = {
    "lean_module": "MidnightZK.Props.C02",
    "harness": "h-c02",
    "translators": ["c02_consts"],
    "level": "proof",
    "technique": "Lean 4 proofs (a) that the mock checker's verdict is row-level satisfaction, (b) that the verifier's identity list "
                 "covers every constraint class exactly once in the order of the Rust code, (c) of the algebraic soundness of each class "
                 "(gates, permutation with counting bound on bad beta/gamma, lookup incl. theta-compression, trash) and of the y- and "
                 "x-combination; identity-level correspondence: every value folded by the real verifier (hooked log) is recomputed by the "
                 "Lean model from the recorded transcript scalars labelled with the Lean schedule model; three-way correspondence real "
                 "verifier / MockProver / Lean rowSat on faulted witnesses of generated circuits",
    "rule": "circuit-family members x (honest | every advice assignment x {+1, 0, neighbour, random} sampled | one value of each instance column +1 | "
            "two circuits proven together); per assignment one `sat` case = MockProver verdict + real prove/verify verdict + Lean rowSat on the "
            "dumped constraint system and table, and (whenever the prover yields a proof, accepted or not) one `ids` case = the hooked identity "
            "values, y, x^n, expected_h_eval of the real verifier vs the Lean identity model run on the dumped constraint system, the plain "
            "instance values and the ordered scalars read / challenges squeezed by the verifier; `domain` cases = omega and DELTA per k; "
            "distinct = distinct request lines",
    "explanation": "ids_cover: for every constraint-system shape the class tags of the verifier's identity list (Model/C02/Identities.lean, "
                   "a mirror of evaluate_identities / permutation.rs expressions / lookup.rs / trash.rs / l_i_range / PartiallyEvaluated::verify) "
                   "are every gate polynomial, permFirst, permLast, permChain s, permProduct s, five rules per lookup, one per trash argument, "
                   "each once, in code order. The model is tied to the code on every run: the harness runs the real verifier with the "
                   "verif-hooks identity log and a value-recording transcript; the Lean driver labels the scalar stream with "
                   "Model/C01/Schedule.lean verifierSchedule, recomputes x^n, l_0, l_last, l_blind (omega derived from the generated "
                   "ROOT_OF_UNITY), the instance evaluations of plain columns and every identity value, and must reproduce count, order, "
                   "values and expected_h_eval for honest, faulted and two-proof runs. Row-level meaning: gate_identity_rows (gate identity "
                   "on rows = gate polynomial on rows), perm_argument_sound (rows of permExpressionsRow zero => copy constraints, for all "
                   "but (2N)^2 beta and 2N gamma per beta), lookup_argument_sound(+_tuples) (rows of lookupExpressionsRow zero on a grid of "
                   "(beta,gamma) => compressed membership; at most u(l-1) bad theta), trash_argument_sound (fewer than #expressions bad trash "
                   "challenges), y_combination_sound, x_evaluation_sound, verifier_equation_sound (single equation at x,y => every identity "
                   "vanishes on the domain); perm_/lookup_/trash_identity_is_row_rule: the identity model's values cast to ZMod p "
                   "ARE the values of permExpressionsRow / lookupExpressionsRow / trashExpressionRow (Model/C01/Arguments.lean) when the "
                   "evaluations are row values, so the row-level theorems speak about the validated identity list. mock_agrees: MockProver's verdict equals the plain row-level meaning for every constraint "
                   "system and assignment; the Lean evaluator, the mock verdict and the real verifier's verdict must coincide on every "
                   "faulted witness.",
    "trusted_base": ["knowledge soundness of PLONK+KZG (AGM/ROM) is not modelled: that the evaluations read from the proof are evaluations of "
                     "the committed polynomials (KZG binding, C14) and that beta, gamma, theta, trash challenge, y, x are uniformly random "
                     "(Fiat-Shamir) is assumed",
                     "harness/c02/src/valrec.rs (value-recording transcript: squeezed challenges are learnt from a clone of the inner transcript) "
                     "and the verif-hooks identity log print what the verifier reads and folds",
                     "the group-theoretic fact that the labels delta^c*omega^i are pairwise distinct is a hypothesis of perm_argument_sound "
                     "(root_of_unity_primitive and delta_order prove the orders it follows from)"],
    "assumptions": ["a violated constraint makes the real verifier reject except with negligible probability over the Fiat-Shamir challenges "
                    "(the theorems bound the number of bad challenges per argument; the union bound over the transcript and the extraction of "
                    "the committed polynomials are not mechanised)"],
    "level_text": "Kernel-checked theorems: the checker logic (mock = row satisfaction, fill-row shortcut sound, D2 witness); ids_cover for every "
                  "constraint-system shape; per-class algebraic soundness at row level with explicit counts of bad challenges (permutation, "
                  "lookup incl. theta step, trash), gate identity = gate polynomial on rows, y/x-combination and the single-equation chain; "
                  "defining equations of ROOT_OF_UNITY and DELTA. The identity model is validated against the hooked identity log of the real "
                  "verifier (count, order, every value, expected_h_eval) on every honest, faulted and two-proof run; the row-level semantics "
                  "against MockProver and the real verifier on every sampled fault",
    "level_note": "partial: knowledge soundness (extraction of the committed polynomials, KZG binding, Fiat-Shamir/ROM, union bound over the "
                  "challenges) is not mechanised; distinctness of the permutation labels delta^c*omega^i and the indicator behaviour of "
                  "l_0/l_last/l_blind on the domain (barycentric formula, C12) are hypotheses / modelling choices of the row-level theorems",
    "timeout": {"quick": 1500, "thorough": 7200, "search": 2400},
}
