CHECK = {
    "lean_module": "MidnightZK.Props.C02",
    "harness": "h-c02",
    "translators": [],
    "level": "proof",
    "technique": "Lean 4 proof that the mock checker's verdict is row-level satisfaction (incl. its lookup fill-row shortcut and trash arguments); three-way correspondence real verifier / MockProver / Lean rowSat on faulted witnesses of generated circuits",
    "rule": "circuit-family members x (honest | every advice assignment x {+1, 0, neighbour, random} sampled | one value of each instance column +1); "
            "one case = MockProver verdict + real prove/verify verdict + Lean rowSat on the dumped constraint system and table; "
            "distinct = distinct request lines (constraint system + table)",
    "explanation": "mock_agrees: MockProver's verdict equals the plain row-level meaning of gates, additive-selector constraints, lookups and copy "
                   "constraints for every constraint system and assignment. The Lean evaluator is run on the real dumped constraint system and "
                   "table; its verdict, the mock verdict and the real verifier's verdict must coincide on every faulted witness.",
    "trusted_base": ["knowledge soundness of PLONK+KZG (AGM/ROM) is not modelled: 'verifier rejects' is observed on real proofs, not proved"],
    "assumptions": ["a violated constraint makes the real verifier reject except with negligible probability over the Fiat-Shamir challenges"],
    "level_text": "Kernel-checked theorems about the checker logic (mock = row satisfaction, fill-row shortcut sound, D2 witness) and an executable Lean semantics of the real constraint system validated against MockProver and the real verifier on every sampled fault",
    "level_note": "partial: algebraic soundness of the verifier identities is not yet mechanised; cryptographic soundness assumed",
    "timeout": {"quick": 1500, "thorough": 7200, "search": 2400},
}
