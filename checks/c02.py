CHECK = {'lean_module': 'MidnightZK.Props.C02',
 'harness': 'h-c02',
 'translators': ['c02_consts'],
 'level': 'proof',
 'technique': "Lean 4 proofs (a) that the mock checker's verdict is row-level satisfaction (verify, verify_at_rows, assert_satisfied), (b) "
              "that the verifier's identity list covers every constraint class exactly once in the order of the Rust code, (c) of the "
              'algebraic soundness of each class (gates, permutation with counting bound on bad beta/gamma and NO hypothesis on the labels '
              'in the BLS12-381 scalar field, lookup incl. theta-compression, trash) and of the y- and x-combination, (d) that each '
              "class's identity POLYNOMIAL (column polynomials, rotations, Lagrange-basis polynomials l_0/l_last/l_blind) vanishes on the "
              'domain iff the row rule holds on every row, (e) that the Lagrange values and the plain-instance evaluations of the identity '
              'model are the basis / instance-column polynomials evaluated at x (barycentric formula), so a different public input changes '
              'the instance evaluation for all but < n challenges x; identity-level correspondence: every value folded by the real '
              'verifier (hooked log) is recomputed by the Lean model from the recorded transcript scalars labelled with the Lean schedule '
              'model; three-way correspondence real verifier / MockProver / Lean rowSat on faulted witnesses and on every edited '
              "public-input position of generated circuits; key generation's fixed columns (lookup tables with their fill_from_row "
              "padding) vs the mock checker's vs Lean mirrors of both assign_fixed / fill_from_row implementations replaying the writes "
              'the circuit requested; the poisoned rows of MockProver::run vs a Lean mirror; lookup-membership sweep with values outside '
              'every table (0, filler-1, last+1); a fixed-column-switched gate on / next to the last usable row reading the first unusable '
              'row',
 'rule': 'circuit-family members x (honest | every advice assignment x {+1, 0, neighbour, random} sampled | EVERY position of every '
         'instance column x {+1, -1, swap with next position} | two circuits proven together); per assignment one `sat` case = MockProver '
         'verdict + real prove/verify verdict + Lean rowSat on the dumped constraint system and table, one `satrows` case = '
         'MockProver::verify_at_rows on a seeded random subset of gate rows / lookup-input rows + whether assert_satisfied returns vs Lean '
         'mockOKAt / mockOK, and (whenever the prover yields a proof, accepted or not) one `ids` case = the hooked identity values, y, '
         'x^n, expected_h_eval of the real verifier vs the Lean identity model run on the dumped constraint system, the plain instance '
         'values and the ordered scalars read / challenges squeezed by the verifier; per member one `csparams` case = cs.degree(), '
         'cs.blinding_factors(), number of permutation column sets, usable rows vs the Lean mirror computed from the dumped expressions '
         'and query lists only; `domain` cases = omega and DELTA per k; distinct = distinct request lines; EXTENDED FAMILY (new enum '
         'variants, C01/C02 only): Shapes(g) gates (expression shapes), MixedDeg (two-column lookup_any, degree 6 from different columns), '
         'NoZero (table {5..} without zero row, filler 5), LastRow{row,rot} (gate f*(la0+la1(rot)) switched by a plain fixed column on ONE '
         'absolute row: last usable row - back, rot in {1,2}; back < rot reads an unusable row: all three verdicts reject, the mock by '
         'ConstraintPoisoned; back >= rot: all accept); per member one `fixedcols` case = the writes requested on the fixed columns '
         '(FixedRecorder: assign_fixed / fill_from_row with absolute rows and values) -> pk.fixed_values and MockProver::fixed() rendered '
         'row by row vs the two Lean replays, one `mockinit` case = rows of every advice column holding Poison(i) after MockProver::run vs '
         'the Lean mirror; `fault-lookup-outside` = for EVERY lookup of the member one input cell set to values outside the table (NoZero: '
         '0, 4, 5+2^bits, 2^40; others: just above the table, 2^40): verifier, mock and Lean must all reject (extra oracle)',
 'explanation': "ids_cover: for every constraint-system shape the class tags of the verifier's identity list (Model/C02/Identities.lean, a "
                'mirror of evaluate_identities / permutation.rs expressions / lookup.rs / trash.rs / l_i_range / '
                'PartiallyEvaluated::verify) are every gate polynomial, permFirst, permLast, permChain s, permProduct s, five rules per '
                'lookup, one per trash argument, each once, in code order (its hypothesis 3 <= degree is csDegree_ge_three for the '
                'mirrored degree()). The model is tied to the code on every run: the harness runs the real verifier with the verif-hooks '
                'identity log and a value-recording transcript; the Lean driver labels the scalar stream with Model/C01/Schedule.lean '
                'verifierSchedule, recomputes x^n, l_0, l_last, l_blind (omega derived from the generated ROOT_OF_UNITY), the instance '
                'evaluations of plain columns and every identity value, and must reproduce count, order, values and expected_h_eval for '
                'honest, faulted, public-input-edited and two-proof runs. Row-level meaning: gate_identity_rows, perm_argument_sound (rows '
                'of permExpressionsRow zero => copy constraints, for all but (2N)^2 beta and 2N gamma per beta; stated in ZMod r with '
                'delta = DELTA, omega = the domain generator of any k <= S: the distinctness of the labels delta^c*omega^i is now the '
                'theorem perm_labels_injective, proved from the generated constants: delta_orderOf (order of DELTA is exactly t=(r-1)/2^S, '
                'certificate over the 11 prime factors of t), omega_primitive (omega has order 2^k), r prime by the Lucas certificate of '
                'C10; the any-field version with the hypothesis is kept as perm_argument_sound_generic), lookup_argument_sound(+_tuples), '
                'trash_argument_sound, y_combination_sound, x_evaluation_sound, verifier_equation_sound (single equation at x,y => every '
                'identity vanishes on the domain). Polynomial level (indicator behaviour of l_0/l_last/l_blind no longer assumed): '
                'perm_/lookup_/trash_/gate_identity_vanishes_on_domain_iff_rows: the identity polynomials built from the column '
                'polynomials of degree < n, their rotations and the Lagrange-basis polynomials indPoly (1 on row 0 / u / >u, 0 elsewhere, '
                'from the interpolation property) evaluate at omega^i to the row expressions, hence vanish on the domain iff the row rules '
                'hold; perm_argument_sound_polys chains it with perm_argument_sound; lagrange_evals_are_basis_polys: the naturals '
                'l_0,l_last,l_blind of the identity model (mirror of l_i_range, validated through the identity values) are indPoly '
                "evaluated at x for every k <= S and x off the domain (barycentric formula, imported from C01's domain lemmas). Public "
                "inputs: instance_eval_is_column_poly (the model's instance_evals entry of a plain column is the column polynomial of the "
                'GIVEN public inputs at omega^rot*x), public_input_changes_instance_eval (two public inputs differing on a row agree at '
                "fewer than n points x). perm_/lookup_/trash_identity_is_row_rule: the identity model's values cast to ZMod p ARE the "
                'values of permExpressionsRow / lookupExpressionsRow / trashExpressionRow when the evaluations are row values. '
                "mock_agrees: MockProver's verdict equals the plain row-level meaning for every constraint system and assignment; "
                'mock_at_usable_rows / mock_at_rows_weaker / mock_at_rows_unsound_witness: verify = verify_at_rows on all usable rows, '
                'fewer rows only accept more, and can accept what the verifier rejects. Mirrored parts of MockProver::verify: gates and '
                'additive-selector constraints on usable + blinding rows with poison arithmetic, lookups with the fill-row shortcut, copy '
                'constraints REQUESTED by the circuit (advice-advice, advice-constant (fixed cell), advice-instance cell, recorded '
                'independently of the keygen Assembly), verify_at_rows row subsets, assert_satisfied = panic iff Err; NOT mirrored: the '
                'cell-assignment checks (CellNotAssigned / InstanceCellNotAssigned; such cases are skipped and counted) and the content / '
                'order of the error list (only the classes gate-or-trash / lookup / permutation are compared). The Lean evaluator, the '
                "mock verdict and the real verifier's verdict must coincide on every faulted witness and every edited public input. The "
                'identity-value and csparams comparisons are deliberately tight (any change of an identity value, of degree() or of '
                'blinding_factors() fires even if benign for soundness, e.g. an extra power of the trash challenge on both sides); '
                're-association or reordering of independent statements that leaves every folded value unchanged does not fire. NEW (round '
                '5): fill_covers_usable_rows (after fill_from_row row i holds the filler iff from_row <= i < usable - the last usable row '
                'included -, every other row untouched; both keygen.rs Assembly::fill_from_row and MockProver::fill_from_row are this '
                'loop), table_values_after_fill (table values on the usable rows = assigned rows + filler: 0 is a table value only if '
                'assigned or the filler), keygen_mock_fixed_columns_agree (for EVERY sequence of requested writes the two mirrors produce '
                'the same columns and refuse the same writes), mock_poisons_unusable_rows / mock_assign_preserves_poison (Poison(i) '
                'exactly on rows >= usable, never removed), gate_reading_poison_rejected / gate_reading_poison_fails_check (a '
                'fixed-column-switched gate active on a checked row that reads a poisoned cell makes rowSat and mockOK false), '
                'degree_covers_identities (every identity class has degree <= the mirrored degree(); the lookup product rule uses max deg '
                'input + max deg table), per_column_degree_formula_insufficient, quotient_fits_pieces / quotient_overflows_pieces, '
                'gate_poly_degree_covered (natDegree of the gate polynomial over the column polynomials < n + (n-1)(degree-1)). Oracles '
                'added: key generation and the mock checker hold the same fixed columns; a lookup value outside the table is rejected by '
                'all three.',
 'trusted_base': ['knowledge soundness of PLONK+KZG (AGM/ROM) is not modelled: that the evaluations read from the proof are evaluations of '
                  'the committed polynomials (KZG binding, C14) and that beta, gamma, theta, trash challenge, y, x are uniformly random '
                  '(Fiat-Shamir) is assumed',
                  'harness/c02/src/valrec.rs (value-recording transcript: squeezed challenges are learnt from a clone of the inner '
                  'transcript) and the verif-hooks identity log print what the verifier reads and folds',
                  'harness/common/src/copyrec.rs records the copy constraints the circuit requests; csdump.rs prints constraint system and '
                  'table',
                  "harness/common/src/fixedrec.rs records the fixed-column writes the circuit requests (through the circuit's real floor "
                  'planner, independent of keygen Assembly and MockProver); ProvingKey::verif_derived_parts exposes pk.fixed_values'],
 'assumptions': ['a violated constraint makes the real verifier reject except with negligible probability over the Fiat-Shamir challenges '
                 '(the theorems bound the number of bad challenges per argument; the union bound over the transcript and the extraction of '
                 'the committed polynomials are not mechanised)'],
 'level_text': 'Kernel-checked theorems: the checker logic (mock = row satisfaction, fill-row shortcut sound, verify_at_rows weaker, D2 '
               'witness); ids_cover for every constraint-system shape; per-class algebraic soundness at row level with explicit counts of '
               'bad challenges (permutation - with the distinctness of the labels delta^c*omega^i PROVED for the BLS12-381 scalar field, '
               'every k <= 32 and every column count <= (r-1)/2^32 -, lookup incl. theta step, trash); for each of the four classes the '
               'identity polynomial vanishes on the domain iff the row rule holds on every row (l_0/l_last/l_blind as Lagrange-basis '
               "polynomials, proved); the model's l_0(x), l_last(x), l_blind(x) and plain-instance evaluations are those polynomials / the "
               'public-input column polynomial evaluated off the domain; a different public input changes the instance evaluation for all '
               'but < n points; y/x-combination and the single-equation chain; order of DELTA, primitivity of omega, DELTA = '
               'GENERATOR^(2^S); degree() >= 3, blinding_factors() >= 5 + #trash. The identity model is validated against the hooked '
               'identity log of the real verifier (count, order, every value, expected_h_eval) on every honest, faulted, '
               'public-input-edited and two-proof run; degree()/blinding_factors() against a Lean mirror on every member; the row-level '
               'semantics against MockProver (verify, verify_at_rows, assert_satisfied) and the real verifier on every sampled fault and '
               'every edited public-input position; NEW: fill_from_row of key generation and of the mock checker (every usable row from '
               'from_row holds the filler; both produce the same columns for every sequence of writes), the poisoned rows of '
               'MockProver::run, rejection of a gate reading a poisoned cell, and degree() covering every identity class are theorems; the '
               'real pk.fixed_values, MockProver::fixed() and the poisoned rows are compared with the mirrors row by row on every member; '
               'values outside every lookup table and a fixed-column-switched gate on the last usable row are part of the three-way '
               'verdict comparison',
 'level_note': 'partial: knowledge soundness (extraction of the committed polynomials, KZG binding, Fiat-Shamir/ROM, union bound over the '
               'challenges) is not mechanised; gate_identity_vanishes_on_domain_iff_rows assumes canonical (< p) field-element cells on '
               "the queried positions; MockProver's cell-assignment checks are outside the Lean mock model; the fixedcols comparison "
               'covers the fixed columns the circuit declares (tables, constants, plain fixed columns), not the columns key generation '
               'derives from selectors (those are observed through the sat / ids lines); the LastRow members are not honest circuits (the '
               'mock checker itself refuses them) and are used by C02 only',
 'timeout': {'quick': 1500, 'thorough': 7200, 'search': 2400}}
