CHECK = {
    "lean_module": "MidnightZK.Props.C13",
    "harness": "h-c13",
    "translators": ["c13_consts"],
    "level": "proof",
    "technique": "Lean 4 theorems over an abstract bilinear map + ring-theoretic theorems about the Rust tower formulas (products, squares, "
                 "inverses, sparse products, Frobenius maps as ring endomorphisms, Granger-Scott cyclotomic squaring) over arbitrary commutative "
                 "rings + executable models (tower arithmetic, BN254 Miller loop and final exponentiation, textbook BLS12-381 ate pairing, "
                 "discrete-log model of every pairing entry point incl. prepared points) checked against the real code; pairing constants "
                 "re-parsed from the sources and re-proved (defining powers of the non-residue, the relations that make the Frobenius maps "
                 "multiplicative, sixth-root-of-unity relations, non-residuosity)",
    "rule": "one evaluation = one request answered by both the real code and the Lean model (tower operation on one operand "
            "tuple / one entry point on one list of pairs / one Miller loop, final exponentiation, Gt operation, G2Prepared::from + is_identity, "
            "DualMSM::check); non-trivial when the operands are not all zero/one resp. the list is non-empty; distinctness by hash of the request line. "
            "The bilinearity / non-degeneracy / product-law samples (kinds bilin-*, pp-*, nondeg) are TESTS of the hypothesis "
            "fields of `Pairing`, not proofs. The correspondence is by value (deliberately not by operation order): re-associations of the "
            "tower formulas, `square()` written as `x*x`, `a - b` written as `a + (-b)` do not fire (confirmed with a benign patch)",
    "explanation": "Bilinearity and non-degeneracy of the Miller loop + final exponentiation are hypotheses (structure fields); "
                   "proved for all inputs: consequences of bilinearity; multi_miller_loop = product of pairings for every list "
                   "(identities at any position skipped already at the level of Miller values, empty list, permutations, splits, prepared points: "
                   "G2Prepared::from(identity) sets the flag the loop tests) for both engines' control flow, which coincide; the unprepared entry points "
                   "reduce to the one-element loop; DualMSM::check <-> pairing equation; Gt scalar multiplication = exponentiation; the order-r subgroup is "
                   "closed under the Gt operators and contains every final-exponentiation output; Rust tower formulas = quotient-ring operations "
                   "(commutative rings level by level), frobenius_map(k) is a ring endomorphism level by level (table relations kernel-checked for k < 12 on "
                   "the parsed tables), cyclotomic_square = square on the cyclotomic subgroup, quadratic invert is total away from 0; all parsed constants "
                   "satisfy their defining equations. Models tied to the code by running both on the same requests, incl. lists of length 1..8 with an "
                   "identity (G1, G2, two consecutive) at every position and Gt operators on Fp12 values outside the subgroup.",
    "trusted_base": [
        "blst (C/assembly): Fp/Fp2/Fp12 arithmetic, miller_loop, miller_loop_lines, precompute_lines, final_exp, pairing_* context are specified "
        "(tower model, textbook ate pairing raised to 3(p^12-1)/r; hypotheses `hlines`, `hraw`, `hid` of the prepared/unprepared entry-point theorems) "
        "and checked by correspondence only",
        "translator translators/c13_consts.py (python): prints the constants the sources contain; its Montgomery conversion is re-proved in Lean",
        "the index moduli of the `TABLE[power % N]` sites of the frobenius_map functions are parsed by the translator and used by the model's "
        "tables (a changed modulus breaks `frobenius_table_relations` and changes impl.txt lines of the `frob` requests); the shape of the "
        "frobenius_map functions themselves (which coefficient is multiplied by which table) is hand-mirrored and compared by value",
    ],
    "assumptions": [
        "the optimal ate pairing (Miller function followed by the final exponentiation) is bilinear and non-degenerate on the "
        "order-r subgroups: hypothesis fields of `Pairing` / `MillerEngine`, tested by samples, not proved",
        "BN254: the joint Miller loop on lists without identity points reduces to the product of the pairings (hypothesis of "
        "multi_pairing_product_bn); its code is mirrored by the model (steps proved to be Jacobian doubling/addition with tangent/chord "
        "lines) and compared value by value with the real Fq12 results, and the reduced pairing with an independent textbook optimal ate pairing",
        "Frobenius maps: proved to be ring endomorphisms of every level (given the table relations, kernel-checked); that frobenius_map(1) is "
        "the p-th power map x -> x^p is tested on every run (field-law oracles), not proved",
        "cyclotomic_square = square is proved for elements with f^(p^4) f = f^(p^2); that the easy part of the final exponentiation produces such "
        "elements uses Frobenius = power map (previous item) and f^(p^12-1) = 1",
        "the theorems are stated over abstract commutative rings / fields; the executable instance (integers modulo p with canonical values) is "
        "connected to them by the correspondence run and by kernel evaluation of the constant relations, not by a ring isomorphism proof",
        "Gt has no byte encoding in this crate; `From<Fp12> for Gt` is a public unchecked constructor (no membership promise in its docs); every other "
        "producer (pairing, final_exponentiation, Gt::random, generator) yields members of the order-r subgroup (tested; generator proved)",
    ],
    "level_text": "Kernel-checked Lean theorems about the list-level pairing code (multi Miller loop of both engines incl. identity entries at any position, "
                  "prepared points and unprepared entry points, DualMSM::check, Gt operators and the order-r subgroup) over an abstract bilinear map, about the "
                  "Rust tower formulas over arbitrary commutative rings (products, squares, inverses, sparse products, Frobenius maps as ring endomorphisms, "
                  "cyclotomic squaring), and about every pairing constant parsed from the sources; executable models (incl. the complete BN254 Miller loop / "
                  "final exponentiation and an independent textbook BLS12-381 pairing) compared with the real entry points on every run",
    "level_note": "Partial by nature: bilinearity/non-degeneracy of the pairing are hypotheses, sampled by tests (labelled as such); Frobenius = p-power map "
                  "is tested, not proved. Trusted: Lean kernel, the correspondence harness and driver, blst internals (specified, not verified)",
    "timeout": {"quick": 600, "thorough": 3000, "search": 900},
}
