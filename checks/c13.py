CHECK = {
    "lean_module": "MidnightZK.Props.C13",
    "harness": "h-c13",
    "translators": ["c13_consts"],
    "level": "proof",
    "technique": "Lean 4 theorems over an abstract bilinear map + executable models (tower arithmetic, BN254 Miller loop "
                 "and final exponentiation, textbook BLS12-381 ate pairing, discrete-log model of every pairing entry point) "
                 "checked against the real code; pairing constants re-parsed from the sources and re-proved",
    "rule": "one evaluation = one request answered by both the real code and the Lean model (tower operation on one operand "
            "tuple / one entry point on one list of pairs / one Miller loop, final exponentiation, Gt operation, DualMSM::check); "
            "non-trivial when the operands are not all zero/one resp. the list is non-empty; distinctness by hash of the request line. "
            "The bilinearity / non-degeneracy / product-law samples (kinds bilin-*, pp-*, nondeg) are TESTS of the hypothesis "
            "fields of `Pairing`, not proofs",
    "explanation": "Bilinearity and non-degeneracy of the Miller loop + final exponentiation are hypotheses (structure fields); "
                   "proved for all inputs: consequences of bilinearity, multi_miller_loop = product of pairings for every list "
                   "(identities, empty list, permutations, splits) for both engines' control flow, DualMSM::check <-> pairing equation, "
                   "Gt scalar multiplication = exponentiation, Rust tower formulas = quotient-ring operations (commutative rings level "
                   "by level), all parsed constants satisfy their defining equations. Models tied to the code by running both on "
                   "the same requests.",
    "trusted_base": [
        "blst (C/assembly): Fp/Fp2/Fp12 arithmetic, miller_loop, miller_loop_lines, precompute_lines, final_exp, pairing_* context are specified "
        "(tower model, textbook ate pairing raised to 3(p^12-1)/r) and checked by correspondence only",
        "translator translators/c13_consts.py (python): prints the constants the sources contain; its Montgomery conversion is re-proved in Lean",
    ],
    "assumptions": [
        "the optimal ate pairing (Miller function followed by the final exponentiation) is bilinear and non-degenerate on the "
        "order-r subgroups: hypothesis fields of `Pairing` / `MillerEngine`, tested by samples, not proved",
        "BN254: the joint Miller loop on lists without identity points reduces to the product of the pairings (hypothesis of "
        "multi_pairing_product_bn); its code is mirrored by the model (steps proved to be Jacobian doubling/addition with tangent/chord "
        "lines) and compared value by value with the real Fq12 results, and the reduced pairing with an independent textbook optimal ate pairing",
        "cyclotomic_square = square on the cyclotomic subgroup: not proved (mirrored and compared; final_exponentiation is also compared "
        "with the plain power f^((p^12-1)/r))",
        "Frobenius maps are the p^k-power maps (the coefficient tables are proved to be the stated powers of the non-residue; "
        "that this makes the map a field automorphism is not proved)",
    ],
    "level_text": "Kernel-checked Lean theorems about the list-level pairing code (multi Miller loop of both engines, DualMSM::check, "
                  "Gt operators) over an abstract bilinear map, about the Rust tower formulas over arbitrary commutative rings, and "
                  "about every pairing constant parsed from the sources; executable models (incl. the complete BN254 Miller loop / "
                  "final exponentiation and an independent textbook BLS12-381 pairing) compared with the real entry points on every run",
    "level_note": "Partial by nature: bilinearity/non-degeneracy of the pairing are hypotheses, sampled by tests (labelled as such). "
                  "Trusted: Lean kernel, the correspondence harness and driver, blst internals (specified, not verified)",
    "timeout": {"quick": 600, "thorough": 3000, "search": 900},
}
