CHECK = {
    "lean_module": "MidnightZK.Props.C08",
    "harness": "h-c08",
    "translators": ["c08_params"],
    "level": "proof",
    "technique": "Lean 4 proofs over an executable model + generated parameter tables + structural correspondence on real circuits",
    "rule": "one case per (value, entry point) pair: the real off-circuit encoder on the value, and the real circuit "
            "exposing it (zk_stdlib Relation / verifier-gadget circuit) run through the mock prover; distinctness by "
            "hash of the request line (type, entry point, value)",
    "explanation": "Lean theorems: every encoder (bit, byte, native, emulated field, foreign point with identity flag, "
                   "Jubjub point/scalar, BigUint(nb), vk identity, MSM, accumulator, IR bytes) is injective under the "
                   "type's well-formedness, has a type-determined length, the in-circuit exposure of an honestly "
                   "assigned value binds exactly the encoding, and the instance-row counter stored in the verifying key "
                   "equals the length of format_instance; the limb parameters and moduli are regenerated from the Rust "
                   "sources on every run and their side conditions re-proved by kernel evaluation. Correspondence: the "
                   "model's encoders vs Instantiable::as_public_input on boundary values; for every value and entry point "
                   "the compiled circuit's copy constraints onto the instance columns (read off the mock prover's "
                   "permutation) must be rows 0..len tied to cells holding the encoding, encode(v) must satisfy the "
                   "circuit and every single-position edit must be rejected; relations exposing 0..40 mixed inputs: "
                   "nb_public_inputs written into the serialized MidnightVK = format_instance length, honest proofs "
                   "verify, raw vectors of any other length are rejected",
    "trusted_base": [
        "gadget-level soundness of assign / normalize / linear_combination / range checks (properties C04-C06) is "
        "assumed at the cell level: the model takes the honest in-circuit representation of a value as given",
        "moduli of fields defined outside /repo (k256, bn256, curve25519 scalar) are constants of the model, compared "
        "with the running code on every run",
    ],
    "assumptions": [
        "distinct verifying keys have distinct transcript_repr (collision resistance of the key hash)",
        "MSM/accumulator injectivity is for a fixed shape (number of terms, fixed-base names), which the circuit fixes",
    ],
    "level_text": "Kernel-checked Lean theorems about an executable model of every public-input encoder and of the "
                  "in-circuit exposure with its instance-row counter, over parameter tables regenerated from the Rust "
                  "sources; the model and the property's oracle are checked against the real encoders, the real "
                  "compiled circuits and real verifying keys on every run",
    "level_note": "Trusted: Lean kernel, the translator, the correspondence harness and driver. The theorem "
                  "cells_eq_encode is partial for Jubjub scalars (bit vectors of at most 254 bits): longer vectors are "
                  "the recorded finding jscalar-exposure:bits>252, whose negation is proved with a concrete witness",
    "timeout": {"quick": 900, "thorough": 3600, "search": 900},
}
