CHECK = {
    "lean_module": "MidnightZK.Props.C08",
    "harness": "h-c08",
    "translators": ["c08_params", "c08_chip"],
    "level": "proof",
    "technique": "Lean 4 proofs over an executable model + generated parameter tables + structural correspondence on real "
                 "circuits, real keys and real proofs (KZG, ParamsKZG::unsafe_setup)",
    "rule": "one case per (value, entry point) pair: the real off-circuit encoder on the value, and the real circuit "
            "exposing it (zk_stdlib Relation / verifier-gadget circuit) run through the mock prover; one case per "
            "(relation, raw instance vector, proof origin) triple for the verifier's count check; distinctness by "
            "hash of the request line (type, entry point, value / steps, vectors); one case per (sequence of "
            "(handle, column, value) steps) for the multi-handle circuits; one case per relation for the real proofs "
            "with a committed instance",
    "explanation": "Lean theorems: every encoder (bit, byte, native, emulated field, foreign point with identity flag, "
                   "Jubjub point/scalar, BigUint(nb), vk identity, MSM, accumulator, IR bytes) is injective under the "
                   "type's well-formedness, has a type-determined length, the in-circuit exposure of an honestly "
                   "assigned value binds exactly the encoding (for Jubjub scalars: an exact if-and-only-if in the "
                   "bit-vector length, and for every length the bound cells are the encoding followed by zero rows), "
                   "the instance-row counter stored in the verifying key equals the length of format_instance, and "
                   "the length checks of zk_stdlib::verify / batch_verify accept a raw vector only if its length is "
                   "that recorded count = the sum of the type-determined lengths (verifier_insists_on_count, "
                   "batch_verifier_insists_on_count, verify_ok_iff); why the comparison must be exact is proved too "
                   "(instance_zero_padding, exact_count_needed: the PLONK layer cannot tell a vector from the same "
                   "vector followed by zeros, the weaker check of seeded defect C08-2 lets two distinct vectors "
                   "through). The limb parameters and moduli are regenerated from the Rust sources on every run and "
                   "their side conditions re-proved by kernel evaluation. Correspondence: the model's encoders vs "
                   "Instantiable::as_public_input on boundary values; for every value and entry point (assign + "
                   "constrain_as_public_input, assign_as_public_input, committed column, constants, and values that "
                   "are the RESULT of in-circuit arithmetic: chains of lazy sums, products then sums, linear "
                   "combinations, negations for each emulated field; negation, one and two complete additions for "
                   "each curve; BigUint arithmetic through ZKIR) the compiled circuit's copy constraints onto the "
                   "instance columns (read off the mock prover's permutation) must be rows 0..len tied to cells "
                   "holding the encoding, encode(v) must satisfy the circuit and every single-position edit must be "
                   "rejected; relations exposing 0..40 mixed inputs: nb_public_inputs written into the serialized "
                   "MidnightVK = format_instance length; real keygen/prove/verify for relations exposing 0..N values "
                   "of mixed types with raw vectors of length nb-1 (trailing value zero and non-zero, also all "
                   "trailing zeros stripped), nb, nb with the last element edited, nb+1 (0 and 1 appended), each "
                   "with the honest proof AND with a proof produced by a prover running the protocol on that very "
                   "vector, through verify, batch_verify and the PLONK verifier without the zk_stdlib check: only "
                   "the exact vector is accepted by both entry points, although the PLONK layer alone accepts the "
                   "zero-truncated and zero-extended ones. Round 5 (several handles, committed column): the model "
                   "now has the Rc structure of NativeChip explicitly (a store of counter cells, handles holding "
                   "references; derive(Clone) = same cells): counters_shared_across_handles / counters_shared_general "
                   "(exposing any interleaving of items through any handles that reference one pair of cells is the "
                   "handle-free two-counter machine on the sequence of items: rows are a function of the sequence "
                   "only), handles_rows_consecutive (rows 0,1,2,.. on each column, the two columns counting "
                   "independently), handle_step_agrees + handles_instance_satisfies_iff ((committed, plain) satisfies "
                   "both columns' copy constraints iff it is (concatenated committed encoders, concatenated plain "
                   "encoders)), and the witness per_handle_counters_collide / per_handle_first_rows_collide (one "
                   "committed counter per clone, as seeded defect C08-4 has it: two committed cells exposed through "
                   "two different handles both get row 0; the circuit of the seed's demo rejects the honest "
                   "vector). Tie: a circuit built like ZkStdLib::new / the IVC example (native chip, two native "
                   "gadgets on clones, foreign BLS12-381 ECC chip holding its own gadget clone, its base-field chip, "
                   "VerifierGadget) exposes sequences of (handle, column, value) steps - natives, bits, bytes on the "
                   "plain and the COMMITTED column through chip / gadget / second gadget / the clone inside the ECC "
                   "chip, points, emulated field elements and accumulators (plain and with committed scalars) in "
                   "between: the bound rows of BOTH instance columns read off the mock prover must be the model's "
                   "(exposeVia codeEnv: the handle environment is derived from the shape of struct NativeChip "
                   "regenerated by translator c08_chip - derive list, field types, which counter and column each "
                   "exposure function uses; code_env_shared, code_handles_threaded, relation_handles_irrelevant, "
                   "handles_edits_rejected), MockProver with (encode committed, encode plain) must pass and every "
                   "single-position edit of either column must fail. Real keygen/prove/verify with "
                   "committed_instance = Some(commit_to_instances(format_committed_instances(witness))) as the "
                   "zk_stdlib examples do: accepted; None, batch_verify (no committed instances), a commitment to "
                   "every single-position edit of the committed vector, an edited / truncated / extended plain "
                   "vector: rejected (verify_committed_ok_iff); the commitment ignores trailing zeros "
                   "(commitKey_append_zeros, observed: pad0=ok). Fixed-base names: fixed_base_names / "
                   "fixed_commitment_name / perm_commitment_name and the BTreeMap key order are mirrored and "
                   "compared with the running code (names lines, up to 101 commitments); assign_fixed_consistent: "
                   "AssignedMsm::assign (values in key order, names sorted, zipped) rebuilds the off-circuit map for "
                   "any asymmetric order; assign_without_sort_permutes is the witness of seeded defect C08-3; "
                   "accumulators with the library's own 14 and 24 canonical (unsorted) names are exposed in the "
                   "quick tier",
    # Every `Instantiable` / `PublicInputInstructions` / `CommittedInstanceInstructions` impl of circuits/, zk_stdlib
    # and the IR value types of zkir (publish.rs).
    # columns: type | impls (file:line at the pinned commit) | encode_injective | exposure theorem | trace tie (paths)
    "coverage_table": [
        "AssignedBit | native_chip.rs:1033 Instantiable, :713 + native_gadget.rs:1087 PublicInput, native_gadget.rs:547 Committed | encode_injective (Val.bit) | cells_eq_encode + expose_binds | c,a,f,m",
        "AssignedByte | native_gadget.rs:114, :508, :547 | encode_injective (Val.byte) | cells_eq_encode + expose_binds | c,a,f,m",
        "AssignedNative | utils/types.rs:64, native_chip.rs:623/:658, native_gadget.rs:1020/:547 | encode_injective (Val.native) | cells_eq_encode + expose_binds | c,a,f,m,d0",
        "AssignedField<F,K,P> | field_chip.rs:124, :488 | encode_injective_field, decode_encode_field; typed for secp_base, secp_scalar, bls_base, bn_base, c25519_base, c25519_scalar (params_sound) | cells_eq_encode (normalize assumed: C05) | secp_base/secp_scalar/bls_base: c,a,f,d0..d4 (after add_constant, neg, sum chain, mul+add+sub, linear combination); c25519_*: encoder only; bn_base: translator table + theorem only (the impl is behind the circuits feature dev-curves, which the harness does not enable)",
        "AssignedForeignPoint<F,C,B> | ecc_chip.rs:180, :319 | encode_injective_point (identity flag) | expose_point_agrees | secp256k1, BLS12-381 G1: c,a,f,d0 (negate), d1 (add), d2 (two adds; computed identity)",
        "AssignedNativePoint<Jubjub> | edwards_chip.rs:87, :825 | encode_injective (Val.jpoint) | cells_eq_encode | c,a,f,d0,d1,d2",
        "AssignedScalarOfNativeCurve<Jubjub> | edwards_chip.rs:119, :864 | encode_injective_jscalar | jscalar_expose_agrees_iff, cells_eq_encode_jscalar, jscalar_long_satisfied_but_miscounted (finding jscalar-exposure:bits>252) | c,a,f,d0 (convert),d1,d31,d32,d64 (scalar_from_le_bytes)",
        "AssignedBigUint (nb_bits) | biguint/types.rs:91, biguint_gadget.rs:322 | encode_injective_biguint, encode_biguint_total | biguint_expose_agrees, biguint_derived_bound_count, biguint_declared_bound_checked | encoder: 0..11 limbs (quick), ..43 (thorough); exposure c,f,d0 (from_le_bytes): 1..3 limbs (quick), 1..5 (thorough); after add/mul/sub/modexp through ZKIR programs; declared-bound guard (biguint_declared_bound_checked) on 39 (assigned, declared) pairs",
        "AssignedVk | verifier/mod.rs:87, verifier_gadget.rs:88 | assumption (collision resistance of transcript_repr); two keys compared | cells = [repr] (model), expose_binds | assign_vk_as_public_input on two real keys",
        "AssignedMsm | verifier/msm.rs:210 (+ constrain_as_public_input, with_committed_scalars) | encode_injective_msm (fixed shape) | expose_accumulator_agrees | off-circuit on many shapes; in-circuit as part of accumulators",
        "AssignedAccumulator | verifier/accumulator.rs:195, verifier_gadget.rs:121 | encode_injective_accumulator, accumulator_committed_split | expose_accumulator_agrees (plain and committed scalars) | VerifierGadget circuits, plain and committed column",
        "NativeChip clones (Rc counters) | native_chip.rs:115 struct NativeChip, :140 new, derive(Clone); native_gadget.rs:547, verifier/types.rs:152 | n/a | counters_shared_across_handles, handles_rows_consecutive, handles_instance_satisfies_iff, per_handle_counters_collide | handles.rs: chip, gadget, g2, eccsc (clone inside ForeignEccChip), ecc, ff, ver x plain/committed",
        "committed instance at the verifier | zk_stdlib/src/lib.rs:1763 prove (format_committed_instances), :1795 verify (committed_instance), :1827 batch_verify; proofs prover.rs:36 commit_to_instances | n/a | verify_committed_ok_iff, commitKey_append_zeros | comrel.rs: real proofs, Some / None / batch / edited commitments / plain variants",
        "fixed-base names | verifier/mod.rs:94, :99, :142; verifier/msm.rs:310 AssignedMsm::assign | n/a | assign_fixed_consistent, strLt_asymm, assign_without_sort_permutes | names lines (7 shapes), accumulators with 14 / 24 canonical names",
        "ZkStdLib (dispatch) | zk_stdlib/src/lib.rs:861, :892 | n/a | n/a | every case above goes through it",
        "IR values (Bool, Bytes, Native, BigUint, JubjubPoint, JubjubScalar) | zkir publish.rs: CircuitValue::as_public_input, publish_incircuit | encode_injective (Val.bytes etc.) | cells_eq_encode | ZKIR programs: loaded, constant, computed, converted values",
        "FakePoint<C> | aggregator/src/light_self_emulation.rs:39, :138 | NOT COVERED (test-only mock type of the aggregator, not in the property's anchors) | - | -",
    ],
    "trusted_base": [
        "gadget-level soundness of assign / normalize / linear_combination / range checks (properties C04-C06) is "
        "assumed at the cell level: the model takes the honest in-circuit representation of a value as given",
        "moduli of fields defined outside /repo (k256, bn256, curve25519 scalar) are constants of the model, compared "
        "with the running code on every run",
        "verify_ok_iff models the PLONK verifier as: accepts iff the transcripts absorb the same (length, values) and "
        "the zero-padded instance satisfies the copy constraints; the accepting direction is observed on every run "
        "(also without the zk_stdlib check), the rejecting direction is the soundness of the proof system (C01-C03)",
        "verifyCommittedVerdict models commit_to_instances as an injective function of the zero-padded column "
        "(binding of the commitment scheme); accepting direction observed on real proofs, rejecting direction = soundness "
        "of the proof system",
        "the handle model identifies a gadget with the NativeChip clone it holds; that every gadget of the library "
        "reaches the instance columns only through such a clone is observed (bound rows of the real circuits), not proved",
    ],
    "assumptions": [
        "distinct verifying keys have distinct transcript_repr (collision resistance of the key hash)",
        "MSM/accumulator injectivity is for a fixed shape (number of terms, fixed-base names), which the circuit fixes",
    ],
    "level_text": "Kernel-checked Lean theorems about an executable model of every public-input encoder, of the "
                  "in-circuit exposure with its two shared instance-row counters (plain and committed column, any number of chip "
                  "handles) and of the verifier's length and committed-instance checks, over "
                  "parameter tables regenerated from the Rust sources; the model and the property's oracle are "
                  "checked against the real encoders, the real compiled circuits, real verifying keys and real "
                  "proofs (verify with and without a committed instance, batch_verify) on every run",
    "level_note": "Trusted: Lean kernel, the translator, the correspondence harness and driver. Jubjub scalars: the "
                  "agreement theorem is an exact characterisation (bit vectors of at most 254 bits agree, longer ones "
                  "bind the encoding followed by zero rows and are miscounted): the recorded finding "
                  "jscalar-exposure:bits>252, proved with a concrete witness. The count theorems are tied to "
                  "zk_stdlib::verify / batch_verify by real proofs for every length variant; the correspondence is "
                  "deliberately tight on the error class (InvalidInstances before any PLONK work). The committed "
                  "column has no recorded count: a committed vector and the same vector followed by zeros are the "
                  "same committed instance (proved and observed); that all clones of NativeChip share the counters is "
                  "a theorem about the Rc model and is tied to the code by multi-handle circuits on both columns "
                  "(seeded defect C08-4 is the counter-model of the witness lemma) and by the translator c08_chip "
                  "(derive list, field types and the read-bind-increment shape of the two exposure functions of "
                  "NativeChip, re-proved by code_env_shared; deliberately tight on that syntactic shape: rewriting "
                  "`*offset += 1` differently makes the translator refuse the source). Not covered: handles that "
                  "are cloned in the middle of a synthesis; committed exposure through ZkStdLib goes through one "
                  "handle only (the library offers no other), so the real proofs with a committed instance "
                  "exercise the verifier side, not the handle sharing",
    "timeout": {"quick": 900, "thorough": 3600, "search": 900},
}
