CHECK = {
    "lean_module": "MidnightZK.Props.C08",
    "harness": "h-c08",
    "translators": ["c08_params"],
    "level": "proof",
    "technique": "Lean 4 proofs over an executable model + generated parameter tables + structural correspondence on real "
                 "circuits, real keys and real proofs (KZG, ParamsKZG::unsafe_setup)",
    "rule": "one case per (value, entry point) pair: the real off-circuit encoder on the value, and the real circuit "
            "exposing it (zk_stdlib Relation / verifier-gadget circuit) run through the mock prover; one case per "
            "(relation, raw instance vector, proof origin) triple for the verifier's count check; distinctness by "
            "hash of the request line (type, entry point, value / steps, vectors)",
    "explanation": "Lean theorems: every encoder (bit, byte, native, emulated field, foreign point with identity flag, "
                   "Jubjub point/scalar, BigUint(nb), vk identity, MSM, accumulator, IR bytes) is injective under the "
                   "type's well-formedness, has a type-determined length, the in-circuit exposure of an honestly "
                   "assigned value binds exactly the encoding (for Jubjub scalars: an exact if-and-only-if in the "
                   "bit-vector length, and for every length the bound cells are the encoding followed by zero rows), "
                   "the instance-row counter stored in the verifying key equals the length of format_instance, and "
                   "the length checks of zk_stdlib::verify / batch_verify accept a raw vector only if its length is "
                   "that recorded count = the sum of the type-determined lengths (verifier_insists_on_count, "
                   "batch_verifier_insists_on_count, verify_ok_iff); why the comparison must be exact is proved too "
                   "(instance_zero_padding, exact_count_needed: the PLONK layer cannot tell a vector from the same "
                   "vector followed by zeros, the weaker check of seeded defect C08-2 lets two distinct vectors "
                   "through). The limb parameters and moduli are regenerated from the Rust sources on every run and "
                   "their side conditions re-proved by kernel evaluation. Correspondence: the model's encoders vs "
                   "Instantiable::as_public_input on boundary values; for every value and entry point (assign + "
                   "constrain_as_public_input, assign_as_public_input, committed column, constants, and values that "
                   "are the RESULT of in-circuit arithmetic: chains of lazy sums, products then sums, linear "
                   "combinations, negations for each emulated field; negation, one and two complete additions for "
                   "each curve; BigUint arithmetic through ZKIR) the compiled circuit's copy constraints onto the "
                   "instance columns (read off the mock prover's permutation) must be rows 0..len tied to cells "
                   "holding the encoding, encode(v) must satisfy the circuit and every single-position edit must be "
                   "rejected; relations exposing 0..40 mixed inputs: nb_public_inputs written into the serialized "
                   "MidnightVK = format_instance length; real keygen/prove/verify for relations exposing 0..N values "
                   "of mixed types with raw vectors of length nb-1 (trailing value zero and non-zero, also all "
                   "trailing zeros stripped), nb, nb with the last element edited, nb+1 (0 and 1 appended), each "
                   "with the honest proof AND with a proof produced by a prover running the protocol on that very "
                   "vector, through verify, batch_verify and the PLONK verifier without the zk_stdlib check: only "
                   "the exact vector is accepted by both entry points, although the PLONK layer alone accepts the "
                   "zero-truncated and zero-extended ones",
    # Every `Instantiable` / `PublicInputInstructions` / `CommittedInstanceInstructions` impl of circuits/, zk_stdlib
    # and the IR value types of zkir (publish.rs).
    # columns: type | impls (file:line at the pinned commit) | encode_injective | exposure theorem | trace tie (paths)
    "coverage_table": [
        "AssignedBit | native_chip.rs:1033 Instantiable, :713 + native_gadget.rs:1087 PublicInput, native_gadget.rs:547 Committed | encode_injective (Val.bit) | cells_eq_encode + expose_binds | c,a,f,m",
        "AssignedByte | native_gadget.rs:114, :508, :547 | encode_injective (Val.byte) | cells_eq_encode + expose_binds | c,a,f,m",
        "AssignedNative | utils/types.rs:64, native_chip.rs:623/:658, native_gadget.rs:1020/:547 | encode_injective (Val.native) | cells_eq_encode + expose_binds | c,a,f,m,d0",
        "AssignedField<F,K,P> | field_chip.rs:124, :488 | encode_injective_field, decode_encode_field; typed for secp_base, secp_scalar, bls_base, bn_base, c25519_base, c25519_scalar (params_sound) | cells_eq_encode (normalize assumed: C05) | secp_base/secp_scalar/bls_base: c,a,f,d0..d4 (after add_constant, neg, sum chain, mul+add+sub, linear combination); c25519_*: encoder only; bn_base: translator table + theorem only (the impl is behind the circuits feature dev-curves, which the harness does not enable)",
        "AssignedForeignPoint<F,C,B> | ecc_chip.rs:180, :319 | encode_injective_point (identity flag) | expose_point_agrees | secp256k1, BLS12-381 G1: c,a,f,d0 (negate), d1 (add), d2 (two adds; computed identity)",
        "AssignedNativePoint<Jubjub> | edwards_chip.rs:87, :825 | encode_injective (Val.jpoint) | cells_eq_encode | c,a,f,d0,d1,d2",
        "AssignedScalarOfNativeCurve<Jubjub> | edwards_chip.rs:119, :864 | encode_injective_jscalar | jscalar_expose_agrees_iff, cells_eq_encode_jscalar, jscalar_long_satisfied_but_miscounted (finding jscalar-exposure:bits>252) | c,a,f,d0 (convert),d1,d31,d32,d64 (scalar_from_le_bytes)",
        "AssignedBigUint (nb_bits) | biguint/types.rs:91, biguint_gadget.rs:322 | encode_injective_biguint, encode_biguint_total | biguint_expose_agrees, biguint_derived_bound_count, biguint_declared_bound_checked | encoder: 0..11 limbs (quick), ..43 (thorough); exposure c,f,d0 (from_le_bytes): 1..3 limbs (quick), 1..5 (thorough); after add/mul/sub/modexp through ZKIR programs; declared-bound guard (biguint_declared_bound_checked) on 39 (assigned, declared) pairs",
        "AssignedVk | verifier/mod.rs:87, verifier_gadget.rs:88 | assumption (collision resistance of transcript_repr); two keys compared | cells = [repr] (model), expose_binds | assign_vk_as_public_input on two real keys",
        "AssignedMsm | verifier/msm.rs:210 (+ constrain_as_public_input, with_committed_scalars) | encode_injective_msm (fixed shape) | expose_accumulator_agrees | off-circuit on many shapes; in-circuit as part of accumulators",
        "AssignedAccumulator | verifier/accumulator.rs:195, verifier_gadget.rs:121 | encode_injective_accumulator, accumulator_committed_split | expose_accumulator_agrees (plain and committed scalars) | VerifierGadget circuits, plain and committed column",
        "ZkStdLib (dispatch) | zk_stdlib/src/lib.rs:861, :892 | n/a | n/a | every case above goes through it",
        "IR values (Bool, Bytes, Native, BigUint, JubjubPoint, JubjubScalar) | zkir publish.rs: CircuitValue::as_public_input, publish_incircuit | encode_injective (Val.bytes etc.) | cells_eq_encode | ZKIR programs: loaded, constant, computed, converted values",
        "FakePoint<C> | aggregator/src/light_self_emulation.rs:39, :138 | NOT COVERED (test-only mock type of the aggregator, not in the property's anchors) | - | -",
    ],
    "trusted_base": [
        "gadget-level soundness of assign / normalize / linear_combination / range checks (properties C04-C06) is "
        "assumed at the cell level: the model takes the honest in-circuit representation of a value as given",
        "moduli of fields defined outside /repo (k256, bn256, curve25519 scalar) are constants of the model, compared "
        "with the running code on every run",
        "verify_ok_iff models the PLONK verifier as: accepts iff the transcripts absorb the same (length, values) and "
        "the zero-padded instance satisfies the copy constraints; the accepting direction is observed on every run "
        "(also without the zk_stdlib check), the rejecting direction is the soundness of the proof system (C01-C03)",
    ],
    "assumptions": [
        "distinct verifying keys have distinct transcript_repr (collision resistance of the key hash)",
        "MSM/accumulator injectivity is for a fixed shape (number of terms, fixed-base names), which the circuit fixes",
    ],
    "level_text": "Kernel-checked Lean theorems about an executable model of every public-input encoder, of the "
                  "in-circuit exposure with its instance-row counter and of the verifier's length checks, over "
                  "parameter tables regenerated from the Rust sources; the model and the property's oracle are "
                  "checked against the real encoders, the real compiled circuits, real verifying keys and real "
                  "proofs (verify and batch_verify) on every run",
    "level_note": "Trusted: Lean kernel, the translator, the correspondence harness and driver. Jubjub scalars: the "
                  "agreement theorem is an exact characterisation (bit vectors of at most 254 bits agree, longer ones "
                  "bind the encoding followed by zero rows and are miscounted): the recorded finding "
                  "jscalar-exposure:bits>252, proved with a concrete witness. The count theorems are tied to "
                  "zk_stdlib::verify / batch_verify by real proofs for every length variant; the correspondence is "
                  "deliberately tight on the error class (InvalidInstances before any PLONK work)",
    "timeout": {"quick": 900, "thorough": 3600, "search": 900},
}
