CHECK = {
    "lean_module": "MidnightZK.Props.C06",
    "harness": "h-c06",
    "translators": ["c06_gates"],
    "level": "proof",
    "rule": "one case = one (chip, instruction, operand class, scalar class) synthesised by the real chip and "
            "checked by the real MockProver; non-trivial = every case (distinctness by hash of the request "
            "line, which carries the operand coordinates)",
    "explanation": "Lean theorems over the gate polynomials dumped from the real EccChip::configure (conditional-add, "
                   "double, membership) and over the field identities the foreign slope/tangent/lambda-squared/on-curve "
                   "gates assert; executable Lean models of the native twisted-Edwards chip (values and the full content "
                   "of the nine ECC columns) and of the foreign Weierstrass chip (values, identity flags) compared with "
                   "the real chips on every instruction x operand class x scalar class; fault injection (hook H1) on the "
                   "advice cells each instruction writes",
    "trusted_base": [
        "group arithmetic of midnight-curves / k256 used as reference for the expected results (cross-checked by C11)",
        "CRT lift of the foreign-field identities (the foreign gates are taken at the level of the field identity they assert; C05)",
    ],
    "level_text": "Kernel-checked Lean theorems about the dumped gate polynomials of the native ECC chip and about the field "
                  "identities asserted by the foreign ECC gates, plus executable models checked against the real chips "
                  "through MockProver on every run",
    "level_note": "Partial: associativity of the affine laws and the completeness side conditions (d non-square, -1 square) are "
                  "explicit hypotheses; the foreign gates are modelled at the level of the emulated-field identity (C05 covers "
                  "the emulation); hash-to-curve is tied to the CPU reference by correspondence only",
    "assumptions": [
        "associativity of the twisted-Edwards and Weierstrass affine laws (hypothesis EdAssoc / group-law structure)",
        "primality of the native modulus (Euler criterion for d is kernel-evaluated; the step to 'd is a non-square' uses primality)",
    ],
    "technique": "gate ASTs dumped from configure + grind over Lean.Grind.Field; induction over the rows of the mul region",
    "timeout": {"quick": 900, "thorough": 3000, "search": 1200},
}
