CHECK = {
    "lean_module": "MidnightZK.Props.C06",
    "harness": "h-c06",
    "translators": ["c06_gates", "c06_htc"],
    "level": "proof",
    "rule": "one case = one (chip, instruction, operand class, scalar class) synthesised by the real chip and "
            "checked by the real MockProver; non-trivial = every case (distinctness by hash of the request "
            "line, which carries the operand coordinates). Deliberately tight: the structural fingerprints "
            "(`fingerprint`, `shape`, `acts` lines) change under any edit that adds, drops or reorders a "
            "constraint-emitting call of an ECC instruction, including benign ones (e.g. swapping two "
            "independent assertions); value lines do not. The `jub fingerprint map_to_curve` line and the theorem "
            "svdw_step_kinds_agree (kinds of the numbered steps extracted from mtc_cpu.rs and mtc.rs) are tight in the same "
            "way: renumbering the step comments or replacing an instruction by an equivalent one of another kind fires",
    "explanation": "Lean theorems over the gate polynomials dumped from the real EccChip::configure (conditional-add, "
                   "double, membership) and over the field identities the foreign slope/tangent/lambda-squared/on-curve "
                   "gates assert. Native chip: the twisted-Edwards law is proved complete AND associative (two degree-15 "
                   "polynomial identities re-checked by the kernel), so EccChip::mul is proved to return [n]P for bit "
                   "vectors of any length (n as an integer, scalar_mul_mod_order for values at/above the group order) "
                   "from the gates alone. Foreign chip: add/double/negate/select and the identity swap of "
                   "mul_by_constant over coordinates; incomplete_add with each exceptional case classified (P=-Q "
                   "unsatisfiable, P=Q unconstrained, identity excluded by the flag equality); the table loop of "
                   "windowed_msm proved from the single emitted incomplete_assert_different_x; mul_by_u128 and the "
                   "window loop mirrored as relations whose additions are incomplete (abstract commutative group) and "
                   "proved from the side conditions the chip emits / relies on, with a kernel-checked counterexample "
                   "when the order condition fails. Executable Lean models of both chips (values, the nine native ECC "
                   "columns, identity flags, gate activations, activation counts) compared with the real chips on every "
                   "instruction x operand class x scalar class, including BLS12-381 curve points of order 3 and 11; "
                   "fault injection (hook H1) on advice cells and forged result points (hook ecc::foreign::verif_hooks: "
                   "prover-chosen coordinates of a fresh point) on every exceptional operand class of add/double. "
                   "Hash-to-curve (Jubjub): the map-to-curve parameters Z, A, B, J, K are re-parsed from mtc_params.rs on every "
                   "run, c1..c4 recomputed and kernel-checked against their defining equations (svdw_constants_spec, "
                   "montgomery_constants_spec) and compared with C::c1()..C::c4() of the running code; a step-by-step Lean "
                   "mirror of the 36-step Shallue-van de Woestijne listing, the two rational maps and the cofactor clearing "
                   "is compared with the three stages of the CPU reference (hook verif_map_to_jubjub_steps), with its final "
                   "subgroup point, with the point returned by the real in-circuit gadget under MockProver together with the "
                   "membership row and the double-and-add rows of clear_cofactor, and with hash_to_curve (CPU and in-circuit) "
                   "given the two squeezed sponge outputs; the inputs include the four exceptional u (c1*u^2 = +-1, where step 6 "
                   "inverts zero), computed independently by the harness from the running constants and by the model from the "
                   "parsed ones, u = 0, +-1, 2, (p+-1)/2 and random ones; the CPU reference runs under catch_unwind and a panic "
                   "or any disagreement with the circuit is a violation with the failing u. Theorems: product identity of the "
                   "three candidates, one candidate is always a square (exceptional inputs included), the selected x has a "
                   "square g(x) so the output lies on the curve for every u, both rational maps keep the point on the curve "
                   "(exceptional cases of montgomery_to_edwards included), and the in-circuit gadget is deterministic "
                   "(is_square bit forced for a non-zero argument, g(x1), g(x2) never zero on Jubjub, the two square-root "
                   "witnesses give the same output). mul_by_constant: the digit fold is mirrored with its u128 truncation "
                   "(mul_by_constant_digits, mul_by_constant_branch_cover) and compared at 2^64-1, 2^64, 2^64+1, 2^127, 2^127+1, "
                   "2^128-1, 2^128, 2^128+1",
    "trusted_base": [
        "group arithmetic of midnight-curves / k256 used as reference for the expected results (cross-checked by C11)",
        "native-field instructions used by map_to_curve (mul, mul_by_constant, add_constant, linear_combination, inv0, is_square, "
        "sgn0, select, is_zero, assert_equal) taken at the level of the field operation they compute (C04)",
        "CRT lift of the foreign-field identities (the foreign gates are taken at the level of the field identity they assert; C05)",
        "the step from the coordinate-level theorems of the foreign chip to the abstract-group loop theorems: that the points "
        "of y^2 = x^3 + b with the chord-tangent law form a commutative group is not proved (it is for the Edwards curve)",
    ],
    "level_text": "Kernel-checked Lean theorems about the dumped gate polynomials of the native ECC chip (including "
                  "completeness and associativity of the addition law, hence the full scalar-multiplication loop), about "
                  "the field identities and the wiring of the foreign ECC instructions with every exceptional case of "
                  "incomplete addition classified, and about the Jubjub map-to-curve (every input lands on the curve, "
                  "exceptional inputs included; the in-circuit gadget admits one output), plus executable models checked "
                  "against the real chips through MockProver (honest, faulted and forged witnesses) and against the CPU "
                  "hash-to-curve reference on every run",
    "level_note": "Partial: the completeness side conditions of the Edwards law (d non-square, -1 square) are explicit "
                  "hypotheses (Euler criterion kernel-evaluated; primality of the modulus assumed); associativity of the "
                  "Edwards law is proved. Foreign chip: instruction-level theorems are over the emulated-field "
                  "identities (C05 covers the emulation); mul_by_u128 / windowed_msm are proved over an abstract "
                  "commutative group with incomplete additions, the Weierstrass group axioms themselves are not proved; "
                  "GLV split, msm de-duplication and the lookup-based multi_select are tied by correspondence (values, "
                  "activation counts, fingerprints) only. Map-to-curve: the theorems are over an arbitrary field with the "
                  "constants' equations as hypotheses (kernel-checked for Jubjub) and 'the product of two non-squares is a "
                  "square' as an explicit hypothesis (true in every finite field, not proved here); that the CPU and "
                  "in-circuit listings compute the modelled steps is tied by correspondence (stages, result, ECC rows, "
                  "fingerprint, step kinds extracted from both sources), the base_field instructions themselves (mul, inv0, "
                  "is_square, sgn0, select) are C04's; membership of the cleared point in the prime-order subgroup is checked "
                  "by the oracle only (needs the group order); the Poseidon sponge in front of map_to_curve is C07's. Jubjub "
                  "compression: repr_J is proved injective on curve points (repr_J_injective, repr_J_abscissa_up_to_sign) and "
                  "the model's encoding is compared with to_bytes of the curve library on every map-to-curve output; the "
                  "in-circuit encoder (zkir into_bytes_incircuit) and decompression are not driven by this harness. Observation (not a violation of C06 on "
                  "Jubjub): FieldInstructions::is_square accepts both bits for the argument 0 (is_square_zero_bit_free); "
                  "inside map_to_curve the argument is never 0 (svdw_gx_never_zero + jubjub_svdw_gx_nonzero_euler). Known "
                  "findings (recorded, not repaired): mul_by_constant >= 2^128 on the identity; BLS12-381 points of small "
                  "order reach incomplete_add with equal operands (honest proof rejected, forged result accepted); the forged "
                  "runs (`bls mulc_forge`) are made only where the forging prover and the model's incAddForge are defined: "
                  "the LAST incomplete_add of mul_by_u128 has equal operands and no earlier one is exceptional (the harness "
                  "re-derives this by simulating the loop on discrete logs and skips a table entry that does not satisfy it)",
    "assumptions": [
        "primality of the native modulus (Euler criterion for d is kernel-evaluated; the step to 'd is a non-square' uses primality)",
        "in the native field the product of two non-squares is a square (hypothesis hmul of svdw_candidates_one_is_square / "
        "svdw_output_on_curve; holds in every finite field)",
        "the points of the emulated Weierstrass curves form a commutative group under the chord-tangent law (loop-level theorems of the foreign chip)",
        "every non-identity point handed to mul_by_u128 has no multiple m*P = O with 0 < m < 2^128 (true on secp256k1 and in the "
        "prime-order subgroup of BLS12-381 G1; false for BLS12-381 curve points of small order: recorded finding)",
    ],
    "technique": "gate ASTs dumped from configure + grind over Lean.Grind.Field (ring normaliser with computer-algebra "
                 "cofactors for associativity); induction over the rows of the mul region, over the table loop and over "
                 "the relational double-and-add loops; counterexamples in ZMod 3; SvdW: the product g(x1)g(x2)g(x3) "
                 "factored by computer algebra into two halves sharing one polynomial N(w) (svdw_half12, svdw_half3), each "
                 "re-proved by grind; Tonelli-Shanks and extended Euclid in the executable model, kernel-evaluated on the "
                 "regenerated constants",
    "timeout": {"quick": 900, "thorough": 3000, "search": 1200},
}
