CHECK = {
    "lean_module": "MidnightZK.Props.C06",
    "harness": "h-c06",
    "translators": ["c06_gates"],
    "level": "proof",
    "rule": "one case = one (chip, instruction, operand class, scalar class) synthesised by the real chip and "
            "checked by the real MockProver; non-trivial = every case (distinctness by hash of the request "
            "line, which carries the operand coordinates). Deliberately tight: the structural fingerprints "
            "(`fingerprint`, `shape`, `acts` lines) change under any edit that adds, drops or reorders a "
            "constraint-emitting call of an ECC instruction, including benign ones (e.g. swapping two "
            "independent assertions); value lines do not",
    "explanation": "Lean theorems over the gate polynomials dumped from the real EccChip::configure (conditional-add, "
                   "double, membership) and over the field identities the foreign slope/tangent/lambda-squared/on-curve "
                   "gates assert. Native chip: the twisted-Edwards law is proved complete AND associative (two degree-15 "
                   "polynomial identities re-checked by the kernel), so EccChip::mul is proved to return [n]P for bit "
                   "vectors of any length (n as an integer, scalar_mul_mod_order for values at/above the group order) "
                   "from the gates alone. Foreign chip: add/double/negate/select and the identity swap of "
                   "mul_by_constant over coordinates; incomplete_add with each exceptional case classified (P=-Q "
                   "unsatisfiable, P=Q unconstrained, identity excluded by the flag equality); the table loop of "
                   "windowed_msm proved from the single emitted incomplete_assert_different_x; mul_by_u128 and the "
                   "window loop mirrored as relations whose additions are incomplete (abstract commutative group) and "
                   "proved from the side conditions the chip emits / relies on, with a kernel-checked counterexample "
                   "when the order condition fails. Executable Lean models of both chips (values, the nine native ECC "
                   "columns, identity flags, gate activations, activation counts) compared with the real chips on every "
                   "instruction x operand class x scalar class, including BLS12-381 curve points of order 3 and 11; "
                   "fault injection (hook H1) on advice cells and forged result points (hook ecc::foreign::verif_hooks: "
                   "prover-chosen coordinates of a fresh point) on every exceptional operand class of add/double",
    "trusted_base": [
        "group arithmetic of midnight-curves / k256 used as reference for the expected results (cross-checked by C11)",
        "CRT lift of the foreign-field identities (the foreign gates are taken at the level of the field identity they assert; C05)",
        "the step from the coordinate-level theorems of the foreign chip to the abstract-group loop theorems: that the points "
        "of y^2 = x^3 + b with the chord-tangent law form a commutative group is not proved (it is for the Edwards curve)",
    ],
    "level_text": "Kernel-checked Lean theorems about the dumped gate polynomials of the native ECC chip (including "
                  "completeness and associativity of the addition law, hence the full scalar-multiplication loop) and about "
                  "the field identities and the wiring of the foreign ECC instructions with every exceptional case of "
                  "incomplete addition classified, plus executable models checked against the real chips through MockProver "
                  "(honest, faulted and forged witnesses) on every run",
    "level_note": "Partial: the completeness side conditions of the Edwards law (d non-square, -1 square) are explicit "
                  "hypotheses (Euler criterion kernel-evaluated; primality of the modulus assumed); associativity of the "
                  "Edwards law is now proved. Foreign chip: instruction-level theorems are over the emulated-field "
                  "identities (C05 covers the emulation); mul_by_u128 / windowed_msm are proved over an abstract "
                  "commutative group with incomplete additions, the Weierstrass group axioms themselves are not proved; "
                  "GLV split, msm de-duplication and the lookup-based multi_select are tied by correspondence (values, "
                  "activation counts, fingerprints) only; hash-to-curve and Jubjub (de)compression are tied to the CPU "
                  "reference by correspondence only. Known findings (recorded, not repaired): mul_by_constant >= 2^128 on "
                  "the identity; BLS12-381 points of small order reach incomplete_add with equal operands "
                  "(honest proof rejected, forged result accepted)",
    "assumptions": [
        "primality of the native modulus (Euler criterion for d is kernel-evaluated; the step to 'd is a non-square' uses primality)",
        "the points of the emulated Weierstrass curves form a commutative group under the chord-tangent law (loop-level theorems of the foreign chip)",
        "every non-identity point handed to mul_by_u128 has no multiple m*P = O with 0 < m < 2^128 (true on secp256k1 and in the "
        "prime-order subgroup of BLS12-381 G1; false for BLS12-381 curve points of small order: recorded finding)",
    ],
    "technique": "gate ASTs dumped from configure + grind over Lean.Grind.Field (ring normaliser with computer-algebra "
                 "cofactors for associativity); induction over the rows of the mul region, over the table loop and over "
                 "the relational double-and-add loops; counterexamples in ZMod 3",
    "timeout": {"quick": 900, "thorough": 3000, "search": 1200},
}
