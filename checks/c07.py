CHECK = {
    "lean_module": "MidnightZK.Props.C07",
    "harness": "h-c07",
    "translators": ["c07_poseidon", "c07_sha"],
    "level": "proof",
    "rule": "byte hashes: every message length 0..2 blocks off circuit (4 blocks thorough) and every padding-boundary "
            "length in circuit (55/56/63/64/111/112/119/120/127/128 ..., +1 block thorough); var-len vectors: every "
            "actual length 0..MAX (Poseidon MAX 2..16; SHA-256 MAX 64/128 every length in thorough, boundary lengths "
            "in quick) with zero and adversarial filler; Poseidon input lengths 0..12 in circuit (0..40 off circuit), "
            "sponge scripts in both modes; distinctness by hash of the request line",
    "explanation": "Lean theorems over an executable model of the Poseidon code (textbook permutation, shifted rounds, "
                   "round-skip identities of round_skips.rs, sponge, var-len selection) for every state / skip count / "
                   "table, over Lean reference SHA-256/512/RIPEMD-160 with the spread-table arithmetic of the chips, and "
                   "a structural model of sha256_varlen; every constant table regenerated from the Rust sources on each "
                   "run and proved to be the published one (Grain LFSR stream, cube/square roots of primes); model tied "
                   "to the implementation by running in-circuit (real chips under MockProver), off-circuit and Lean "
                   "model on the same inputs, by the row traces of the Poseidon permutation region (state, hints, "
                   "skipped-row cells, fixed constants of every round row), by a table-level tamper sweep (H2) on the "
                   "Poseidon and SHA-256 circuits and by consistent local forgeries of Poseidon round rows",
    "trusted_base": [
        "RustCrypto sha2/sha3/ripemd and blake2b_simd as second oracles; SHA3-256, Keccak-256 and BLAKE2b (third-party "
        "circuit crates sha3-circuit and blake2b_halo2, only the repo's wrappers are exercised) are compared with these "
        "crates only: test-level evidence (counters test-level:* in the distribution)",
        "MockProver (with the additive-selector fix) as the acceptance predicate of the circuits",
    ],
    "level_text": "Kernel-checked Lean theorems about an executable model of the Poseidon permutation/sponge/var-len "
                  "code (all states, all skip counts, all lengths and fillers) and about reference SHA-2 with the "
                  "spread arithmetic, padding and the Σ-gate tables of the chips, constants parsed from the sources and "
                  "proved to be the published ones, checked against the real chips (MockProver), the off-circuit "
                  "functions and RustCrypto at every boundary length",
    "level_note": "The wiring of the SHA-256/SHA-512/RIPEMD-160 chips (which cells feed which gate) is covered by digest "
                  "correspondence and tamper sampling, not by theorems; the var-len SHA-256 selection theorem is "
                  "exhaustive for MAX_LEN 64/128 (partial); Keccak/SHA3/BLAKE2b circuits are third-party (test-level); "
                  "Poseidon theorems are over an arbitrary commutative ring, the driver instance is integers mod p",
    "assumptions": [
        "the partial-round S-box position (cell WIDTH-1 instead of cell 0 of the Poseidon paper) is taken as part of "
        "the specification of this Poseidon instance",
    ],
    "timeout": {"quick": 900, "thorough": 3000, "search": 900},
}
