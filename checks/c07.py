CHECK = {
    "lean_module": "MidnightZK.Props.C07",
    "harness": "h-c07",
    "translators": ["c07_poseidon", "c07_sha"],
    "level": "proof",
    "rule": "every message length of the boundary list for each byte hash; every actual length 0..MAX of each "
            "var-len vector with zero and adversarial filler; Poseidon input lengths 0..12; distinctness by hash "
            "of the request line",
    "explanation": "Lean theorems over an executable model of the Poseidon code (textbook permutation, shifted "
                   "rounds, round-skip identities, sponge, var-len selection) and over Lean reference SHA-256/512 "
                   "with spread-arithmetic lemmas; constants regenerated from the Rust sources on every run; model "
                   "tied to the implementation by running in-circuit (MockProver), off-circuit and Lean model on "
                   "the same inputs, row traces of the Poseidon permutation region, and a table-level tamper sweep",
    "trusted_base": [
        "RustCrypto sha2/sha3/ripemd and blake2b_simd as second oracles (RIPEMD-160, Keccak-256, SHA3-256, "
        "BLAKE2b are compared with these crates only: test-level evidence)",
        "third-party circuit crates sha3-circuit and blake2b_halo2 (only the repo's wrappers are exercised)",
    ],
    "level_text": "Kernel-checked Lean theorems about an executable model of the Poseidon permutation/sponge code "
                  "and about reference SHA-2 with the spread-table arithmetic, constants parsed from the sources, "
                  "checked against the real chips (MockProver), the off-circuit functions and RustCrypto on every "
                  "boundary length",
    "level_note": "SHA-256/SHA-512/RIPEMD-160 chip wiring is covered by digest correspondence and tamper sampling, "
                  "not by theorems; Keccak/SHA3/BLAKE2b circuits are third-party (wrappers only, test-level)",
    "assumptions": ["the field modulus of the circuits is prime (Poseidon theorems hold over any commutative ring)"],
    "timeout": {"quick": 900, "thorough": 3000, "search": 600},
}
