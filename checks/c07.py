CHECK = {
    "lean_module": "MidnightZK.Props.C07",
    "harness": "h-c07",
    "translators": ["c07_poseidon", "c07_sha", "c07_shagates"],
    "level": "proof",
    "rule": "byte hashes: every message length 0..2 blocks off circuit (4 blocks thorough) and every padding-boundary "
            "length in circuit (55/56/63/64/111/112/119/120/127/128 ..., +1 block thorough); var-len vectors: every "
            "actual length 0..MAX (Poseidon MAX 2..16; SHA-256 MAX 64/128 every length in thorough, boundary lengths "
            "in quick) with zero and adversarial filler; Poseidon input lengths 0..12 in circuit (0..40 off circuit), "
            "sponge scripts in both modes; SHA-256 / SHA-512 chip wiring: EVERY chip region of a 1-block and a 2-block "
            "message (3 blocks thorough) recorded from the real synthesis and compared with the Lean emitter "
            "(552 / 696 regions per block; the structure has no other parameter than the number of blocks, several "
            "message lengths per block count), every row of the two loaded plain-spreaded tables, and the real honest "
            "witness of every SHA-256 and every SHA-512 region (one-block message; also two/three blocks in thorough) "
            "checked against the model's satisfaction predicate; every hash entry point of ZkStdLib (sha2_256, "
            "sha2_512, sha3_256, keccak_256, blake2b_256/512, poseidon) ALONE in a relation through MidnightCircuit "
            "with only its own ZkStdLibArch flag (plus sha3_256 under the keccak flag and vice versa); the buffer "
            "layout of every var-len SHA-256 case against the model's byteBuffer; distinctness by hash of the "
            "request line",
    "explanation": "Lean theorems over an executable model of the Poseidon code (textbook permutation, shifted rounds, "
                   "round-skip identities of round_skips.rs, sponge, var-len selection) for every state / skip count / "
                   "table, over Lean reference SHA-256/512/RIPEMD-160 with the spread-table arithmetic of the chips, and "
                   "a structural model of sha256_varlen; every constant table regenerated from the Rust sources on each "
                   "run and proved to be the published one (Grain LFSR stream, cube/square roots of primes). "
                   "SHA-256 chip wiring: Model/C07/ShaChip.lean mirrors sha256_chip.rs (+ types.rs, utils.rs) function by "
                   "function as an emitter of regions (selectors, tag cells, advice cells, copy constraints); the gate "
                   "polynomials and lookup arguments are dumped from the real Sha256Chip::configure on every run "
                   "(translator c07_shagates -> Gen/C07ShaGates.lean); theorems sha256_ops_sound (Maj, Ch, Sigma0/1, "
                   "sigma0/1, prepare_A/E/message_word), sha256_round_sound, sha256_schedule_sound, sha256_block_sound "
                   "(induction over the 64 rounds) and sha256_digest_sound (induction over the blocks) say: EVERY "
                   "assignment of all cells that satisfies the generated gates modulo p, both lookups and the copy "
                   "constraints of the emitted regions puts the FIPS 180-4 values in the output cells; "
                   "sha256_spread_table_spec ties the lookup predicate to the model of gen_spread_table, which is compared "
                   "row by row with the table the chip loads. SHA-512 chip wiring: the same development for sha512_chip.rs "
                   "(Model/C07/Sha512Chip.lean, gates dumped from the real Sha512Chip::configure into "
                   "Gen/C07Sha512Gates.lean by the same translator): sha512_ops_sound, sha512_round_sound, "
                   "sha512_schedule_sound, sha512_block_sound (induction over the 80 rounds), sha512_digest_sound(_native) "
                   "(induction over the blocks), sha512_spread_table_spec. Var-len SHA-256: sha256_varlen_select_spec / "
                   "sha256_varlen_digest_spec hold for EVERY MAX_LEN multiple of 64, every len and filler (induction over "
                   "the chunks + naturality of compute_padding + kernel evaluation of the 65 final-chunk lengths). Var-len "
                   "Poseidon: poseidon_varlen_tail_independent for every RATE, WIDTH, MAX_LEN, len (the digest only depends "
                   "on the payload cells: neither on the filler in front nor on the unused tail of the last chunk), and the "
                   "literal loop of constrain_last_chunk (the function the driver runs) equals the closed form "
                   "(constrain_last_chunk_spec, varlen_loop_eq_closed_form). Model tied to the implementation by running in-circuit (real "
                   "chips under MockProver), off-circuit and Lean model on the same inputs, by the region-relative "
                   "synthesis trace of the SHA-256 and SHA-512 chips (recording Assignment backend driving the real floor "
                   "planner: one line per region, compared with the emitters; a dropped copy constraint, selector, tag or "
                   "cell changes a line), by checking the real prover's witness of every SHA-256 and SHA-512 region against the "
                   "model's Sat (so the hypothesis of the soundness theorems is not stronger than the real circuit), by the "
                   "row traces of the Poseidon permutation region, by table-level tamper sweeps (H2) on the Poseidon and "
                   "SHA-256 circuits (search tier: every cell of the chip regions of two rounds, two schedule steps and the "
                   "state addition of SHA-256; of a schedule step, round 0 and the end of the state addition of SHA-512) and by consistent local forgeries of Poseidon round rows. The trace tie is deliberately "
                   "tight: any change of what a chip region assigns (even a sound one, e.g. a wider carry tag) is reported "
                   "with no-failing-input-found; re-association of gate expressions and reordering of independent "
                   "assignments inside a region are not reported",
    "trusted_base": [
        "RustCrypto sha2/sha3/ripemd and blake2b_simd as second oracles; SHA3-256, Keccak-256 and BLAKE2b (third-party "
        "circuit crates sha3-circuit and blake2b_halo2, only the repo's wrappers are exercised) are compared with these "
        "crates only: test-level evidence (counters test-level:* in the distribution)",
        "MockProver (with the additive-selector fix) as the acceptance predicate of the circuits",
        "the recording Assignment backend of the harness (harness/c07/src/rec.rs) and SimpleFloorPlanner placing regions "
        "without overlap: gates are evaluated region-relatively in the Lean model (every gate of the chip only reads "
        "rows -1..+1 around its selector, inside its region)",
        "SHA-256 / SHA-512 chip theorems: stated for any prime p >= 2^66 / 2^130 (the *_native forms instantiate the "
        "dumped modulus, proved prime by the Lucas certificate of Proofs/C10/Prime.lean); cell values are canonical "
        "representatives; the conversions bytes <-> 32/64-bit words and the range of the block words are the native "
        "gadget's (C04)",
        "var-len theorems are at value level (select / is_equal_to_fixed / xor / rem of the native gadget are taken "
        "with their arithmetic meaning, C04); the compression inside sha256_varlen is the chip's "
        "(sha256_block_sound) and is compared through the digest",
    ],
    "level_text": "Kernel-checked Lean theorems about an executable model of the Poseidon permutation/sponge/var-len "
                  "code (all states, all skip counts, all lengths and fillers; var-len tail independence for every RATE), "
                  "about the SHA-256 AND the SHA-512 chip (emitters mirroring sha256_chip.rs / sha512_chip.rs + gate "
                  "polynomials dumped from the real configure: for every assignment satisfying gates, lookups and copy "
                  "constraints the output cells of every operation, of a compression round, of the message schedule, of a "
                  "whole block and of any chain of blocks hold the FIPS 180-4 values), about var-len SHA-256 for every "
                  "MAX_LEN/len/filler (compressed blocks = FIPS padding of the payload; digest = SHA-256 of the payload) "
                  "and about reference SHA-2 with the spread arithmetic and padding; constants parsed from the sources and "
                  "proved to be the published ones; emitters compared region by region with the real synthesis, honest "
                  "witnesses of both chips checked against the model's Sat, digests checked against the real chips "
                  "(MockProver), the off-circuit functions and RustCrypto at every boundary length; every ZkStdLib hash "
                  "entry point driven alone through MidnightCircuit",
    "level_note": "SHA-256/SHA-512 chips: proved from the chips' own gates/lookups/copies for the block words as 32/64-bit "
                  "inputs; byte<->word conversion and padding cells are the native gadget's (digest correspondence + "
                  "sha256/sha512_padding_spec); RIPEMD-160 wiring is still covered by digest correspondence (Lean reference "
                  "function, RustCrypto, real chip) and constants only: no emitter, no soundness theorem; var-len SHA-256 "
                  "and var-len Poseidon theorems are at value level (the selection/padding logic; not the gate level of "
                  "select/xor/is_equal of the native gadget); Keccak/SHA3/BLAKE2b circuits are third-party (test-level); "
                  "Poseidon theorems are over an arbitrary commutative ring, the driver instance is integers mod p",
    "technique": "emitter + generated gate ASTs + per-region soundness lemmas (no-wrap-around exactness, spread-sum "
                 "uniqueness, limb-list rotation lemmas) composed by induction over rounds and blocks; executable Sat "
                 "checker run on the real witness; region-relative synthesis-trace equality; parametricity (map "
                 "naturality) + kernel evaluation on position tags for compute_padding; invariant-carrying induction "
                 "over the chunk loops of the var-len gadgets",
    "assumptions": [
        "the partial-round S-box position (cell WIDTH-1 instead of cell 0 of the Poseidon paper) is taken as part of "
        "the specification of this Poseidon instance",
    ],
    "timeout": {"quick": 900, "thorough": 3000, "search": 900},
}
