import json as _json
import os as _os


def _value_channels():
    """The value -> structure channels found in the current sources by the last run of
    translators/c09_value_channels.py (file:line, enclosing fn, kind, review class, the harness
    operation that steers it)."""
    p = _os.path.join(_os.path.dirname(_os.path.abspath(__file__)), "..", "translators", "c09_value_channels.found.json")
    try:
        sites = _json.load(open(p))["sites"]
    except (OSError, ValueError, KeyError):
        return ["<run translators/c09_value_channels.py>"]
    return [f"{s['where']} fn {s['fn']} [{s['kind']}] class={s['class']}"
            + (f" exercised by: {s['exercised_by']}" if s.get("exercised_by") else "") for s in sites]


CHECK = {
    "lean_module": "MidnightZK.Props.C09",
    "harness": "h-c09",
    "translators": ["c09_value_channels"],
    "level": "proof",
    "technique": "executable model of the single-pass floor planner, keygen view and cost model, proved "
                 "value-independent in Lean; characterisation theorem 'structure + values' <=> 'erased call log "
                 "constant'; recording Assignment backend + transparent spy layouter under the circuit's real "
                 "FloorPlanner; exhaustive-over-classes witness sweep per operation circuit with the copy constraints "
                 "compared as a canonical set; syntactic inventory of every value -> structure channel of the sources "
                 "against a reviewed allow-list, regenerated on every run",
    "rule": "one circuit per library operation x {unknown witness, each boundary class, seeded random witnesses}; "
            "a case is non-trivial when it is a distinct request line (placement from shapes, full layout of the "
            "keygen run, layout of a witness run with its advice values, constant-cache sequence); operations that "
            "contain a channel of class `index` (a witness value picks a Rust index) get witnesses selecting the "
            "first, the last and other entries, and real keygen-without-witness + prove + verify of two of them",
    "explanation": "Lean theorems: placement, the backend call sequence, the keygen view (selectors, fixed cells, "
                   "fills, copies), row usage and the cost model are functions of the synthesis with advice values "
                   "erased; the planner never overlaps regions; constant cache keyed by value; a synthesiser is "
                   "'witness-free skeleton + separately supplied advice values' (the shape of the emitters of the "
                   "models of C04-C08, whose Lean types have no witness argument) iff its erased call log is the same "
                   "for all witnesses, and then it has one keygen view / one verifying key; what the permutation "
                   "argument enforces depends only on the SET of canonical copy pairs; the generated list of value -> "
                   "structure channels of the current sources is contained in the reviewed allow-list. Tie: the model "
                   "recomputes from the region-relative call log of the REAL synthesis every region start, the "
                   "digest of the whole absolute call sequence, (rows, table rows, instance rows, k) of the real "
                   "cost model, the keygen-view digest and the digest of the canonical copy-pair set; the harness "
                   "checks on the real code that the recorded structure (call by call), the copy constraints as a "
                   "canonical set of (cell, cell) pairs, vk bytes, cost model and MockProver fixed/selector/permutation "
                   "tables are identical for the unknown witness and every witness class, and that proofs made with "
                   "the witness verify under the key generated without it. The call-by-call comparison is deliberately "
                   "tight: a witness-dependent ORDER of otherwise equal calls is reported too (the detail says whether "
                   "the copy set / the induced partition are equal). The channel inventory is syntactic and "
                   "deliberately tight as well: any edit of the text of a reviewed channel site needs a new review "
                   "(edits elsewhere in the file, line shifts, renamed unrelated code do not fire)",
    "value_channels": _value_channels(),
    "trusted_base": [
        "the recording Assignment backend and the spy layouter of the harness (checked transparent on every circuit: "
        "the call sequence with and without the spy is compared)",
        "KZG commitments / proof system: used as a black box for the vk-bytes and prove-verify oracles",
        "the syntactic scanner translators/c09_value_channels.py (python): it recognises value escapes by shape "
        "(closures given to map/and_then/map_with_result that assign to / mutate captured variables, touch the "
        "layouter, or abort; discarded `.map(..);`; error_if_known_and / assert_if_known / map_with_result; effectful "
        "assign_advice closures; Value::into_option/assign inside midnight-proofs); receivers that are visibly "
        "iterators / Option / Result are skipped; `.unwrap()` inside value closures, escapes through `Debug` "
        "formatting of a Value, through interior mutability reached by a method call not in its list of mutators, "
        "or through a helper function defined elsewhere that performs the side effect are NOT recognised",
        "the review notes of translators/c09_value_channels.allow.json (human judgement per site)",
    ],
    "assumptions": [
        "the witness classes listed per operation cover the data-dependent branches of the off-circuit helpers "
        "(zero/non-zero, equal/unequal, carries, identity points, vector lengths, selected table index); a branch on a "
        "value outside every class is not exercised",
        "channels of class `abort` (a witness aborts synthesis by error/panic) and `state` (CPU-side state moved out "
        "of a Value and read back only inside later value closures) are accepted by review; the automaton chip's "
        "and the in-circuit verifier's channels are not steered by a C09 operation circuit (cost)",
    ],
    "level_text": "Kernel-checked Lean theorems that the floor-planner placement, the backend call sequence, the keygen "
                  "view (incl. the copy constraints as a set) and the cost model are functions of the circuit structure "
                  "with witness values erased (all circuits, all witnesses), and that a synthesiser has one verifying "
                  "key iff it is a witness-free skeleton plus advice values; with the model reproducing the real "
                  "placements, call sequences and copy-pair sets of every operation circuit on every run, the real code "
                  "checked structure-identical across the unknown witness and all witness classes (incl. the gadgets "
                  "that pick a table index off-circuit), and every syntactic value -> structure channel of the sources "
                  "checked against a reviewed allow-list on every run",
    "level_note": "Model determinism and the skeleton+values characterisation are proved; that each gadget of the Rust "
                  "code IS skeleton+values is established by exhaustive-over-classes correspondence plus the syntactic "
                  "channel inventory (a heuristic scanner with a reviewed allow-list), not by proof over the Rust code",
    "timeout": {"quick": 900, "thorough": 3600, "search": 900},
}
