CHECK = {
    "lean_module": "MidnightZK.Props.C09",
    "harness": "h-c09",
    "translators": [],
    "level": "proof",
    "technique": "executable model of the single-pass floor planner, keygen view and cost model, proved "
                 "value-independent in Lean; recording Assignment backend + transparent spy layouter under "
                 "the circuit's real FloorPlanner; exhaustive-over-classes witness sweep per operation circuit",
    "rule": "one circuit per library operation x {unknown witness, each boundary class, seeded random witnesses}; "
            "a case is non-trivial when it is a distinct request line (placement from shapes, full layout of the "
            "keygen run, layout of a witness run with its advice values, constant-cache sequence)",
    "explanation": "Lean theorems: placement, the backend call sequence, the keygen view (selectors, fixed cells, "
                   "fills, copies), row usage and the cost model are functions of the synthesis with advice values "
                   "erased; the planner never overlaps regions; constant cache keyed by value. Tie: the model "
                   "recomputes from the region-relative call log of the REAL synthesis every region start, the "
                   "digest of the whole absolute call sequence, (rows, table rows, instance rows, k) of the real "
                   "cost model and the keygen-view digest; the harness checks on the real code that the recorded "
                   "structure, vk bytes, cost model and MockProver fixed/selector/permutation tables are identical "
                   "for the unknown witness and every witness class, and that proofs made with the witness verify "
                   "under the key generated without it",
    "trusted_base": [
        "the recording Assignment backend and the spy layouter of the harness (checked transparent on every circuit: "
        "the call sequence with and without the spy is compared)",
        "KZG commitments / proof system: used as a black box for the vk-bytes and prove-verify oracles",
    ],
    "assumptions": [
        "the witness classes listed per operation cover the data-dependent branches of the off-circuit helpers "
        "(zero/non-zero, equal/unequal, carries, identity points, vector lengths); a branch on a value outside every "
        "class is not exercised",
    ],
    "level_text": "Kernel-checked Lean theorems that the floor-planner placement, the backend call sequence, the keygen "
                  "view and the cost model are functions of the circuit structure with witness values erased (all "
                  "circuits, all witnesses), with the model reproducing the real placements and call sequences of "
                  "every operation circuit on every run, and the real code checked structure-identical across the "
                  "unknown witness and all witness classes",
    "level_note": "Model determinism is proved; that each gadget's region closures make the same calls for every "
                  "witness is established by exhaustive-over-classes correspondence, not by proof over the Rust code",
    "timeout": {"quick": 900, "thorough": 3600, "search": 900},
}
