CHECK = {
    "lean_module": "MidnightZK.Props.C03",
    "harness": "h-c03",
    "translators": ["c03_consts"],
    "level": "proof",
    "technique": "Lean 4 proofs of the binding structure: (1) verifier schedule (instance absorption injective, every element precedes a challenge, exact proof length, "
                 "canonical scalar decoding); (2) element-by-element model of what the BLAKE2b and the Poseidon transcript hash absorb (prefix bytes / queue+length padding, "
                 "32-byte scalars, 48-byte compressed points, 2x7 limbs with identity flag) with injectivity theorems for a fixed schedule, injectivity of proof parsing for a "
                 "canonical point decoder (instantiated with C16's model of G1Affine::from_compressed); (3) root-counting theorem (Mathlib polynomials) binding a plain instance "
                 "column through its Lagrange evaluation at x; (4) model of the buffer hashed into VerifyingKey::transcript_repr with an injectivity theorem and a field-coverage "
                 "theorem over lists regenerated from the Rust sources; + exhaustive single-element mutation sweep of real proofs/statements/keys",
    "rule": "real proofs of family members (1-2 proofs each, both transcript hashes) x every proof element x {other valid value, invalid encoding, non-canonical scalar, flag bit} "
            "+ bit flips (sampled in quick, all in thorough) + trailing/truncated bytes + every public-input edit class "
            "(value, permutation, drop, append zero, move between columns, drop/extra column, committed instance, swap proofs) "
            "+ wrong vk (other k / other circuit / other fixed content) + one vk component changed at a time through VerifyingKey::from_bytes (k byte, each fixed / permutation "
            "commitment replaced or swapped with its neighbour, constraint system of other circuit parameters) + other transcript hash; "
            "correspondence lines: proof layout, instance stream, scalar decoder (both readers), point decoder (both readers) on boundary encodings, to_input of points under both hashes, "
            "`absorbed` = the complete framed stream the real hash state absorbed for every real proof (real CircuitTranscript + prepare over a logging hash state; framing re-derived by "
            "an independent BLAKE2b state / sponge that must reproduce every squeeze output) vs the model's stream computed from the statement and the PARSED proof bytes, "
            "`parse` = parse-level verdict (ok / index of the failing element / trailing bytes) of sampled mutants, `vkinput` = the buffer whose BLAKE2b hash is the key's transcript_repr",
    "explanation": "Theorems (Props/C03.lean): instances_injective, schedule_tail, every_element_bound, accepted_length, decode_canonical, decode_rejects_noncanonical (first round); "
                   "absorbed_stream_injective (+_any, _poseidon), changed_value_changes_stream, statement_injective, proof_parse_injective (generic over a canonical point decoder), "
                   "proof_parse_injective_g1_partial (C16 decoder; points with y = 0 excluded), parsed_length, parsed_reencodes, instance_eval_binds (+_lists), "
                   "instance_eval_pad_invisible, vk_repr_input_injective, vk_repr_covers, blake_framing_constants, poseidon_and_limb_constants. "
                   "Tie: every `absorbed` line compares the whole absorbed stream of a real verification with the model's (so a dropped/reordered absorb, a changed prefix, encoding, "
                   "padding or limb layout changes an impl.txt line or makes it MISMATCH); the driver additionally checks on each such line that the values at the absorb events of the "
                   "verifier schedule are the closed form `stmtVals` that statement_injective is about. The correspondence on prefixes/key/padding is deliberately tight (the harness "
                   "re-derives the framing with its own copy of the constants; the translator re-reads them into Lean as well). "
                   "Oracle: no mutant is accepted and none panics; a vk component whose change leaves transcript_repr unchanged is reported.",
    "trusted_base": ["collision resistance / random-oracle behaviour of the transcript hash (BLAKE2b, Poseidon) is assumed",
                     "KZG binding (C14) assumed",
                     "C16's model of G1Affine::from_compressed (imported; tied to the code by C16's and by this check's `point` lines) and its theorem decode_canonical",
                     "the Debug renderings of the pinned domain / constraint system are opaque byte strings in the model (their field lists are regenerated and checked, their formatting is not modelled)"],
    "assumptions": ["a changed absorbed stream changes all later challenges (ROM)",
                    "no point of order two on the BLS12-381 G1 curve (y = 0); carried as the side condition NoOrder2 of the point theorems"],
    "level_text": "Kernel-checked theorems: the absorbed BLAKE2b byte stream and Poseidon field-element blocks are injective in (vk repr, commitments, public inputs with lengths, proof elements) "
                  "for a fixed schedule; proof parsing is injective and length-exact; a plain instance column is bound by its evaluation outside <= m-1 points; the transcript_repr hash input "
                  "is injective in k / commitments / descriptions and covers every verifier-relevant key field. The consequence 'every mutant is rejected' is observed by an "
                  "exhaustive-per-element sweep on real proofs, not proved (needs ROM + KZG binding)",
    "level_note": "partial: cryptographic binding (hash ROM, KZG) assumed; points with y = 0 excluded by hypothesis (none exists; unproved); Debug formatting of the pinned constraint system "
                  "is not modelled (field coverage only: the phase of an advice column that is never queried is not in the key hash when the circuit has no challenge); "
                  "the link between the field-level instance_eval_binds and the Nat-level executable C02.instanceEvals is by correspondence (C02), not by proof",
    "timeout": {"quick": 1500, "thorough": 10800, "search": 2400},
}
