CHECK = {
    "lean_module": "MidnightZK.Props.C03",
    "harness": "h-c03",
    "translators": ["c03_consts", "c03_sites"],
    "level": "proof",
    "technique": "Lean 4 proofs of the binding structure: (1) verifier schedule (instance absorption injective, every element precedes a challenge, exact proof length, "
                 "canonical scalar decoding); (2) element-by-element model of what the BLAKE2b and the Poseidon transcript hash absorb (prefix bytes / queue+length padding, "
                 "32-byte scalars, 48-byte compressed points, 2x7 limbs with identity flag) with injectivity theorems for a fixed schedule, injectivity of proof parsing for a "
                 "canonical point decoder, instantiated at full strength with C16's model of G1Affine::from_compressed (the side condition 'no point with y = 0' is now a theorem: "
                 "the decoder's subgroup check [r]P = O fails on (x, 0) because r is odd - loop invariant of the model's double-and-add, no number theory); "
                 "(3) root-counting theorem (Mathlib polynomials) binding a plain instance column through its Lagrange evaluation at x, now also proved for the EXECUTABLE "
                 "natural-number function C02.instanceEvals (cast to ZMod p it is the field-level instEval; binding transported); "
                 "(4) model of the buffer hashed into VerifyingKey::transcript_repr with an injectivity theorem and a field-coverage theorem over lists regenerated from the Rust "
                 "sources, plus a field-by-field model of what Debug for PinnedConstraintSystem prints (order AND the condition of the multi-phase block regenerated) with the theorem "
                 "that equal printed fields give equal constraint-system views - no field left out since the repair caa493e - and the regression pair; "
                 "(5) model of the verification entry points at the parsing level (BlstPLONK::verify, zk_stdlib::batch_verify) whose exhaustion check is taken from the "
                 "regenerated list of assert_empty call sites (receiver, prepared transcript, position, conditionality), with batch_accepted_length / batch_parse_iff; "
                 "+ mutation sweep of real proofs/statements/keys through every entry point",
    "rule": "real proofs of family members (1-2 proofs each, both transcript hashes) x every proof element x {other valid value, invalid encoding, non-canonical scalar, flag bit} "
            "+ EVERY byte position of one proof per transcript hash XOR a seeded non-zero mask (byte_cover; positions covered = proof length, recorded in the evidence) "
            "+ bit flips (sampled in quick, all in thorough) + trailing/truncated bytes + every public-input edit class "
            "(value, permutation, drop, append zero, move between columns, drop/extra column, committed instance, swap proofs) "
            "+ wrong vk (other k / other circuit / other fixed content) + one vk component changed at a time through VerifyingKey::from_bytes (k byte, each fixed / permutation "
            "commitment replaced or swapped with its neighbour, constraint system of other circuit parameters) + other transcript hash; "
            "ENTRY POINTS (entry.rs, real zk_stdlib relations, both hashes): prepare+assert_empty+verify, zk_stdlib::verify, zk_stdlib::batch_verify on the singleton batch and with "
            "the mutant at each position of a batch of three, Guard::batch_verify on three guards x {trailing 1/7/48/copy of last element, truncation 1/element/half/empty, element "
            "substitutions (every third element in quick, all otherwise), public-input value/permutation/drop/append-zero/extend/empty/of-other-member, committed instance, proof of "
            "another statement, key of another relation / of the same relation with another constant, other transcript hash}: all entry points must accept the honest statements "
            "and reject every mutant; "
            "MINI circuit (mini.rs): key variants differing in one selector row / one copy constraint / one fixed cell / k (repr must differ, proof rejected), public-input edits "
            "across the two columns (swap, move, extend, truncate), zero-padding moved between columns, exhaustive search over 142 small public-input tables for two that the real "
            "prepare absorbs identically, and the advice-phase regression pair (two circuits differing only in the phase of an unqueried advice column, no challenge: transcript_reprs must differ, cross-verification must be rejected; fixed caa493e); "
            "correspondence lines: proof layout, instance stream, scalar decoder (both readers), point decoder (both readers) on boundary encodings, to_input of points under both hashes, "
            "`absorbed` = the complete framed stream the real hash state absorbed for every real proof (real CircuitTranscript + prepare over a logging hash state; framing re-derived by "
            "an independent BLAKE2b state / sponge that must reproduce every squeeze output) vs the model's stream computed from the statement and the PARSED proof bytes, "
            "`parse` = parse-level verdict (ok / index of the failing element / trailing bytes) of sampled mutants, `vkinput` = the buffer whose BLAKE2b hash is the key's transcript_repr, "
            "`verifyparse` / `batchparse` = parsing-level verdict of zk_stdlib::verify / batch_verify (index of the first rejected member found by running batch_verify on the prefixes "
            "of the batch) vs the model built on the regenerated assert_empty sites, `csdebug` = the real format!(\"{:?}\", cs.pinned()) split into its top-level fields by the harness and, "
            "independently, by the Lean driver, which checks the field names against the regenerated order list",
    "explanation": "Theorems (Props/C03.lean): instances_injective, schedule_tail, every_element_bound, accepted_length, decode_canonical, decode_rejects_noncanonical (first round); "
                   "absorbed_stream_injective (+_any, _poseidon), changed_value_changes_stream, statement_injective, proof_parse_injective (generic over a canonical point decoder), "
                   "proof_parse_injective_g1_partial (kept) and proof_parse_injective_g1 / parsed_reencodes_g1 (full: decoded_point_no_order2), parsed_length, parsed_reencodes, "
                   "instance_eval_binds (+_lists), instance_eval_pad_invisible, instance_evals_exec_is_inst_eval, instance_eval_binds_exec, vk_repr_input_injective, vk_repr_covers, "
                   "pinned_phase_condition, csDebugFieldNames_eq, vk_repr_injective_on_verifier_view_partial (equal printed fields => equal CSView, all members; `_partial` only for the opaque Debug formatting of individual members), pinned_fields_separate_phase_pair, entry_points_enforce_exhaustion, batch_member_ops_roles, "
                   "batch_accepted_length, verify_parse_eq, batch_parse_iff, batch_first_bad_none_iff, blake_framing_constants, poseidon_and_limb_constants. "
                   "Tie: every `absorbed` line compares the whole absorbed stream of a real verification with the model's (so a dropped/reordered absorb, a changed prefix, encoding, "
                   "padding or limb layout changes an impl.txt line or makes it MISMATCH); the driver additionally checks on each such line that the values at the absorb events of the "
                   "verifier schedule are the closed form `stmtVals` that statement_injective is about. The correspondence on prefixes/key/padding is deliberately tight (the harness "
                   "re-derives the framing with its own copy of the constants; the translator re-reads them into Lean as well). The assert_empty site theorems fix ROLES (receiver = "
                   "the transcript initialised from the proof and handed to prepare; after prepare; same block; error propagated), not variable names: renaming a variable or "
                   "reordering independent statements does not fire, moving the call into an `if`, dropping the `?`, or applying it to another transcript does. "
                   "Oracle: no mutant is accepted by any entry point and none panics; a vk component whose change leaves transcript_repr unchanged is reported.",
    "trusted_base": ["collision resistance / random-oracle behaviour of the transcript hash (BLAKE2b, Poseidon) is assumed",
                     "KZG binding (C14) assumed",
                     "C16's model of G1Affine::from_compressed (imported; tied to the code by C16's and by this check's `point` lines) and its theorem decode_canonical",
                     "the Debug renderings of the individual members of the pinned domain / constraint system (gates, query lists, permutation, lookups ...) are opaque strings in the "
                     "model: their names and order are regenerated and checked against the real string on every run, the injectivity of their formatting is not modelled",
                     "C02's theorem instance_eval_is_poly_eval and C01's domain lemmas (imported by the executable-level binding theorem)"],
    "assumptions": ["a changed absorbed stream changes all later challenges (ROM)",
                    "primality of the scalar modulus is a hypothesis (Fact p.Prime) of the executable-level instance-evaluation theorems, as in C02"],
    "level_text": "Kernel-checked theorems: the absorbed BLAKE2b byte stream and Poseidon field-element blocks are injective in (vk repr, commitments, public inputs with lengths, proof elements) "
                  "for a fixed schedule; proof parsing is injective and length-exact for the real decoder without side condition (the decoder never returns a point with y = 0); "
                  "every verification entry point of zk_stdlib (verify, batch_verify) enforces exhaustion of each member's own proof bytes (call sites regenerated from the source); "
                  "a plain instance column is bound by its evaluation outside <= m-1 points, also at the level of the executable C02.instanceEvals; the transcript_repr hash input "
                  "is injective in k / commitments / descriptions, and the printed field list of the pinned constraint system determines every member of it, "
                  "advice_column_phase included (condition of the multi-phase block regenerated from the source; repaired in /repo caa493e). The consequence 'every mutant is rejected by every entry point' is observed by an exhaustive-per-element and "
                  "per-byte sweep on real proofs, not proved (needs ROM + KZG binding)",
    "level_note": "partial: cryptographic binding (hash ROM, KZG) assumed; FIXED finding (findings/C03.json, /repo caa493e): transcript_repr did not cover advice_column_phase when "
                  "num_challenges = 0 - kept as a regression case (MiniCircuit pair) and as a generated-constant theorem (pinned_phase_condition); the only remaining gap of "
                  "vk_repr_injective_on_verifier_view_partial is that the injectivity of the Debug formatting of individual members (gates, query lists, ...) is assumed, not modelled; Guard::batch_verify and the "
                  "aggregator (LightAggregator::aggregate_proofs / verify call prepare without assert_empty: trailing-bytes checks are the caller's) are swept / listed "
                  "(Gen.otherPrepareCallers) but not modelled; the in-circuit path is not exercised by this check (C20)",
    "timeout": {"quick": 1500, "thorough": 10800, "search": 2400},
}
