CHECK = {
    "lean_module": "MidnightZK.Props.C03",
    "harness": "h-c03",
    "translators": [],
    "level": "proof",
    "technique": "Lean 4 proofs of the binding structure of the verifier schedule (instance absorption injective, every element precedes a challenge, exact proof length, canonical scalar decoding) + exhaustive single-element mutation sweep of real proofs/statements/keys",
    "rule": "real proofs of family members (1-2 proofs each) x every proof element x {other valid value, invalid encoding, non-canonical scalar, flag bit} "
            "+ bit flips (sampled in quick, all in thorough) + trailing/truncated bytes + every public-input edit class "
            "(value, permutation, drop, append zero, move between columns, drop/extra column, committed instance, swap proofs) "
            "+ wrong vk (other k / other circuit / other fixed content) + other transcript hash; correspondence lines: proof layout, instance stream, scalar decoder",
    "explanation": "Theorems: instances_injective, every_element_bound, accepted_length, decode_canonical, decode_rejects_noncanonical over the "
                   "verifier-schedule model (tied to the code in C01 and here by layout/instance-stream/scalar-decoder correspondence). "
                   "Oracle: no mutant is accepted and none panics.",
    "trusted_base": ["collision resistance / random-oracle behaviour of the transcript hash (BLAKE2b, Poseidon) is assumed", "KZG binding (C14) assumed"],
    "assumptions": ["a changed absorbed element changes all later challenges (ROM)"],
    "level_text": "Kernel-checked structural binding theorems over the schedule model; the consequence 'every mutant is rejected' is observed by an exhaustive-per-element sweep on real proofs, not proved (needs ROM)",
    "level_note": "partial: cryptographic binding assumed; structure (what is absorbed, in which order, injectively, with which length) is proved",
    "timeout": {"quick": 1500, "thorough": 10800, "search": 2400},
}
