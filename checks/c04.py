CHECK = {
    "lean_module": "MidnightZK.Props.C04",
    "harness": "h-c04",
    "translators": ["c04_gates"],
    "level": "proof",
    "technique": "Lean 4 theorems over an emitter model of the native chips (all fields, all assignments, "
                 "all contexts) and an invariant theorem over whole programs of a typed core language "
                 "(induction over the operation list) + generated gate polynomials + structural "
                 "correspondence with the recorded real synthesis, including the content of the gadget's "
                 "bound cache read through a hook + fault injection through the real MockProver + a range "
                 "oracle (honest witnesses on both sides of every asserted bound)",
    "rule": "a case = one program (operation x parameters x configuration) with its inputs; non-trivial = "
            "it emits at least one region; distinctness by hash of the request line (trace / eval / check). "
            "The correspondence is deliberately tight: a trace line is the cell-by-cell structure of the "
            "synthesis plus the final bound cache, so a change that emits an equivalent but different "
            "constraint system (or records a different but still sound bound) is reported as a model/impl "
            "difference (VIOLATION without failing input) - the model has to be updated with the code",
    "explanation": "Kernel-checked soundness theorems about the constraint rows each native-field gadget "
                   "operation emits (every assignment of the advice cells, every field); the rows are tied to "
                   "the code by (a) gate polynomials and lookup arguments dumped from the real configure and "
                   "re-proved equal to the model's row predicate on every run, (b) cell-by-cell equality of the "
                   "model's emitted structure with the recorded real synthesis of every operation, and equality "
                   "of the model's bound cache with NativeGadget::constrained_cells (hook "
                   "verif_constrained_cells) at the end of every program, (c) agreement of the model's "
                   "constraint evaluator with the real MockProver on honest and tampered assignments, (d) "
                   "honest witnesses accepted / forged outputs rejected by the real MockProver, (e) a range "
                   "oracle independent of the model: every reader of the bound cache is run right after every "
                   "writer with the bound argument in {b-1, b, b+1, 2^k, 2^k+-1} around the recorded bound b, "
                   "with honest witnesses on both sides of each asserted bound; MockProver accepting a witness "
                   "outside an asserted range, rejecting one inside, or an accepted execution returning a "
                   "comparison bit that differs from the integer comparison is a violation with the failing "
                   "input. The invariant theorem bounds_sound (every cache entry is implied by the emitted "
                   "constraints, in every state reachable by a program of the core language) is what makes "
                   "the early returns of assert_lower_than_fixed / lower_than_fixed / the conversions sound",
    "trusted_base": [
        "halo2 front end: SimpleFloorPlanner places regions so that no enabled gate reads a relevant cell "
        "outside its region (checked per run by MockProver's CellNotAssigned analysis on every case)",
        "the recording Assignment backend, the gate dump and the hook verif_constrained_cells (a read-only "
        "copy of the HashMap) print what the code does",
        "rows outside regions carry no enabled selector (tag 0 / value 0 is in the lookup table)",
        "the request parser of the Lean driver (parseCore / execOp) maps request text to the operations the "
        "theorems are about (the harness interprets the same text with the real chips)",
    ],
    "assumptions": [
        "range-check theorems assume the lookup table predicate R(t, v) implies v = n for some n < 2^t "
        "(the table loaded by Pow2RangeChip::load_table is checked to enumerate exactly [0, 2^t) per run)",
        "comparison / decomposition uniqueness theorems assume the characteristic exceeds the stated bounds",
        "bounds_sound covers programs of the core language (COp); operations outside it (decompositions to "
        "bits/bytes/chunks, sgn0, bulk assignments, pow, inv/div/inv0, add_constants, cond_swap, bit-typed "
        "equality, canonicity tests on bit strings, bitwise and/or/xor) re-establish the invariant in their "
        "own _sound lemmas under the hypotheses stated there, but are not part of the induction",
    ],
    "level_text": "Kernel-checked Lean theorems (every field, every advice assignment, every emission context) "
                  "about an emitter model of NativeChip / Pow2RangeChip / P2RDecompositionChip / NativeGadget, "
                  "plus an invariant theorem over all programs of a typed core language (bound cache, constant "
                  "cache, type invariants of bits/bytes/bounded values), with gates regenerated from the real "
                  "configure and the emitters and the bound cache compared cell by cell with the real synthesis "
                  "on every run",
    "level_note": "Proved (soundness, every assignment/field/context): linear combinations of any length, add/sub/"
                  "neg/mul/div/inv/inv0, constants, assertions, equality and zero tests, select/cond_swap, boolean "
                  "logic on lists, bit equality, decompose_core / assert_less_than_pow2 (every limb-size list, 1..4 "
                  "lookup columns, every bit length), assert_lower_than_fixed / assign_lower_than_fixed (every "
                  "path; in every reachable state without cache hypotheses: assert_lower_than_fixed_sound_"
                  "reachable), lower_than / lower_than_fixed (also in every reachable state) / leq / geq / "
                  "greater_than and the _fixed variants, decompositions to bits / bytes / chunks with and without "
                  "canonicity, sgn0, le_bits comparisons (is_canonical), recomposition from bits / bytes, "
                  "conversions native<->bit/byte, pow, add_constants, bnot, byte-typed is_equal / assert_equal, "
                  "div_rem with a dividend bound at circuit level (div_rem_bounded_sound). BOUND-CACHE INVARIANT "
                  "(bounds_sound): for every program of the core language (55 operations: every writer and reader "
                  "of constrained_cells) and every accepted assignment, every cache entry (cell, b) satisfies "
                  "cell < b, every cached constant holds, every bit/byte/bounded variable holds its type bound - "
                  "by induction over the operation list. Completeness (honest witness exists): is_equal, "
                  "is_not_equal, is_equal_to_fixed, inv, cond_swap, select, assert_not_equal, the multiplication "
                  "row. div_rem without a dividend bound: unsound (known finding). Correspondence-only (structure "
                  "+ values + range oracle, no theorem): band / bor / bxor, rem, ysel, byte-typed is_not_equal / "
                  "*_to_fixed / assert_* variants other than those listed, bulk assignments, the big-endian "
                  "decomposition / recomposition defaults (modelled as the little-endian emitters with reversed "
                  "operands / results). byte_bound_is_tight: the entry (byte cell, 255) is NOT implied by the "
                  "constraints (explicit accepted assignment), so a model of a code recording u8::MAX cannot "
                  "prove the y2n step of bounds_sound. Not modelled in "
                  "Lean: VectorGadget (harness cases exist but are gated off), MapGadget. Trusted: Lean kernel, "
                  "harness/recorder/hook, halo2 layouter semantics, request parser",
    "timeout": {"quick": 900, "thorough": 3000, "search": 900},
}
