CHECK = {
    "lean_module": "MidnightZK.Props.C04",
    "harness": "h-c04",
    "translators": ["c04_gates"],
    "level": "proof",
    "technique": "Lean 4 theorems over an emitter model of the native chips (all fields, all assignments, "
                 "all contexts) + generated gate polynomials + structural correspondence with the recorded "
                 "real synthesis + fault injection through the real MockProver",
    "rule": "a case = one program (operation x parameters x configuration) with its inputs; non-trivial = "
            "it emits at least one region; distinctness by hash of the request line (trace / eval / check)",
    "explanation": "Kernel-checked soundness theorems about the constraint rows each native-field gadget "
                   "operation emits (every assignment of the advice cells, every field); the rows are tied to "
                   "the code by (a) gate polynomials and lookup arguments dumped from the real configure and "
                   "re-proved equal to the model's row predicate on every run, (b) cell-by-cell equality of the "
                   "model's emitted structure with the recorded real synthesis of every operation, (c) "
                   "agreement of the model's constraint evaluator with the real MockProver on honest and "
                   "tampered assignments, (d) honest witnesses accepted / forged outputs rejected by the real "
                   "MockProver",
    "trusted_base": [
        "halo2 front end: SimpleFloorPlanner places regions so that no enabled gate reads a relevant cell "
        "outside its region (checked per run by MockProver's CellNotAssigned analysis on every case)",
        "the recording Assignment backend and the gate dump (harness) print what the code does",
        "rows outside regions carry no enabled selector (tag 0 / value 0 is in the lookup table)",
    ],
    "assumptions": [
        "range-check theorems assume the lookup table predicate R(t, v) implies v = n for some n < 2^t "
        "(the table loaded by Pow2RangeChip::load_table is checked to enumerate exactly [0, 2^t) per run)",
        "comparison / decomposition uniqueness theorems assume the characteristic exceeds the stated bounds",
    ],
    "level_text": "Kernel-checked Lean theorems (every field, every advice assignment, every emission context) "
                  "about an emitter model of NativeChip / Pow2RangeChip / P2RDecompositionChip / NativeGadget, "
                  "with gates regenerated from the real configure and the emitters compared cell by cell with "
                  "the real synthesis on every run",
    "level_note": "Proved (soundness, every assignment/field/context): linear combinations of any length, add/sub/"
                  "neg/mul/div/inv/inv0, constants, assertions, equality and zero tests, select/cond_swap, boolean "
                  "logic on lists, bit equality, decompose_core / assert_less_than_pow2 (every limb-size list, 1..4 "
                  "lookup columns), assert_lower_than_fixed (partial: bound-cache early return), lower_than; "
                  "completeness for is_equal, inv, cond_swap. div_rem: unsound without a dividend bound (known "
                  "finding), proved under bound + divisor <= p. Correspondence-only: canonicity of bit strings, "
                  "bits/bytes/chunks/sgn0, conversions, comparison variants, add_constants, pow. Not modelled: "
                  "VectorGadget, MapGadget, bitwise word instructions. Trusted: Lean kernel, harness/recorder, halo2 "
                  "layouter semantics",
    "timeout": {"quick": 900, "thorough": 3000, "search": 900},
}
