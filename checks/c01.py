CHECK = {
    "lean_module": "MidnightZK.Props.C01",
    "harness": "h-c01",
    "translators": [],
    "level": "proof",
    "technique": "Lean 4 proofs over executable models of the prover/verifier control flow: Fiat-Shamir schedule agreement for every "
                 "constraint-system shape and proving configuration; order of the y-combination (prover loop nest = verifier iterator chain); "
                 "expression-graph compiler correctness; quotient split/blind/recombine; row-level completeness of the permutation, lookup "
                 "(incl. a full specification of permute_expression_pair for every HashMap iteration order) and trash arguments as the prover "
                 "constructs them. Models tied to the code by recording real transcripts, the compiled graphs, the verifier's identity log "
                 "and the hooked Lagrange vectors of the prover's arguments on generated circuits",
    "rule": "circuit-family members (random gate kinds/degrees/rotations, lookups, copy constraints, phases, "
            "unblinded columns, trash arguments) x 1..4 proofs x 0..2 committed + 0..2 plain instance columns x k "
            "x {blake2b, poseidon}; one case = one real prove+verify; request lines carry the dumped constraint-system "
            "shape (schedule/prooflen/graph/idcount) or, for the argument vectors (blake2b runs, k <= 7 quick / 8 thorough, first two "
            "proofs), the REAL table of the proof with its blinding rows, the sigma labels of the proving key and the challenges read off "
            "the transcript (argtable), followed by permz / lookupcomp / lookupperm / lookupz / trashvec (model recomputes the prover's "
            "vectors) and permrules / lookuprules / trashrules (the verifier's identities read row by row on the logged vectors and on "
            "vectors with one altered entry); lookupperm-failure = witnesses with a lookup input outside the table; distinct = distinct "
            "request lines; all are non-trivial (real proofs)",
    "explanation": "Theorems: schedule_agree (verifier replays the prover's transcript operations for every shape/configuration); "
                   "identity_order_agree / horner_sections (the prover's accumulation value*y+identity over custom gates [Horner from the "
                   "previous value], permutation, lookups, trash, proof after proof, equals the verifier's fold over its expression chain, "
                   "for every shape); compile_correct; quotient_blind_recombine / chunks_recombine; perm_product_complete (for every number "
                   "of permutation columns, chunk length, n, blinding values: if the (value, sigma-label) multiset over the usable cells "
                   "equals the (value, identity-label) multiset - derived from a bijection of the cells by sigma_invariant_pairs_perm - and no "
                   "denominator vanishes, every permutation identity vanishes on every row), with perm_rule_rows (first/chain/product rules "
                   "hold by construction for any values) and perm_last_value / perm_last_complete; lookup_permuted_spec / _fail / _no_panic "
                   "(permute_expression_pair returns the sorted input and a permutation of the table with A'0=S'0 and A'i=S'i or A'i=A'i-1 "
                   "for EVERY iteration order of the leftover HashMap, ConstraintSystemFailure iff some input is missing, never a panic); "
                   "lookup_product_complete (all five lookup identities vanish on every row); trash_complete. "
                   "Tie: the executable schedules are compared event by event with transcripts recorded from the real prover and verifier; "
                   "the number of identities with the verifier's hooked identity log; the Lean models permProducts / compressExpressions / "
                   "permuteExpressionPair / lookupProduct / trashValues are run on the real table and must reproduce the vectors logged "
                   "inside the real prover (non-random rows; for the permuted table the rows the specification forces and its multiset); the "
                   "verifier-side row rules (Lean and an independent Rust re-implementation) are evaluated on the logged vectors. Oracles: "
                   "every honest proof verifies; prover and verifier absorb identical bytes; the logged vectors satisfy every identity on "
                   "every row; the honest table satisfies the multiset hypothesis of perm_product_complete.",
    "trusted_base": [
        "commitments, pairing check and the hash inside the transcript are abstract in the model (events carry only kind/type/tag)",
        "the argument theorems are row-level: a polynomial in Lagrange form is identified with its value vector on the domain, "
        "l_0/l_last/l_blind with the indicator of row 0 / row u / rows > u, rotation with a cyclic row shift (the passage to the quotient "
        "h = numerator/(X^n-1) is the algebra of C02/C12/C14, not re-proved here)",
        "verif-hooks in midnight-proofs (thread-local observers: identity log, argument-vector log), ProvingKey::verif_derived_parts "
        "(fixed values, sigma labels), ProvingKey::verif_custom_gates_graph",
        "parallelize/rayon chunking inside the prover's loops is modelled by the sequential loop (chunk independence is C12/C17)",
    ],
    "assumptions": [
        "witness satisfies the circuit (by construction of the family); KZG completeness is C14",
        "challenges outside the exceptional set: no denominator beta*sigma+gamma+v resp. (beta+A')(gamma+S') vanishes on a usable row "
        "(explicit hypotheses hden of perm_product_complete / lookup_product_complete; counted on every real case: never observed)",
        "Ord of the field is a linear order whose equal elements are identical (hypothesis LinOrd of the lookup theorems)",
    ],
    "level_text": "Kernel-checked theorems (29 obligations): prover and verifier transcript schedules agree for all shapes/configurations "
                  "(the place where the pinned tree rejected honest proofs); the prover's order of combining identities with y equals the "
                  "verifier's for all shapes; the expression-graph compiler is correct; quotient split/blind/recombine; the permutation, "
                  "lookup and trash arguments the honest prover constructs satisfy every verifier identity on every row (for all layouts, "
                  "all n, all blinding values, every HashMap order, outside an explicitly stated exceptional set of challenges). Models "
                  "validated against recorded transcripts, compiled graphs, the identity log and the argument vectors logged inside the "
                  "real prover; honest-proof acceptance and rule satisfaction observed on every generated case",
    "level_note": "Trusted: Lean kernel, harness, driver, hooks. Abstract: group/pairing/hash. Not mechanised: the assembly "
                  "honest_verifies_algebraic (from 'every identity vanishes on every row' to 'the quotient exists and the verifier's "
                  "evaluation check at x passes' - divisibility by X^n-1, coset evaluation, the l_i formulas), the custom-gate identities "
                  "on blinding rows (gates are satisfied on all rows by the floor planner's zero selectors - observed by the acceptance "
                  "oracle only), and the probability bound for the exceptional challenge set. The argument models take sigma labels and "
                  "cell values as inputs: that keygen produces sigma labels which are a permutation of the identity labels is checked on "
                  "every real case (multiset hypothesis), not proved (C17/C02)",
    "timeout": {"quick": 1200, "thorough": 7200, "search": 1800},
}
