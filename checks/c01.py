CHECK = {'lean_module': 'MidnightZK.Props.C01',
 'harness': 'h-c01',
 'translators': ['c01_transcript'],
 'level': 'proof',
 'technique': 'Lean 4 proofs over executable models of the prover/verifier control flow: Fiat-Shamir schedule agreement for '
              'every constraint-system shape and proving configuration; order of the y-combination (prover loop nest = '
              'verifier iterator chain); expression-graph compiler correctness; quotient split/blind/recombine; row-level '
              'completeness of the permutation, lookup (incl. a full specification of permute_expression_pair for every '
              "HashMap iteration order) and trash arguments as the prover constructs them; and the ASSEMBLY over Mathlib's "
              'Polynomial for an arbitrary field with a primitive n-th root of unity: X^n-1 = prod (X-w^i), divisibility of '
              "the y-combination of identities that vanish on the domain, existence/degree of the quotient, the prover's "
              "pieces recombine to h(x), the verifier's expected_h_eval equals h(x) off the domain, l_i_range is the "
              "barycentric formula, l_0/l_last/l_blind and the verifier's own instance evaluations are evaluations of the "
              'interpolating polynomials. Models tied to the code by recording real transcripts, the compiled graphs, the '
              "verifier's identity log (values, y, xn, expected_h_eval), the hooked instance evaluations, "
              "EvaluationDomain::l_i_range and the hooked Lagrange vectors of the prover's arguments on generated circuits; "
              'the expression compiler is driven through EVERY branch of add_expression on both operand positions by a table '
              'of expression shapes (family gate kind Shapes) and the degree bookkeeping (required_degree / degree()) is '
              'proved to cover every identity class and exercised by a mixed-degree two-column lookup_any that is the only '
              'constraint of the top degree; ROUND 6: the row->polynomial lift of ARBITRARY gate expressions over an abstract '
              'field (gatePoly over rotated column polynomials = Expr.eval in the row environment at every node), natDegree '
              'bounds of the gate / permutation / lookup / trash identity POLYNOMIALS by a small degree calculus, and the '
              'closed assembly honest_verifies_rows (a whole constraint system given by rows, no polynomial-level hypothesis); '
              'a translator (translators/c01_transcript.py) regenerates the textual order of the transcript call sites of '
              'prover.rs / verifier.rs, proved to be the segment order of the schedules for every shape; get_rotation_idx '
              'mirrored and specified; the compiled lookup and trash graphs of Evaluator::new hooked and compared with the '
              'Lean compiler',
 'rule': 'circuit-family members (random gate kinds/degrees/rotations, lookups, copy constraints, phases, unblinded columns, '
         'trash arguments) and C01-owned stress shapes (gate degree 3..9 = 2..8 quotient pieces, unblinded column queried at '
         '-1/0/+1, third-phase column never queried, lookup_any into an advice column and into an instance column, 3 and 4 '
         'proofs with 2 committed instance columns, k from the minimum the shape supports) x 1..4 proofs x 0..2 committed + '
         '0..2 plain instance columns x k x {blake2b, poseidon}; one case = one real prove+verify; request lines carry the '
         "dumped constraint-system shape (schedule/prooflen/graph/idcount), the verifier's identity values with y and x^n "
         "(hfold -> expected_h_eval), domain + x + rotation lists (lirange: the verifier's two windows, random rotations "
         'beyond +-n, multiples of n; levals), each plain instance column with its query rotation (insteval -> the value the '
         'real verifier computed) or, for the argument vectors (blake2b runs, k <= 7 quick / 8 thorough, first two proofs), '
         'the REAL table of the proof with its blinding rows, the sigma labels of the proving key and the challenges read off '
         'the transcript (argtable), followed by permz / lookupcomp / lookupperm / lookupz / trashvec (model recomputes the '
         "prover's vectors) and permrules / lookuprules / trashrules (the verifier's identities read row by row on the logged "
         'vectors and on vectors with one altered entry); lookupperm-failure = witnesses with a lookup input outside the '
         'table; distinct = distinct request lines; all are non-trivial (real proofs); EXTENDED FAMILY '
         '(harness/common/src/family.rs, new enum variants used by C01/C02 only): GateKind::Shapes(g) = s*(sum of the shapes '
         'of group g of a 36-entry table - a2) covering Constant(c)*e and e*Constant(c) for c in {0,1,2,3,-1} (0 and 1 spelled '
         "Scaled(e,0) / Negated(Constant(0)) / Negated(Constant(-1)) because Expression's operators and replace_selectors fold "
         'a syntactic 0/1), e*e, e*f, f*e, e+(-f), 0+(-f), e+(-0), e+f, f+e, (-e), (-0), -(Constant), Scaled by 0/1/2/5 and '
         'nested forms; LookupKind::MixedDeg = (s*a0, m) in (mt0, s_tab*mt1) (input degrees (2,1), table degrees (1,2): degree '
         '6, the only constraint of that degree in the member); LookupKind::NoZero = a table without a zero row whose filler '
         'is 5; 4 Shapes members + one with all groups + 4 MixedDeg/NoZero members + 6 (quick) sampled extended members; stats '
         'add_expression-branch:* = how often each of the 30 branches (incl. reuse of a constant / rotation / calculation) was '
         'taken by the gate polynomials of the graph lines (WARNING:add_expression-branch-never-hit:* if one is not); ROUND 6: '
         'lgraph = per lookup of every proving key the WHOLE compiled graph of Evaluator::new (input expressions, Horner with '
         'theta, table expressions compiled into the same graph, second Horner, + gamma, + beta, product; constants and '
         'rotations included) vs Graph.renderLookup; tgraph = per trash argument the compiled constraint expressions + Horner '
         'with the trash challenge vs Graph.renderTrash; rotidx = get_rotation_idx (hook verif_get_rotation_idx) on domains '
         '(k, extended_k) in {(3,3),(3,5),(4,6),(6,9),(10,13)} x rows {0, 1, middle, last-1, last} x rotations {0, +-1, +-2, '
         '+-3, +-(n-1), +-n, +-(n+1), 5n, -5n-1} + 12 random per domain (classes rotidx:inside / wrap-below / wrap-above '
         'counted); gaterows = the gate expressions of the dumped constraint system evaluated by the Lean row semantics of '
         'honest_verifies_rows (Expr.eval in Rows.rowEnv: query (col, rot) reads cell (i+rot) mod n) on the REAL table of the '
         'proof, blinding rows included -> the (gate, row) pairs that are non-zero (none on an honest table); gaterows-altered '
         '= the same with ONE advice cell replaced: rows 0, n-1 (wrap-around), the last usable row (the advice column that '
         'makes a gate fail if there is one) and two cells found by search among random (column, row) pairs; impl answer = an '
         'independent Rust evaluation (Table::eval) on the altered table; counters gaterows-altered:flagged / '
         'no-gate-reads-the-cell',
 'explanation': "Theorems: schedule_agree (verifier replays the prover's transcript operations for every shape/configuration); "
                'identity_order_agree / horner_sections; compile_correct; quotient_blind_recombine / chunks_recombine; '
                'perm_product_complete (with perm_rule_rows, perm_last_value / perm_last_complete, '
                'sigma_invariant_pairs_perm); lookup_permuted_spec / _fail / _no_panic; lookup_product_complete; '
                'trash_complete. NEW assembly: vanishing_poly_factors, vanish_on_domain_iff_dvd, ycomb_divisible (every y), '
                'quotient_identity_everywhere (h(x)(x^n-1) = fold of the identity values, every x), honest_verifies_algebraic '
                '(for every field with a primitive n-th root, every q >= 1, every list of identity polynomials that vanish on '
                'every row and have degree < n+(n-1)q, every y, every blinding vector of blind_quotient_limbs and every x with '
                'x^n != 1: the quotient exists, truncate((n-1)q) loses nothing, the chopped commitment Sum x^((n-1)i) h_i '
                'opens to exactly the expected_h_eval the verifier computes - the model hCheck accepts); lagrange_range_spec, '
                'lagrange_interpolation, l_evals_spec (l_0, l_last, l_blind = evaluations of the indicator interpolants [i=0], '
                '[i=u], [u<i] - the convention of the row-level theorems), instance_eval_spec (compute_inner_product over the '
                'l_i_range window with offset max_rotation - rotation = column polynomial at w^rot x); '
                'lookup_identities_vanish_on_domain / trash_identity_vanishes_on_domain (row-level completeness lifted to the '
                'identity POLYNOMIALS built from Lagrange-form vectors and rotations); selector_gate_blinding_rows (selector*G '
                'vanishes on the whole domain with NO assumption on G on the blinding rows) and unselected_gate_not_divisible '
                '(a gate without such a factor has no quotient). Tie: the executable schedules are compared event by event '
                'with transcripts recorded from the real prover and verifier; the number of identities AND the fold itself '
                '(expectedHEval on the hooked values, y, xn must reproduce the hooked expected_h_eval); lIRange must reproduce '
                'EvaluationDomain::l_i_range value by value; instanceEval must reproduce every plain-column entry of the '
                "verifier's instance_evals (new add-only hook); lEvals must equal "
                'eval_polynomial(lagrange_to_coeff(indicator)) computed by the real domain code; the Lean models permProducts '
                '/ compressExpressions / permuteExpressionPair / lookupProduct / trashValues are run on the real table and '
                'must reproduce the vectors logged inside the real prover; the verifier-side row rules (Lean and an '
                'independent Rust re-implementation) are evaluated on the logged vectors. Oracles: every honest proof '
                'verifies; prover and verifier absorb identical bytes; the logged vectors satisfy every identity on every row; '
                "EVERY custom-gate polynomial vanishes on EVERY row of the real table (blinding rows with the prover's random "
                'values included) and every fixed column is zero on the unusable rows (hypotheses of '
                "selector_gate_blinding_rows, counted); the verifier's instance evaluation equals the column polynomial at "
                'w^rot x; the honest table satisfies the multiset hypothesis of perm_product_complete; gates without a factor '
                'vanishing on the unusable rows: the mock checker reports ConstraintPoisoned and the real verifier rejects '
                '(recorded, counters noselector-gate:*), with a fixed-column factor mock and verifier accept; whenever the '
                'mock checker accepts, the honest proof must be accepted. The correspondence is deliberately value-level for '
                'l_i_range / expected_h_eval / instance evaluations (a re-association or a rewrite through omega instead of '
                'omega_inv does not fire; a changed index, window or dropped term does). NEW (round 5): '
                'times_two_compiles_to_double_of_other_operand and constant_shortcuts_both_sides (concrete readings of the '
                'mirror addExpr for every constant shortcut on BOTH operand positions; the mirror was already '
                'branch-for-branch, the graph lines now drive every branch: the real compiled graph of the Shapes members must '
                "equal the Lean compiler's output calculation by calculation, and the honest proofs of these members must "
                'verify); numerator_fits_quotient_pieces (every identity class - gates, permutation rules with degree-2 '
                'columns per set, the five lookup rules with the theta-compressed input x table product, trash - has degree <= '
                'the mirrored ConstraintSystem::degree() and its quotient fits the degree-1 pieces of n-1 coefficients, for '
                'every constraint system and n; C02.degree_covers_identities, C02.gate_poly_degree_covered = hdeg of '
                'honest_verifies_algebraic for the gate polynomials, C02.per_column_degree_formula_insufficient, '
                'C02.quotient_fits_pieces / quotient_overflows_pieces: no slack). A Rust re-implementation of add_expression '
                'in harness/c01/src/branches.rs is used ONLY to label branches for the statistics (its graph is cross-checked '
                'with the real one; counter branch-statistics:mirror-differs-from-real-graph). '
                'perm_identities_vanish_on_domain: under the hypotheses of perm_product_complete the permutation identity '
                'POLYNOMIALS (column polynomials of the values / sigma labels / honest running products, rotations, delta^c*X, '
                'Lagrange-basis l_0/l_last/l_blind) vanish on the whole domain - hvanish of honest_verifies_algebraic for the '
                'permutation class. NEW (round 6): gate_polys_vanish_iff_rows (any field: the gate polynomials vanish on the '
                'whole domain iff every gate expression evaluates to 0 in the row environment of every row - the Expr.eval of '
                'compile_correct, queries reading cell (i+rot) mod n); identity_polys_degree_bounds (natDegree, in units of '
                'n-1: gate <= Expression::degree, permutation <= chunk_len+2 for every layout, lookup <= max(4, 2+deg a+deg s) '
                'with a, s the compressed input/table expression POLYNOMIALS, trash <= max(deg constraints, deg q + 1)); '
                'compressed_expression_poly_spec (compress_expressions over gate polynomials: row value = row-wise '
                'compression, degree = max); honest_verifies_rows (CLOSED form: gates zero on every row + copy permutation '
                'multiset hypothesis + per lookup permute_expression_pair returned Ok on the value vectors of a, s + per trash '
                'q*e = 0 on every row, degrees <= degree() = D >= 3, bf+2 <= n => with the vectors the model prover computes, '
                'the identity list gates ++ permutation ++ lookups ++ trash is divisible after the y-combination, the D-1 '
                'blinded pieces recombine and hCheck accepts for every y, x off the domain, blinding); rotation_idx_spec / '
                'rotation_idx_point (get_rotation_idx = (idx + rot*scale) mod isize: in range, congruent, identity at rotation '
                '0, additive in the rotation; on the field side w_ext^result = w_ext^idx * (w_ext^scale)^rot); '
                'schedule_is_skeleton + transcript_order_is_schedule_skeleton (the token list regenerated from prover.rs / '
                'verifier.rs - squeeze:<variable>, write/read/common, call:<callee> in textual order per function - equals the '
                'call-site table of Model/C01/Skeleton.lean whose segments, runs collapsed, are the 22 segments of '
                'proverSchedule / verifierSchedule in order, for every shape). The transcript-order tie is deliberately tight: '
                'renaming a challenge variable or a callee that receives the transcript changes a token and the table in '
                'Skeleton.lean has to follow; adding or removing arguments of a callee does not fire (the arity is only kept '
                'to tell the two p.evaluate of finalise_proof apart). selector_gates_zero_on_every_row (q*G with q a fixed '
                'column at the current row: zero on the usable rows + selector zero on the unusable rows => zero on every row, '
                'nothing assumed about advice on the blinding rows - the form in which real circuits meet hgsat of '
                'honest_verifies_rows). argument_transcript_sites (table argFns regenerated from lookup/, permutation/, '
                'trash/, vanishing/ x prover.rs, verifier.rs: per function the operations and the NAMES - argument of a write, '
                'for a loop variable the items chained into the loop; variable bound by a read -; pinned against Skel.argOps, '
                'and proved: commit_permuted writes what read_permuted_commitments reads, the five lookup evaluations are '
                'written and read in the order of lookupEvalNames, permutation eval / next_eval / last_eval, trash and '
                'vanishing likewise). This part is deliberately tight: renaming one of these variables on one side only fires. '
                'The row environment of these theorems is the executable Rows.rowEnv (Model/C01/GateRows.lean, Lift.rowEnv is '
                'an abbreviation of it): the driver runs it on every real table (gaterows lines) and on tables with one '
                'altered advice cell, where it must flag exactly the (gate, row) pairs an independent Rust evaluation flags. '
                'degree_hypotheses_from_constraint_system (for every dumped constraint system, over every field: with D = the '
                'mirrored ConstraintSystem::degree() the degree hypotheses of honest_verifies_rows hold - D >= 3, every gate '
                'polynomial, every lookup with da / ds the folds of lookup.rs: required_degree, every trash argument with a '
                'column selector; Lift.exprDeg = C02.Ids.exprDegree through ofC02F). rotation_idx_is_row_convention (the cell '
                'Rows.rowEnv reads is get_rotation_idx at scale 1; on an extended domain of n*s points the index of the '
                'rotated row is s times that row). compiled_graph_value_is_gate_poly_node (compile_correct chained with the '
                'lift: what GraphEvaluator::evaluate returns for a gate on row i of the table, for every well-formed graph and '
                'operand order, is the gate polynomial at w^i). gate_violations_empty_iff_rows (the executable check of the '
                'gaterows lines reports nothing iff hgsat of honest_verifies_rows holds).',
 'trusted_base': ['commitments, pairing check and the hash inside the transcript are abstract in the model (events carry only '
                  'kind/type/tag); honest_verifies_algebraic reads a commitment as the polynomial it commits to (opening '
                  'completeness is C14)',
                  'the argument theorems are row-level: a polynomial in Lagrange form is identified with its value vector on '
                  'the domain, l_0/l_last/l_blind with the indicator of row 0 / row u / rows > u, rotation with a cyclic row '
                  'shift; the lift to polynomials (colPoly / rotPoly / indPoly / gatePoly evaluated at w^i = row value) is '
                  'PROVED for every class including arbitrary gate expressions over any field (gate_polys_vanish_iff_rows) and '
                  'assembled in honest_verifies_rows',
                  'verif-hooks in midnight-proofs (thread-local observers: identity log, argument-vector log, '
                  'instance-evaluation log), ProvingKey::verif_derived_parts (fixed values, sigma labels), '
                  'ProvingKey::verif_custom_gates_graph, ProvingKey::verif_argument_graphs (lookup / trash graphs), '
                  'ProvingKey::verif_get_rotation_idx (repo commit eb256dc)',
                  "parallelize/rayon chunking inside the prover's loops is modelled by the sequential loop (chunk independence "
                  'is C12/C17); divide_by_vanishing_poly / extended_to_coeff (coset FFT) are specified as polynomial division '
                  'by X^n-1 (FFT correctness is C12)',
                  'translators/c01_transcript.py: a lexical reading of prover.rs / verifier.rs (comments and test code '
                  'removed; call sites located by the identifier `transcript`, the callee by parenthesis matching); textual '
                  'order only - control flow (loops, branches) is the business of the recorded transcripts'],
 'assumptions': ['witness satisfies the circuit (by construction of the family; for the stress shapes also checked with the '
                 'mock checker); KZG completeness is C14',
                 "challenges outside the exceptional set: no denominator beta*sigma+gamma+v resp. (beta+A')(gamma+S') vanishes "
                 'on a usable row (explicit hypotheses hden of perm_product_complete / lookup_product_complete; counted on '
                 'every real case: never observed), and x outside the domain (x^n != 1: the verifier would panic on '
                 'invert().unwrap(); probability n/|F|)',
                 'Ord of the field is a linear order whose equal elements are identical (hypothesis LinOrd of the lookup '
                 'theorems)',
                 'hdeg of honest_verifies_algebraic is now PROVED as natDegree bounds for every class '
                 '(identity_polys_degree_bounds) and discharged inside honest_verifies_rows from degree bounds on the '
                 'expressions (exprDeg g <= D, max 4 (2+da+ds) <= D, max de (dq+1) <= D, chunk_len = D-2), the numbers '
                 'C02.degree_covers_identities / numerator_fits_quotient_pieces prove to be <= ConstraintSystem::degree()'],
 'level_text': 'Kernel-checked theorems (60 obligations): prover and verifier transcript schedules agree for all '
               "shapes/configurations (the place where the pinned tree rejected honest proofs); the prover's order of "
               "combining identities with y equals the verifier's for all shapes; the expression-graph compiler is correct; "
               'quotient split/blind/recombine; the permutation, lookup and trash arguments the honest prover constructs '
               'satisfy every verifier identity on every row (for all layouts, all n, all blinding values, every HashMap '
               'order, outside an explicitly stated exceptional set of challenges); and the assembly honest_verifies_algebraic '
               'over any field with a primitive n-th root of unity: identities vanishing on every row => quotient exists, its '
               "blinded pieces recombine to h(x), and the verifier's final evaluation check passes for every y and every x off "
               "the domain, with l_i_range / l_0 / l_last / l_blind / the verifier's instance evaluations proved equal to the "
               'evaluations of the interpolating polynomials, and selector-gated custom gates proved to vanish on the blinding '
               'rows. Models validated against recorded transcripts, compiled graphs, the identity log with its fold, '
               'l_i_range, the hooked instance evaluations and the argument vectors logged inside the real prover; '
               'honest-proof acceptance, rule satisfaction and gate satisfaction on all rows (blinding rows included) observed '
               'on every generated case; every branch of add_expression (both operand positions of every constant shortcut) is '
               'exercised by the compiled-graph comparison and by honest proofs; the degree bookkeeping is proved to cover '
               'every identity class (numerator_fits_quotient_pieces) and exercised by a mixed-degree lookup that alone '
               'decides the number of quotient pieces; ROUND 6: the assembly is closed - honest_verifies_rows takes a whole '
               'constraint system by ROWS (gate expressions zero on every row over any field, the copy-permutation multiset '
               'hypothesis, permute_expression_pair = Ok, trash q*e = 0) with degree bounds on the expressions and concludes '
               "that the verifier's check accepts, the row->polynomial lift (all classes, arbitrary gates) and the natDegree "
               'bounds of all identity polynomials being theorems; the textual order of the transcript call sites of prover.rs '
               '/ verifier.rs is regenerated on every run and proved to be the segment order of the schedules for every shape; '
               'get_rotation_idx is mirrored, specified and compared incl. negative rotations and wrap-around; the compiled '
               "lookup and trash graphs of every proving key equal the Lean compiler's output calculation by calculation; "
               'selector-gated gates are proved to meet the every-row hypothesis from usable-row satisfaction alone '
               '(selector_gates_zero_on_every_row); the argument files (lookup/permutation/trash/vanishing x prover/verifier) '
               "are tokenised too and the prover's written elements are proved to be the verifier's read elements in the same "
               'textual order (argument_transcript_sites)',
 'level_note': 'Trusted: Lean kernel, harness, driver, hooks, the lexical translator. Abstract: group/pairing/hash. What '
               'remains outside honest_verifies_rows: (1) the exceptional challenges - hypotheses hdenP (no beta*sigma+gamma+v '
               "= 0 on a usable row) and (beta+A')(gamma+S') != 0, and x^n != 1 - are stated, counted on every real case "
               '(never observed), their probability is not bounded; (2) commitments and openings are abstract (a commitment is '
               'read as the polynomial it commits to; C14); (3) that the table t, the permutation columns with their sigma '
               'labels, and the lookup / trash expression polynomials of the theorem are what the real prover holds is the '
               'business of the correspondence (argument vectors logged inside the prover, identity log, compiled graphs), and '
               "that keygen's sigma labels are a permutation of the identity labels is checked on every real case (multiset "
               'hypothesis), not proved (C17/C02); (4) the theorem asks for gates that are zero on EVERY row, blinding rows '
               'included: selector_gate_blinding_rows gives this for selector-gated gates, gates without a factor vanishing on '
               'the unusable rows are outside the property (mock checker: ConstraintPoisoned; honest proof rejected; Lean: '
               "unselected_gate_not_divisible); (5) the identity polynomials of honest_verifies_rows use the model prover's "
               'vectors (permProducts, lookupProduct, trashValues, validated against the vectors logged in the real prover) - '
               'the blinding of advice columns is part of the table t (any values on the unusable rows); (6) lEvals mirrors '
               "evaluate_identities' first lines but those are only observed through l_i_range and the identity values; the "
               'chopped-commitment scalars of as_terms and Constructed::evaluate are modelled and proved equal, observed only '
               'through proof acceptance; (7) get_rotation_idx is modelled on unbounded integers (i32 overflow would be a '
               'panic under the harness profile, not a wrong index); compute_nu_poly as a whole (the coset loop nest over the '
               'extended domain) is still a black box observed through the identity log and proof acceptance - its graphs '
               '(custom gates, lookups, trash) and its index arithmetic are now tied; (8) the transcript translator sees '
               'textual order per function, not control flow; the callee bodies in lookup/ permutation/ trash/ vanishing/ are '
               'tokenised with the names of the written / read variables (argument_transcript_sites); that a NAME denotes the '
               'same polynomial evaluation on both sides is not proved (it is what proof acceptance and the identity log '
               'observe); multi_open / multi_prepare (C14) are not tokenised',
 'timeout': {'quick': 1200, 'thorough': 7200, 'search': 1800}}
