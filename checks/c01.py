CHECK = {'lean_module': 'MidnightZK.Props.C01',
 'harness': 'h-c01',
 'translators': [],
 'level': 'proof',
 'technique': 'Lean 4 proofs over executable models of the prover/verifier control flow: Fiat-Shamir schedule agreement for '
              'every constraint-system shape and proving configuration; order of the y-combination (prover loop nest = '
              'verifier iterator chain); expression-graph compiler correctness; quotient split/blind/recombine; row-level '
              'completeness of the permutation, lookup (incl. a full specification of permute_expression_pair for every '
              "HashMap iteration order) and trash arguments as the prover constructs them; and the ASSEMBLY over Mathlib's "
              'Polynomial for an arbitrary field with a primitive n-th root of unity: X^n-1 = prod (X-w^i), divisibility of '
              "the y-combination of identities that vanish on the domain, existence/degree of the quotient, the prover's "
              "pieces recombine to h(x), the verifier's expected_h_eval equals h(x) off the domain, l_i_range is the "
              "barycentric formula, l_0/l_last/l_blind and the verifier's own instance evaluations are evaluations of the "
              'interpolating polynomials. Models tied to the code by recording real transcripts, the compiled graphs, the '
              "verifier's identity log (values, y, xn, expected_h_eval), the hooked instance evaluations, "
              "EvaluationDomain::l_i_range and the hooked Lagrange vectors of the prover's arguments on generated circuits; "
              'the expression compiler is driven through EVERY branch of add_expression on both operand positions by a table '
              'of expression shapes (family gate kind Shapes) and the degree bookkeeping (required_degree / degree()) is '
              'proved to cover every identity class and exercised by a mixed-degree two-column lookup_any that is the only '
              'constraint of the top degree',
 'rule': 'circuit-family members (random gate kinds/degrees/rotations, lookups, copy constraints, phases, unblinded columns, '
         'trash arguments) and C01-owned stress shapes (gate degree 3..9 = 2..8 quotient pieces, unblinded column queried at '
         '-1/0/+1, third-phase column never queried, lookup_any into an advice column and into an instance column, 3 and 4 '
         'proofs with 2 committed instance columns, k from the minimum the shape supports) x 1..4 proofs x 0..2 committed + '
         '0..2 plain instance columns x k x {blake2b, poseidon}; one case = one real prove+verify; request lines carry the '
         "dumped constraint-system shape (schedule/prooflen/graph/idcount), the verifier's identity values with y and x^n "
         "(hfold -> expected_h_eval), domain + x + rotation lists (lirange: the verifier's two windows, random rotations "
         'beyond +-n, multiples of n; levals), each plain instance column with its query rotation (insteval -> the value the '
         'real verifier computed) or, for the argument vectors (blake2b runs, k <= 7 quick / 8 thorough, first two proofs), '
         'the REAL table of the proof with its blinding rows, the sigma labels of the proving key and the challenges read off '
         'the transcript (argtable), followed by permz / lookupcomp / lookupperm / lookupz / trashvec (model recomputes the '
         "prover's vectors) and permrules / lookuprules / trashrules (the verifier's identities read row by row on the logged "
         'vectors and on vectors with one altered entry); lookupperm-failure = witnesses with a lookup input outside the '
         'table; distinct = distinct request lines; all are non-trivial (real proofs); EXTENDED FAMILY '
         '(harness/common/src/family.rs, new enum variants used by C01/C02 only): GateKind::Shapes(g) = s*(sum of the shapes '
         'of group g of a 36-entry table - a2) covering Constant(c)*e and e*Constant(c) for c in {0,1,2,3,-1} (0 and 1 spelled '
         "Scaled(e,0) / Negated(Constant(0)) / Negated(Constant(-1)) because Expression's operators and replace_selectors fold "
         'a syntactic 0/1), e*e, e*f, f*e, e+(-f), 0+(-f), e+(-0), e+f, f+e, (-e), (-0), -(Constant), Scaled by 0/1/2/5 and '
         'nested forms; LookupKind::MixedDeg = (s*a0, m) in (mt0, s_tab*mt1) (input degrees (2,1), table degrees (1,2): degree '
         '6, the only constraint of that degree in the member); LookupKind::NoZero = a table without a zero row whose filler '
         'is 5; 4 Shapes members + one with all groups + 4 MixedDeg/NoZero members + 6 (quick) sampled extended members; stats '
         'add_expression-branch:* = how often each of the 30 branches (incl. reuse of a constant / rotation / calculation) was '
         'taken by the gate polynomials of the graph lines (WARNING:add_expression-branch-never-hit:* if one is not)',
 'explanation': "Theorems: schedule_agree (verifier replays the prover's transcript operations for every shape/configuration); "
                'identity_order_agree / horner_sections; compile_correct; quotient_blind_recombine / chunks_recombine; '
                'perm_product_complete (with perm_rule_rows, perm_last_value / perm_last_complete, '
                'sigma_invariant_pairs_perm); lookup_permuted_spec / _fail / _no_panic; lookup_product_complete; '
                'trash_complete. NEW assembly: vanishing_poly_factors, vanish_on_domain_iff_dvd, ycomb_divisible (every y), '
                'quotient_identity_everywhere (h(x)(x^n-1) = fold of the identity values, every x), honest_verifies_algebraic '
                '(for every field with a primitive n-th root, every q >= 1, every list of identity polynomials that vanish on '
                'every row and have degree < n+(n-1)q, every y, every blinding vector of blind_quotient_limbs and every x with '
                'x^n != 1: the quotient exists, truncate((n-1)q) loses nothing, the chopped commitment Sum x^((n-1)i) h_i '
                'opens to exactly the expected_h_eval the verifier computes - the model hCheck accepts); lagrange_range_spec, '
                'lagrange_interpolation, l_evals_spec (l_0, l_last, l_blind = evaluations of the indicator interpolants [i=0], '
                '[i=u], [u<i] - the convention of the row-level theorems), instance_eval_spec (compute_inner_product over the '
                'l_i_range window with offset max_rotation - rotation = column polynomial at w^rot x); '
                'lookup_identities_vanish_on_domain / trash_identity_vanishes_on_domain (row-level completeness lifted to the '
                'identity POLYNOMIALS built from Lagrange-form vectors and rotations); selector_gate_blinding_rows (selector*G '
                'vanishes on the whole domain with NO assumption on G on the blinding rows) and unselected_gate_not_divisible '
                '(a gate without such a factor has no quotient). Tie: the executable schedules are compared event by event '
                'with transcripts recorded from the real prover and verifier; the number of identities AND the fold itself '
                '(expectedHEval on the hooked values, y, xn must reproduce the hooked expected_h_eval); lIRange must reproduce '
                'EvaluationDomain::l_i_range value by value; instanceEval must reproduce every plain-column entry of the '
                "verifier's instance_evals (new add-only hook); lEvals must equal "
                'eval_polynomial(lagrange_to_coeff(indicator)) computed by the real domain code; the Lean models permProducts '
                '/ compressExpressions / permuteExpressionPair / lookupProduct / trashValues are run on the real table and '
                'must reproduce the vectors logged inside the real prover; the verifier-side row rules (Lean and an '
                'independent Rust re-implementation) are evaluated on the logged vectors. Oracles: every honest proof '
                'verifies; prover and verifier absorb identical bytes; the logged vectors satisfy every identity on every row; '
                "EVERY custom-gate polynomial vanishes on EVERY row of the real table (blinding rows with the prover's random "
                'values included) and every fixed column is zero on the unusable rows (hypotheses of '
                "selector_gate_blinding_rows, counted); the verifier's instance evaluation equals the column polynomial at "
                'w^rot x; the honest table satisfies the multiset hypothesis of perm_product_complete; gates without a factor '
                'vanishing on the unusable rows: the mock checker reports ConstraintPoisoned and the real verifier rejects '
                '(recorded, counters noselector-gate:*), with a fixed-column factor mock and verifier accept; whenever the '
                'mock checker accepts, the honest proof must be accepted. The correspondence is deliberately value-level for '
                'l_i_range / expected_h_eval / instance evaluations (a re-association or a rewrite through omega instead of '
                'omega_inv does not fire; a changed index, window or dropped term does). NEW (round 5): '
                'times_two_compiles_to_double_of_other_operand and constant_shortcuts_both_sides (concrete readings of the '
                'mirror addExpr for every constant shortcut on BOTH operand positions; the mirror was already '
                'branch-for-branch, the graph lines now drive every branch: the real compiled graph of the Shapes members must '
                "equal the Lean compiler's output calculation by calculation, and the honest proofs of these members must "
                'verify); numerator_fits_quotient_pieces (every identity class - gates, permutation rules with degree-2 '
                'columns per set, the five lookup rules with the theta-compressed input x table product, trash - has degree <= '
                'the mirrored ConstraintSystem::degree() and its quotient fits the degree-1 pieces of n-1 coefficients, for '
                'every constraint system and n; C02.degree_covers_identities, C02.gate_poly_degree_covered = hdeg of '
                'honest_verifies_algebraic for the gate polynomials, C02.per_column_degree_formula_insufficient, '
                'C02.quotient_fits_pieces / quotient_overflows_pieces: no slack). A Rust re-implementation of add_expression '
                'in harness/c01/src/branches.rs is used ONLY to label branches for the statistics (its graph is cross-checked '
                'with the real one; counter branch-statistics:mirror-differs-from-real-graph). '
                'perm_identities_vanish_on_domain: under the hypotheses of perm_product_complete the permutation identity '
                'POLYNOMIALS (column polynomials of the values / sigma labels / honest running products, rotations, delta^c*X, '
                'Lagrange-basis l_0/l_last/l_blind) vanish on the whole domain - hvanish of honest_verifies_algebraic for the '
                'permutation class.',
 'trusted_base': ['commitments, pairing check and the hash inside the transcript are abstract in the model (events carry only '
                  'kind/type/tag); honest_verifies_algebraic reads a commitment as the polynomial it commits to (opening '
                  'completeness is C14)',
                  'the argument theorems are row-level: a polynomial in Lagrange form is identified with its value vector on '
                  'the domain, l_0/l_last/l_blind with the indicator of row 0 / row u / rows > u, rotation with a cyclic row '
                  'shift; the lift to polynomials (colPoly / rotPoly / indPoly evaluated at w^i = row value) is proved for the '
                  "permutation, lookup, trash and selector-gated identities, and used as the hypothesis 'vanishes on every "
                  "row' of honest_verifies_algebraic for general gates",
                  'verif-hooks in midnight-proofs (thread-local observers: identity log, argument-vector log, '
                  'instance-evaluation log), ProvingKey::verif_derived_parts (fixed values, sigma labels), '
                  'ProvingKey::verif_custom_gates_graph',
                  "parallelize/rayon chunking inside the prover's loops is modelled by the sequential loop (chunk independence "
                  'is C12/C17); divide_by_vanishing_poly / extended_to_coeff (coset FFT) are specified as polynomial division '
                  'by X^n-1 (FFT correctness is C12)'],
 'assumptions': ['witness satisfies the circuit (by construction of the family; for the stress shapes also checked with the '
                 'mock checker); KZG completeness is C14',
                 "challenges outside the exceptional set: no denominator beta*sigma+gamma+v resp. (beta+A')(gamma+S') vanishes "
                 'on a usable row (explicit hypotheses hden of perm_product_complete / lookup_product_complete; counted on '
                 'every real case: never observed), and x outside the domain (x^n != 1: the verifier would panic on '
                 'invert().unwrap(); probability n/|F|)',
                 'Ord of the field is a linear order whose equal elements are identical (hypothesis LinOrd of the lookup '
                 'theorems)',
                 'hdeg of honest_verifies_algebraic (every identity polynomial has degree < n + (n-1)*(degree-1)) is now '
                 'PROVED for the gate polynomials (C02.gate_poly_degree_covered) and, in syntactic form (degree counted in '
                 'units of a column polynomial), for every identity class (numerator_fits_quotient_pieces); the polynomial '
                 'natDegree bound for the permutation / lookup / trash identity polynomials is not mechanised (their syntactic '
                 'degrees are)'],
 'level_text': 'Kernel-checked theorems (46 obligations): prover and verifier transcript schedules agree for all '
               "shapes/configurations (the place where the pinned tree rejected honest proofs); the prover's order of "
               "combining identities with y equals the verifier's for all shapes; the expression-graph compiler is correct; "
               'quotient split/blind/recombine; the permutation, lookup and trash arguments the honest prover constructs '
               'satisfy every verifier identity on every row (for all layouts, all n, all blinding values, every HashMap '
               'order, outside an explicitly stated exceptional set of challenges); and the assembly honest_verifies_algebraic '
               'over any field with a primitive n-th root of unity: identities vanishing on every row => quotient exists, its '
               "blinded pieces recombine to h(x), and the verifier's final evaluation check passes for every y and every x off "
               "the domain, with l_i_range / l_0 / l_last / l_blind / the verifier's instance evaluations proved equal to the "
               'evaluations of the interpolating polynomials, and selector-gated custom gates proved to vanish on the blinding '
               'rows. Models validated against recorded transcripts, compiled graphs, the identity log with its fold, '
               'l_i_range, the hooked instance evaluations and the argument vectors logged inside the real prover; '
               'honest-proof acceptance, rule satisfaction and gate satisfaction on all rows (blinding rows included) observed '
               'on every generated case; every branch of add_expression (both operand positions of every constant shortcut) is '
               'exercised by the compiled-graph comparison and by honest proofs; the degree bookkeeping is proved to cover '
               'every identity class (numerator_fits_quotient_pieces) and exercised by a mixed-degree lookup that alone '
               'decides the number of quotient pieces',
 'level_note': 'Trusted: Lean kernel, harness, driver, hooks. Abstract: group/pairing/hash. Still not mechanised: (1) the lift '
               'from rows to polynomials is now proved for the PERMUTATION identities too (perm_identities_vanish_on_domain: '
               "perm_product_complete + C02's permIdPolys lift) in addition to lookup, trash and selector-gated gates; for "
               'ARBITRARY gate expressions the lift exists only over ZMod p on a concrete table '
               '(C02.gate_identity_vanishes_on_domain_iff_rows), not over an abstract field, and the assembly still takes the '
               'LIST of identity polynomials with hvanish as hypothesis (the per-class theorems discharge it class by class; '
               'the concatenation over a whole constraint system is not stated); (2) the degree bound hdeg is proved for the '
               'gate polynomials (C02.gate_poly_degree_covered) and syntactically for all classes '
               '(numerator_fits_quotient_pieces), not yet as natDegree bounds of the permutation / lookup / trash identity '
               'polynomials; (3) the probability bound for the exceptional challenge set; (4) lEvals mirrors '
               "evaluate_identities' first lines but those are only observed through l_i_range and the identity values (no "
               "direct hook on l_0/l_last/l_blind); the chopped-commitment scalars of as_terms and the prover's "
               'Constructed::evaluate are modelled (choppedScalars, proverHReduce) and proved equal, but observed only through '
               'proof acceptance. The argument models take sigma labels and cell values as inputs: that keygen produces sigma '
               'labels which are a permutation of the identity labels is checked on every real case (multiset hypothesis), not '
               'proved (C17/C02). Gates without a factor that vanishes on the unusable rows are outside the property: the mock '
               'checker refuses them (ConstraintPoisoned) and the honest proof is rejected (shown on the real prover; Lean: '
               'unselected_gate_not_divisible); only the custom-gates graph is hooked: the graphs add_expression builds for '
               'lookup and trash expressions are observed through proof acceptance only',
 'timeout': {'quick': 1200, 'thorough': 7200, 'search': 1800}}
