CHECK = {
    "lean_module": "MidnightZK.Props.C01",
    "harness": "h-c01",
    "translators": [],
    "level": "proof",
    "technique": "Lean 4 proof of prover/verifier Fiat-Shamir schedule agreement for every constraint-system shape and proving configuration; schedules tied to the code by recording the real transcripts of generated circuits",
    "rule": "circuit-family members (random gate kinds/degrees/rotations, lookups, copy constraints, phases, "
            "unblinded columns, trash arguments) x 1..4 proofs x 0..2 committed + 0..2 plain instance columns x k "
            "x {blake2b, poseidon}; one case = one real prove+verify; request lines carry the dumped constraint-system "
            "shape; distinct = distinct (shape, configuration) request lines; all are non-trivial (real proofs)",
    "explanation": "Theorem schedule_agree: for every shape and configuration the verifier replays the prover's transcript "
                   "operations. The executable schedules are compared, event by event, with the transcripts recorded from the real "
                   "prover and verifier; the oracle is that every honest proof verifies.",
    "trusted_base": ["commitments, pairing check and the hash inside the transcript are abstract in the model (events carry only kind/type/tag)"],
    "assumptions": ["witness satisfies the circuit (by construction of the family); KZG completeness is C14"],
    "level_text": "Kernel-checked theorem that prover and verifier transcript schedules agree for all shapes/configurations (the place where the pinned tree rejected honest proofs), plus hpieces/extended-domain lemmas; model validated against recorded transcripts of real proofs; honest-proof acceptance observed on every generated case",
    "level_note": "Trusted: Lean kernel, harness, driver. Abstract: group/pairing/hash. Completeness of the algebraic identities (permutation/lookup products) is argued in DESIGN.md, not yet all mechanised",
    "timeout": {"quick": 1200, "thorough": 7200, "search": 1800},
}
