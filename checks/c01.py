CHECK = {'lean_module': 'MidnightZK.Props.C01',
 'harness': 'h-c01',
 'translators': [],
 'level': 'proof',
 'technique': 'Lean 4 proofs over executable models of the prover/verifier control flow: Fiat-Shamir schedule agreement for '
              'every constraint-system shape and proving configuration; order of the y-combination (prover loop nest = verifier '
              'iterator chain); expression-graph compiler correctness; quotient split/blind/recombine; row-level completeness of '
              'the permutation, lookup (incl. a full specification of permute_expression_pair for every HashMap iteration order) '
              "and trash arguments as the prover constructs them; and the ASSEMBLY over Mathlib's Polynomial for an arbitrary "
              'field with a primitive n-th root of unity: X^n-1 = prod (X-w^i), divisibility of the y-combination of identities '
              "that vanish on the domain, existence/degree of the quotient, the prover's pieces recombine to h(x), the "
              "verifier's expected_h_eval equals h(x) off the domain, l_i_range is the barycentric formula, l_0/l_last/l_blind "
              "and the verifier's own instance evaluations are evaluations of the interpolating polynomials. Models tied to the "
              "code by recording real transcripts, the compiled graphs, the verifier's identity log (values, y, xn, "
              'expected_h_eval), the hooked instance evaluations, EvaluationDomain::l_i_range and the hooked Lagrange vectors of '
              "the prover's arguments on generated circuits",
 'rule': 'circuit-family members (random gate kinds/degrees/rotations, lookups, copy constraints, phases, unblinded columns, '
         'trash arguments) and C01-owned stress shapes (gate degree 3..9 = 2..8 quotient pieces, unblinded column queried at '
         '-1/0/+1, third-phase column never queried, lookup_any into an advice column and into an instance column, 3 and 4 '
         'proofs with 2 committed instance columns, k from the minimum the shape supports) x 1..4 proofs x 0..2 committed + 0..2 '
         'plain instance columns x k x {blake2b, poseidon}; one case = one real prove+verify; request lines carry the dumped '
         "constraint-system shape (schedule/prooflen/graph/idcount), the verifier's identity values with y and x^n (hfold -> "
         "expected_h_eval), domain + x + rotation lists (lirange: the verifier's two windows, random rotations beyond +-n, "
         'multiples of n; levals), each plain instance column with its query rotation (insteval -> the value the real verifier '
         'computed) or, for the argument vectors (blake2b runs, k <= 7 quick / 8 thorough, first two proofs), the REAL table of '
         'the proof with its blinding rows, the sigma labels of the proving key and the challenges read off the transcript '
         "(argtable), followed by permz / lookupcomp / lookupperm / lookupz / trashvec (model recomputes the prover's vectors) "
         "and permrules / lookuprules / trashrules (the verifier's identities read row by row on the logged vectors and on "
         'vectors with one altered entry); lookupperm-failure = witnesses with a lookup input outside the table; distinct = '
         'distinct request lines; all are non-trivial (real proofs)',
 'explanation': "Theorems: schedule_agree (verifier replays the prover's transcript operations for every shape/configuration); "
                'identity_order_agree / horner_sections; compile_correct; quotient_blind_recombine / chunks_recombine; '
                'perm_product_complete (with perm_rule_rows, perm_last_value / perm_last_complete, sigma_invariant_pairs_perm); '
                'lookup_permuted_spec / _fail / _no_panic; lookup_product_complete; trash_complete. NEW assembly: '
                'vanishing_poly_factors, vanish_on_domain_iff_dvd, ycomb_divisible (every y), quotient_identity_everywhere '
                '(h(x)(x^n-1) = fold of the identity values, every x), honest_verifies_algebraic (for every field with a '
                'primitive n-th root, every q >= 1, every list of identity polynomials that vanish on every row and have degree '
                '< n+(n-1)q, every y, every blinding vector of blind_quotient_limbs and every x with x^n != 1: the quotient '
                'exists, truncate((n-1)q) loses nothing, the chopped commitment Sum x^((n-1)i) h_i opens to exactly the '
                'expected_h_eval the verifier computes - the model hCheck accepts); lagrange_range_spec, lagrange_interpolation, '
                'l_evals_spec (l_0, l_last, l_blind = evaluations of the indicator interpolants [i=0], [i=u], [u<i] - the '
                'convention of the row-level theorems), instance_eval_spec (compute_inner_product over the l_i_range window with '
                'offset max_rotation - rotation = column polynomial at w^rot x); lookup_identities_vanish_on_domain / '
                'trash_identity_vanishes_on_domain (row-level completeness lifted to the identity POLYNOMIALS built from '
                'Lagrange-form vectors and rotations); selector_gate_blinding_rows (selector*G vanishes on the whole domain with '
                'NO assumption on G on the blinding rows) and unselected_gate_not_divisible (a gate without such a factor has no '
                'quotient). Tie: the executable schedules are compared event by event with transcripts recorded from the real '
                'prover and verifier; the number of identities AND the fold itself (expectedHEval on the hooked values, y, xn '
                'must reproduce the hooked expected_h_eval); lIRange must reproduce EvaluationDomain::l_i_range value by value; '
                "instanceEval must reproduce every plain-column entry of the verifier's instance_evals (new add-only hook); "
                'lEvals must equal eval_polynomial(lagrange_to_coeff(indicator)) computed by the real domain code; the Lean '
                'models permProducts / compressExpressions / permuteExpressionPair / lookupProduct / trashValues are run on the '
                'real table and must reproduce the vectors logged inside the real prover; the verifier-side row rules (Lean and '
                'an independent Rust re-implementation) are evaluated on the logged vectors. Oracles: every honest proof '
                'verifies; prover and verifier absorb identical bytes; the logged vectors satisfy every identity on every row; '
                "EVERY custom-gate polynomial vanishes on EVERY row of the real table (blinding rows with the prover's random "
                'values included) and every fixed column is zero on the unusable rows (hypotheses of '
                "selector_gate_blinding_rows, counted); the verifier's instance evaluation equals the column polynomial at w^rot "
                'x; the honest table satisfies the multiset hypothesis of perm_product_complete; gates without a factor '
                'vanishing on the unusable rows: the mock checker reports ConstraintPoisoned and the real verifier rejects '
                '(recorded, counters noselector-gate:*), with a fixed-column factor mock and verifier accept; whenever the mock '
                'checker accepts, the honest proof must be accepted. The correspondence is deliberately value-level for '
                'l_i_range / expected_h_eval / instance evaluations (a re-association or a rewrite through omega instead of '
                'omega_inv does not fire; a changed index, window or dropped term does).',
 'trusted_base': ['commitments, pairing check and the hash inside the transcript are abstract in the model (events carry only '
                  'kind/type/tag); honest_verifies_algebraic reads a commitment as the polynomial it commits to (opening '
                  'completeness is C14)',
                  'the argument theorems are row-level: a polynomial in Lagrange form is identified with its value vector on the '
                  'domain, l_0/l_last/l_blind with the indicator of row 0 / row u / rows > u, rotation with a cyclic row shift; '
                  'the lift to polynomials (colPoly / rotPoly / indPoly evaluated at w^i = row value) is proved for the lookup, '
                  "trash and selector-gated identities, and used as the hypothesis 'vanishes on every row' of "
                  'honest_verifies_algebraic for the permutation identities and general gates',
                  'verif-hooks in midnight-proofs (thread-local observers: identity log, argument-vector log, '
                  'instance-evaluation log), ProvingKey::verif_derived_parts (fixed values, sigma labels), '
                  'ProvingKey::verif_custom_gates_graph',
                  "parallelize/rayon chunking inside the prover's loops is modelled by the sequential loop (chunk independence "
                  'is C12/C17); divide_by_vanishing_poly / extended_to_coeff (coset FFT) are specified as polynomial division by '
                  'X^n-1 (FFT correctness is C12)'],
 'assumptions': ['witness satisfies the circuit (by construction of the family; for the stress shapes also checked with the mock '
                 'checker); KZG completeness is C14',
                 "challenges outside the exceptional set: no denominator beta*sigma+gamma+v resp. (beta+A')(gamma+S') vanishes "
                 'on a usable row (explicit hypotheses hden of perm_product_complete / lookup_product_complete; counted on every '
                 'real case: never observed), and x outside the domain (x^n != 1: the verifier would panic on invert().unwrap(); '
                 'probability n/|F|)',
                 'Ord of the field is a linear order whose equal elements are identical (hypothesis LinOrd of the lookup '
                 'theorems)',
                 'every identity polynomial has degree < n + (n-1)*(degree-1) (hypothesis hdeg of honest_verifies_algebraic: '
                 'what cs.degree() computes; not derived from the gate expressions)'],
 'level_text': 'Kernel-checked theorems (42 obligations): prover and verifier transcript schedules agree for all '
               "shapes/configurations (the place where the pinned tree rejected honest proofs); the prover's order of combining "
               "identities with y equals the verifier's for all shapes; the expression-graph compiler is correct; quotient "
               'split/blind/recombine; the permutation, lookup and trash arguments the honest prover constructs satisfy every '
               'verifier identity on every row (for all layouts, all n, all blinding values, every HashMap order, outside an '
               'explicitly stated exceptional set of challenges); and the assembly honest_verifies_algebraic over any field with '
               'a primitive n-th root of unity: identities vanishing on every row => quotient exists, its blinded pieces '
               "recombine to h(x), and the verifier's final evaluation check passes for every y and every x off the domain, with "
               "l_i_range / l_0 / l_last / l_blind / the verifier's instance evaluations proved equal to the evaluations of the "
               'interpolating polynomials, and selector-gated custom gates proved to vanish on the blinding rows. Models '
               'validated against recorded transcripts, compiled graphs, the identity log with its fold, l_i_range, the hooked '
               'instance evaluations and the argument vectors logged inside the real prover; honest-proof acceptance, rule '
               'satisfaction and gate satisfaction on all rows (blinding rows included) observed on every generated case',
 'level_note': 'Trusted: Lean kernel, harness, driver, hooks. Abstract: group/pairing/hash. Still not mechanised: (1) the lift '
               'from rows to polynomials for the PERMUTATION identities (perm_product_complete is row-level; its polynomial form '
               'is the hypothesis hvanish of honest_verifies_algebraic - the lookup, trash and selector-gate lifts are proved) '
               'and for arbitrary gate expressions (Expr.eval over F[X] vs rows); (2) the degree bound hdeg from the gate '
               'expressions; (3) the probability bound for the exceptional challenge set; (4) lEvals mirrors '
               "evaluate_identities' first lines but those are only observed through l_i_range and the identity values (no "
               "direct hook on l_0/l_last/l_blind); the chopped-commitment scalars of as_terms and the prover's "
               'Constructed::evaluate are modelled (choppedScalars, proverHReduce) and proved equal, but observed only through '
               'proof acceptance. The argument models take sigma labels and cell values as inputs: that keygen produces sigma '
               'labels which are a permutation of the identity labels is checked on every real case (multiset hypothesis), not '
               'proved (C17/C02). Gates without a factor that vanishes on the unusable rows are outside the property: the mock '
               'checker refuses them (ConstraintPoisoned) and the honest proof is rejected (shown on the real prover; Lean: '
               'unselected_gate_not_divisible)',
 'timeout': {'quick': 1200, 'thorough': 7200, 'search': 1800}}
