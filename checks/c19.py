CHECK = {
    "lean_module": "MidnightZK.Props.C19",
    "harness": "h-c19",
    "translators": [],
    "level": "proof",
    "technique": "Lean 4 proof of a certificate checker (derivative matcher = denotational language; bisimulation certificate sound for all words) + translation validation: the proved checker is run on every compiled and shipped automaton; base64/parser rows proved against executable models tied by correspondence",
    "rule": "one `equiv` request per generated regular expression (real combinators, internal tree dumped by a "
            "hook, compiled Automaton dumped): the Lean checker decides language equality for ALL words; "
            "non-trivial when the automaton has >1 state; distinctness by hash of the request line",
    "explanation": "Kernel-checked soundness of a certificate checker (bisimulation between the compiled automaton "
                   "and the Brzozowski-derivative automaton of the reference semantics); the checker is run on every "
                   "generated expression and on the shipped serialized automata; base64 and the in-circuit parser are "
                   "compared with executable models on exhaustive length/padding/corruption sweeps",
    "trusted_base": [
        "compiled Lean code of the checker run (the theorem checkEquiv_sound is about the function; its execution is trusted to the Lean compiler/runtime)",
        "the hook Regex::verif_dump prints the internal tree faithfully",
        "MockProver as the judge of satisfiability for the in-circuit half",
    ],
    "level_text": "Kernel-checked Lean theorems: derivative matcher = denotational language (marker-unifying intersection, complement), soundness of the all-words equivalence checker (automaton vs expression, automaton vs automaton), serialization round trip, base64 arithmetic decoding; translation validation of every compiled and shipped automaton on every run",
    "level_note": "Trusted: Lean kernel; Lean compiler/runtime for the checker run; the correspondence harness. Regex compilation itself is not modelled (validated per instance, for all words)",
    "assumptions": [
        "bytes are < 256 (u8)",
    ],
    "timeout": {"quick": 600, "thorough": 2400, "search": 600},
}
