CHECK = {
    "lean_module": "MidnightZK.Props.C19",
    "harness": "h-c19",
    "translators": ["c19_base64"],
    "level": "proof",
    "technique": "Lean 4 proof of a certificate checker (derivative matcher = denotational language; bisimulation "
                 "certificate sound for all words) + translation validation: the proved checker is run on every "
                 "compiled and shipped automaton, over a structural corpus of every ordered pair/triple of combinator "
                 "heads and two random streams; in-circuit parser: Lean emitter of lookup / loaded table / region rows "
                 "and copy constraints compared cell by cell with the real synthesis, theorem layout-satisfiable <=> run; "
                 "base64: arithmetic decoding proved against RFC 4648 encoding, table and constants regenerated from "
                 "the Rust sources by a translator; collections of 2-4 automata in ONE table (from_collection): "
                 "Lean emitter of offsets / shared table / rows compared with the real synthesis, theorem "
                 "layout-over-shared-table satisfiable <=> run of the chosen member, and the REAL loaded table "
                 "explored as a nondeterministic automaton from every member's pinned start (any accepted word the "
                 "member does not accept = failing input); Base64Chip wiring: lookup expression, loaded two-entry "
                 "table and the enabled rows of every `Base64 chunk` region compared, theorem rows satisfiable <=> "
                 "arithmetic decoder; ParserGadget (fetch_bytes, ascii_to_int, date_to_int): executable mirrors "
                 "compared with MockProver verdict + value, specification theorems; serialization: inverse in both "
                 "directions (canonical form)",
    "rule": "one `equiv` request per generated regular expression (real combinators, internal tree dumped by a "
            "hook, compiled Automaton dumped): the Lean checker decides language equality for ALL words; "
            "non-trivial when the automaton has >1 state; distinctness by hash of the request line. Expressions: "
            "(a) fixed structural corpus first in every tier: cat(A,B), star(cat(A,B)), union(A,B), cat(A,cat(B,C)) "
            "for every ordered pair (17x17) / triple (quick: 8x8x8, thorough+search: 17x17x17) of heads {byte, word, "
            "class, star, plus, optional, repeat, repeat_at_most, union, inter, minus, neg, separated list, spaced "
            "separated list, delimited, mark, mark_bytes} around words of length 1, 2, 3 over {a,b,c}; (b) the "
            "uniform random stream over all public combinators (depth 1..5) and a concatenation-heavy stream in which "
            "iterations of multi-byte words occur at every depth; (c) the distribution `concat-pair[source]:L>R` of "
            "(head of left factor, head of right factor) over every Concat node of the dumped trees is in the "
            "evidence. The corpus reports at most 8 language differences with their distinguishing word (the rest is "
            "counted). The correspondence is deliberately tight on: the internal tree of every combinator, the "
            "loaded lookup table (as a multiset, order-insensitive), every cell and copy constraint of the parsing "
            "region, the serialization bytes, the offsets handed out by from_collection (a benign renumbering "
            "such as handing out the offsets in another order changes the `coll-table` line: deliberate), the "
            "structural text of the Base64 lookup input expressions (a re-association of q*(a0*256+a1)+(1-q)*default "
            "changes the `b64-lookup` line: deliberate; the table is compared in load order). Collections: "
            "`pctable` (offsets + whole table), `pctrace` (rows + pins per member and word), `pcparse` (verdict "
            "+ markers) for every member of every collection on the pooled accepted words of ALL members "
            "(cross words), forged witnesses starting in / jumping into another member's range. Base64: "
            "`b64rows` for every sweep case that synthesises. Data types: `atoi` (every length 0..77, non-digit "
            "neighbours 47/58 at first/middle/last position), `date` (4 formats, wrong/misplaced separators, wrong "
            "lengths, corrupted digits), `fetch` (sequence lengths around the 31-byte chunk boundaries x window "
            "lengths x first/last/straddling/out-of-range indices incl. 2^18)",
    "explanation": "Kernel-checked soundness of a certificate checker (bisimulation between the compiled automaton "
                   "and the Brzozowski-derivative automaton of the reference semantics); the checker is run on every "
                   "generated expression and on the shipped serialized automata. In-circuit parser: the lookup "
                   "argument, the loaded table (dummy row, transition rows, final-state sentinel rows with letter 256, "
                   "padding) and the rows of the region `parsing layout` with their copy constraints (initial state "
                   "pinned to a constant, letters copied from the input, next states and markers free, sentinel letter "
                   "256 / output 0 / last state 0 pinned) are emitted by the Lean model from the automaton alone and "
                   "compared with what MockProver holds after the real synthesis (compiled automata, random automata, "
                   "the shipped Jwt automaton); `parse_layout_iff_run` proves that this layout is satisfiable for an "
                   "input and an output column iff the automaton accepts with exactly these markers. Base64: decoding "
                   "proved against the RFC 4648 encoder for every byte string; BASE64_TABLE, ALT_PAD, B64_PAD, the "
                   "url substitutions and the sentinel letter are regenerated from the sources and re-proved equal to "
                   "the model's on every run; exhaustive length/padding/corruption sweeps under MockProver. "
                   "Serialization: round trip proved; every truncation of small automata and every value of the 16 "
                   "scalar header bytes decoded by the real deserializer and by the model; both length fields "
                   "decreased AND increased (low byte, every higher byte incl. 2^63, all-ones) - errors or "
                   "re-readings exactly as the model says, never a panic; `deserialize_canonical`: whatever the "
                   "deserializer accepts is byte for byte the serialization of what it returns (so serialize is "
                   "injective and prefix-free, every truncation is rejected, the length fields are binding). "
                   "Several automata in one table: `from_collection_wf` (offsets 1, 1+n0, ... give disjoint ranges "
                   "that avoid the dummy state 0, any number of closed automata), `collection_step_in_range` (a table "
                   "row whose source lies in a member's range is that member's own transition and stays in the "
                   "range), `parse_collection_iff_run` (the layout over the SHARED table, first state pinned to "
                   "init_i + off_i, is satisfiable iff member i accepts with exactly these markers); the harness "
                   "configures the real chip with collections of 2-4 automata (common-prefix languages, twins, a "
                   "one-state member, random members, the shipped Jwt automaton with two small ones), parses every "
                   "member, compares offsets/table/rows with the Lean emitter, forges witnesses in another member's "
                   "range, and explores the real table from every member's start state against the member's own "
                   "automaton (complete for the loaded table: a counterexample is a failing input). Base64Chip: the "
                   "lookup input expressions, the 4096-row table and the enabled rows (characters after url "
                   "translation / `=` substitution / ALT_PAD fill with their copy constraints, 12-bit values) are "
                   "emitted by the model and compared; `base64_lookup_sound` + `base64_rows_sound` prove that these "
                   "rows are satisfiable iff the arithmetic decoder returns the output (fixed length; variable "
                   "length: the rows of the right-aligned buffer). ParserGadget: `get_subsequence_spec`, "
                   "`fetch_bytes_spec` (the 31-byte chunked coarse/fine selection returns exactly the window, for "
                   "every sequence, length and index), `ascii_to_int_spec`, `date_to_int_spec` at full strength; the "
                   "executable mirrors are compared with the circuit's verdict and value and with the specification",
    "trusted_base": [
        "compiled Lean code of the checker run (the theorem checkEquiv_sound is about the function; its execution is trusted to the Lean compiler/runtime)",
        "the hook Regex::verif_dump prints the internal tree faithfully",
        "MockProver as the judge of satisfiability for the in-circuit half, and as the source of the assignment table / permutation that the structural comparison reads",
        "the harness reads the lookup, table columns and permutation cycles of the real constraint system correctly (harness/c19/src/trace.rs)",
        "the harness's FxHashMap<usize, Automaton> (keys 0..n inserted in order) iterates in the same order as the clone handed to AutomatonChip::configure (offsets are nevertheless visible in the compared table)",
    ],
    "level_text": "Kernel-checked Lean theorems: derivative matcher = denotational language (marker-unifying intersection, complement), soundness of the all-words equivalence checker (automaton vs expression, automaton vs automaton), serialization inverse in both directions (round trip, canonical form, injective, prefix-free, truncations rejected), in-circuit parser layout (pinned / copied / free cells, table with sentinel rows) satisfiable iff the automaton accepts with exactly these markers - for one automaton and for any collection of automata sharing one table with the offsets of from_collection (disjoint ranges, no interference), base64 arithmetic decoding and the lookup rows of Base64Chip (rows satisfiable iff the arithmetic decoder returns the output) with table and constants regenerated from the sources, get_subsequence / fetch_bytes / ascii_to_int / date_to_int specifications; translation validation of every compiled and shipped automaton on every run, over a structural corpus of all ordered pairs / triples of combinator heads",
    "level_note": "Trusted: Lean kernel; Lean compiler/runtime for the checker run; the correspondence harness; MockProver. Regex compilation itself (determinisation, minimisation, concat/repeat constructions) is not modelled: it is validated per instance, for all words. The collection theorems assume closed automata (all state numbers < nb_states; checked by the driver on every dumped automaton, not enforced by the deserializer) and take the iteration order of the FxHashMap from the harness. Variable-length base64: the chunk rows of the buffer are tied and proved, the Base64Vec / VectorGadget plumbing (filler, trimming to 3/4 of the length) is compared by verdict and output only. The byte decomposition and the linear combination of Base64Chip / ascii_to_int are modelled over the naturals (values < 2^24 resp. < 10^76 < p). ParserGadget is exercised with the honest prover only (a failing range check makes witness generation panic; counted as unsatisfiable), no forged witnesses. The deserializer does not reject trailing bytes (returned as rest, ignored by deserialize_unwrap) nor unsorted / duplicate entries; the circuit is lenient on non-canonical trailing bits and on '+', '/' in url mode (stated as theorems, documented behaviour)",
    "assumptions": [
        "bytes are < 256 (u8)",
    ],
    "timeout": {"quick": 900, "thorough": 3000, "search": 900},
}
