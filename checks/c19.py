CHECK = {
    "lean_module": "MidnightZK.Props.C19",
    "harness": "h-c19",
    "translators": ["c19_base64"],
    "level": "proof",
    "technique": "Lean 4 proof of a certificate checker (derivative matcher = denotational language; bisimulation "
                 "certificate sound for all words) + translation validation: the proved checker is run on every "
                 "compiled and shipped automaton, over a structural corpus of every ordered pair/triple of combinator "
                 "heads and two random streams; in-circuit parser: Lean emitter of lookup / loaded table / region rows "
                 "and copy constraints compared cell by cell with the real synthesis, theorem layout-satisfiable <=> run; "
                 "base64: arithmetic decoding proved against RFC 4648 encoding, table and constants regenerated from "
                 "the Rust sources by a translator",
    "rule": "one `equiv` request per generated regular expression (real combinators, internal tree dumped by a "
            "hook, compiled Automaton dumped): the Lean checker decides language equality for ALL words; "
            "non-trivial when the automaton has >1 state; distinctness by hash of the request line. Expressions: "
            "(a) fixed structural corpus first in every tier: cat(A,B), star(cat(A,B)), union(A,B), cat(A,cat(B,C)) "
            "for every ordered pair (17x17) / triple (quick: 8x8x8, thorough+search: 17x17x17) of heads {byte, word, "
            "class, star, plus, optional, repeat, repeat_at_most, union, inter, minus, neg, separated list, spaced "
            "separated list, delimited, mark, mark_bytes} around words of length 1, 2, 3 over {a,b,c}; (b) the "
            "uniform random stream over all public combinators (depth 1..5) and a concatenation-heavy stream in which "
            "iterations of multi-byte words occur at every depth; (c) the distribution `concat-pair[source]:L>R` of "
            "(head of left factor, head of right factor) over every Concat node of the dumped trees is in the "
            "evidence. The corpus reports at most 8 language differences with their distinguishing word (the rest is "
            "counted). The correspondence is deliberately tight on: the internal tree of every combinator, the "
            "loaded lookup table (as a multiset, order-insensitive), every cell and copy constraint of the parsing "
            "region, the serialization bytes",
    "explanation": "Kernel-checked soundness of a certificate checker (bisimulation between the compiled automaton "
                   "and the Brzozowski-derivative automaton of the reference semantics); the checker is run on every "
                   "generated expression and on the shipped serialized automata. In-circuit parser: the lookup "
                   "argument, the loaded table (dummy row, transition rows, final-state sentinel rows with letter 256, "
                   "padding) and the rows of the region `parsing layout` with their copy constraints (initial state "
                   "pinned to a constant, letters copied from the input, next states and markers free, sentinel letter "
                   "256 / output 0 / last state 0 pinned) are emitted by the Lean model from the automaton alone and "
                   "compared with what MockProver holds after the real synthesis (compiled automata, random automata, "
                   "the shipped Jwt automaton); `parse_layout_iff_run` proves that this layout is satisfiable for an "
                   "input and an output column iff the automaton accepts with exactly these markers. Base64: decoding "
                   "proved against the RFC 4648 encoder for every byte string; BASE64_TABLE, ALT_PAD, B64_PAD, the "
                   "url substitutions and the sentinel letter are regenerated from the sources and re-proved equal to "
                   "the model's on every run; exhaustive length/padding/corruption sweeps under MockProver. "
                   "Serialization: round trip proved; every truncation of small automata and every value of the 16 "
                   "scalar header bytes decoded by the real deserializer and by the model",
    "trusted_base": [
        "compiled Lean code of the checker run (the theorem checkEquiv_sound is about the function; its execution is trusted to the Lean compiler/runtime)",
        "the hook Regex::verif_dump prints the internal tree faithfully",
        "MockProver as the judge of satisfiability for the in-circuit half, and as the source of the assignment table / permutation that the structural comparison reads",
        "the harness reads the lookup, table columns and permutation cycles of the real constraint system correctly (harness/c19/src/trace.rs)",
    ],
    "level_text": "Kernel-checked Lean theorems: derivative matcher = denotational language (marker-unifying intersection, complement), soundness of the all-words equivalence checker (automaton vs expression, automaton vs automaton), serialization round trip, in-circuit parser layout (pinned / copied / free cells, table with sentinel rows) satisfiable iff the automaton accepts with exactly these markers, base64 arithmetic decoding with the table regenerated from the sources; translation validation of every compiled and shipped automaton on every run, over a structural corpus of all ordered pairs / triples of combinator heads",
    "level_note": "Trusted: Lean kernel; Lean compiler/runtime for the checker run; the correspondence harness; MockProver. Regex compilation itself (determinisation, minimisation, concat/repeat constructions) is not modelled: it is validated per instance, for all words. The parser theorem is about one automaton in the table (the collection of several automata with disjoint state ranges is only exercised with one automaton); variable-length base64 and the two-entry lookup wiring of Base64Chip are compared by verdict and output only; the circuit is lenient on non-canonical trailing bits and on '+', '/' in url mode (stated as theorems, documented behaviour)",
    "assumptions": [
        "bytes are < 256 (u8)",
    ],
    "timeout": {"quick": 900, "thorough": 3000, "search": 900},
}
