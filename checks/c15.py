CHECK = {
    "lean_module": "MidnightZK.Props.C15",
    "harness": "h-c15",
    "translators": ["c15_consts"],
    "level": "proof",
    "technique": "Lean theorems over an executable model (linear algebra over a field + root counting of the "
                 "combination polynomial), model tied to the real code by a line-by-line correspondence: "
                 "synthetic guards/accumulators with known discrete logarithms and trapdoor through the real "
                 "MSMKZG/DualMSM/Guard/Msm/Accumulator code, real proofs through the real zk_stdlib::batch_verify "
                 "with the honest, a recording and a challenge-forcing transcript hash",
    "rule": "one evaluation = one request line answered by the implementation and by the model; distinct non-trivial "
            "= distinct request lines of batches with >= 2 members / structures with >= 2 terms; the distribution "
            "table lists batch size x kind of invalidity x verdict",
    "explanation": "Batching (zk_stdlib::batch_verify, Guard::batch_verify, DualMSM scale/add_msm/check) and accumulation "
                   "(Accumulator from_dual_msm/accumulate/collapse/check, Msm) are modelled over an abstract field and "
                   "vector space; theorems: completeness at every challenge, soundness by counting (<= n-1 exceptional "
                   "challenges), order/multiplicity, first-error semantics, totality (empty batch, length mismatch), "
                   "the batching challenge absorbs every member's summary; the model is run against the real code on "
                   "every check, and the property's oracle (batch verdict == conjunction of individual verdicts) is "
                   "evaluated on real proofs for sizes 0..6",
    "trusted_base": [
        "blst pairing: e(L,[tau]_2)*e(R,-[1]_2)=1 is specified as tau*L=R (bilinear, non-degenerate); checked on "
        "every synthetic case against the known trapdoor and discrete logarithms",
        "multi-scalar multiplication (multi_exp/msm_best) is specified as the plain sum (property C12)",
        "the Poseidon sponge and Blake2b are uninterpreted functions: soundness is stated as a bound on the number "
        "of challenge values at which an invalid batch passes, not as a probability",
        "plonk::prepare is an input of the batching model (its result per member is observed, not modelled: C01/C03)",
    ],
    "level_text": "Kernel-checked Lean theorems about an executable model of the batching and accumulation layer (all batch "
                  "sizes, positions, orders, multiplicities, all field elements as challenges), with the model and the "
                  "property's oracle checked against the real entry points on every run",
    "level_note": "Trusted: Lean kernel, the correspondence harness and driver; pairing, MSM and hash functions are specified, "
                  "not verified; 'accepts only all-valid batches' holds up to <= n-1 exceptional challenge values per batch "
                  "(random-oracle step not formalised)",
    "assumptions": [
        "the batching challenge r (Blake2b transcript) and the accumulation challenge (Poseidon sponge) behave as values "
        "the prover cannot steer into the <= n-1 roots of the combination polynomial",
    ],
    "timeout": {"quick": 900, "thorough": 3000, "search": 900},
}
