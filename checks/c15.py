CHECK = {
    "lean_module": "MidnightZK.Props.C15",
    "harness": "h-c15",
    "translators": ["c15_consts"],
    "level": "proof",
    "technique": "Lean theorems over an executable model (linear algebra over a field + root counting of the "
                 "combination polynomial; induction over trees of scale/add_msm calls; per-key specifications of the "
                 "BTreeMap operations), model tied to the real code by a line-by-line correspondence: "
                 "synthetic guards/accumulators with known discrete logarithms and trapdoor through the real "
                 "MSMKZG/DualMSM/Guard/Msm/Accumulator code (chains and trees of calls, all pairs of key sets over four "
                 "names), real proofs through the real zk_stdlib::batch_verify with the honest, a recording and a "
                 "challenge-forcing transcript hash (every hasher operation of the batch in program order), and the "
                 "in-circuit AssignedAccumulator::accumulate run inside MockProver circuits (light back-end)",
    "rule": "one evaluation = one request line answered by the implementation and by the model; distinct non-trivial "
            "= distinct request lines of batches with >= 2 members / structures with >= 2 terms; the distribution "
            "table lists batch size x kind of invalidity x verdict, tree shape x verdict, key-set relation, "
            "in-circuit runs. The correspondence is deliberately tight on STRUCTURE (order of terms, scalars, map "
            "entries, order and byte length of transcript operations): a re-association of the batching loop that "
            "changes the order of terms in the combined guard is reported even if it is algebraically harmless",
    "explanation": "Batching (zk_stdlib::batch_verify, Guard::batch_verify, DualMSM scale/add_msm/check) and accumulation "
                   "(Accumulator from_dual_msm/accumulate/collapse/check, Msm; the in-circuit AssignedMsm scale/add_msm/"
                   "accumulate_with_r, powers and AssignedAccumulator::accumulate on values) are modelled over an abstract "
                   "field and vector space. Theorems: completeness at every challenge; soundness by counting (<= n-1 "
                   "exceptional challenges) for batch_verify, accumulate (also after collapse) and for EVERY tree of "
                   "scale/add_msm calls whose leaves sit under pairwise distinct numbers of scale calls (<= max depth "
                   "exceptional challenges: guard_tree_eval, guard_tree_sound_count), with the converse that a repeated "
                   "exponent lets opposite defects cancel at every challenge (seed C15-1); Guard::batch_verify, collapse "
                   "and from_dual_msm are exact (no exceptional value); the in-circuit accumulate equals the off-circuit "
                   "one; accumulate_with_r and from_dual_msm name by name for arbitrary key sets and repeated labels; "
                   "order/multiplicity; first-error semantics; totality of every entry point with the value returned "
                   "(accumulate of an empty slice, off- and in-circuit, is the neutral accumulator, which check accepts); "
                   "the batching challenge is squeezed after every member's complete transcript block, for every batch "
                   "size (global_schedule_r_after_all). The model is run against the real code on every check, and the "
                   "property's oracle (batch verdict == conjunction of individual verdicts, incl. adaptive attacks that "
                   "succeed iff the challenge ignores a member) is evaluated on real proofs for sizes 0..6",
    "trusted_base": [
        "blst pairing: e(L,[tau]_2)*e(R,-[1]_2)=1 is specified as tau*L=R (bilinear, non-degenerate); checked on "
        "every synthetic case against the known trapdoor and discrete logarithms",
        "multi-scalar multiplication (multi_exp/msm_best) is specified as the plain sum (property C12)",
        "the Poseidon sponge and Blake2b are uninterpreted functions: soundness is stated as a bound on the number "
        "of challenge values at which an invalid batch passes, not as a probability",
        "plonk::prepare is an input of the batching model (its result and its own transcript operations per member "
        "are observed on a stand-alone run, not modelled: C01/C03); inside batch_verify each member's operations "
        "are compared byte for byte with that stand-alone run",
        "in-circuit accumulation is tied on the VALUES of the cells (MockProver witness generation + satisfaction "
        "with the off-circuit result as instance, light curve back-end); the constraints of the native/Poseidon "
        "chips that force those values are other properties (C04, C07)",
    ],
    "level_text": "Kernel-checked Lean theorems about an executable model of the batching and accumulation layer (all batch "
                  "sizes, positions, orders, multiplicities, all shapes of scale/add_msm trees, all key sets of the "
                  "fixed-base maps, all field elements as challenges), with the model and the property's oracle checked "
                  "against the real off-circuit and in-circuit entry points on every run",
    "level_note": "Trusted: Lean kernel, the correspondence harness and driver; pairing, MSM and hash functions are specified, "
                  "not verified; 'accepts only all-valid batches' holds up to an explicit number of exceptional challenge "
                  "values per batch (n-1 for batch_verify and accumulate, the largest exponent for a general tree; 0 for "
                  "Guard::batch_verify, collapse, from_dual_msm) - the random-oracle step from 'few bad challenges' to "
                  "'negligible probability' is not formalised; that r is squeezed after every member's block is a theorem "
                  "about the model's schedule, tied to the code by the recorded order of hasher operations (kinds, byte "
                  "lengths, owner) on every sampled batch, not by a proof about the Rust control flow. Accumulator::accumulate / "
                  "AssignedAccumulator::accumulate of an empty slice (they panicked at accs[0]) were repaired in f706bff "
                  "and are regression cases of every run",
    "assumptions": [
        "the batching challenge r (Blake2b transcript) and the accumulation challenge (Poseidon sponge) behave as values "
        "the prover cannot steer into the exceptional set (roots of the combination polynomial)",
    ],
    "timeout": {"quick": 900, "thorough": 3000, "search": 900},
}
