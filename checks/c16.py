CHECK = {
    "lean_module": "MidnightZK.Props.C16",
    "harness": "h-c16",
    "translators": ["c16_consts"],
    "level": "proof",
    "technique": "Lean 4 theorems over executable byte-level decoder models; translator-regenerated constants/layouts; "
                 "mutation-sweep correspondence against the real decoders under catch_unwind and a counting allocator",
    "rule": "every request line is one (decoder, format, byte string) case; non-trivial = the implementation returned a "
            "decoded object or an error other than plain end-of-input; distinctness by hash of the request line "
            "(which contains the whole byte string)",
    "explanation": "Total decoders in Lean (scalars, G1/G2 compressed/uncompressed incl. blst's flag dispatch, ZkStdLibArch, "
                   "VerifyingKey/MidnightVK headers and commitment lists, verifier parameters, proof element schedule, ZKIR "
                   "bincode programs and arity check) with theorems on what they accept; every case of the sweep runs the real "
                   "Rust decoder (panic or super-linear allocation = violation) and the model must predict its verdict class "
                   "and decoded structure line by line; every key that decodes is used to verify a fixed valid proof; what a checked "
                   "decoder accepts is re-encoded and tested directly (canonical bytes, on the curve, [r]P = O for compressed points); "
                   "the bincode sweep runs in a child process so that an allocation abort is caught and attributed to its input",
    "trusted_base": [
        "blst (sqrt, on-curve and subgroup tests) is modelled by Nat arithmetic mod p and a double-and-add [r]P computation; "
        "agreement is checked on every point of the sweep, the group law itself belongs to C11",
        "bincode 2.0.1 and serde_json are third-party: bincode's standard encoding is modelled (varints, tags, limit accounting), "
        "serde_json is only exercised",
        "translators/c16_consts.py (python, parses the Rust sources) and the error-message to class mapping of the harness",
    ],
    "assumptions": [
        "never panics / never aborts for the Rust code is established on the swept inputs (all truncations, all 256 values of "
        "every header and length byte, seeded flips/splices/appends), not by proof",
        "the whole-vector hand-over of advice columns to the secp256k1/BLS12-381 foreign chips uses the column count of the "
        "matching max(..) entry of nb_advice_cols (both are the same generic functions of the circuits crate)",
    ],
    "level_text": "Kernel-checked Lean theorems about executable models of the byte decoders (canonical encodings only, valid "
                  "points only, commitment counts = constraint system, column slices in range for every architecture, memory "
                  "linear in input length), with the models checked against the real decoders on a dense mutation sweep on every run",
    "level_note": "Totality of the Rust code itself is by correspondence (catch_unwind + counting allocator over the sweep); "
                  "blst, bincode and serde_json are modelled or exercised, not verified",
    "timeout": {"quick": 900, "thorough": 3000, "search": 600},
}
