CHECK = {
    "lean_module": "MidnightZK.Props.C16",
    "harness": "h-c16",
    "translators": ["c16_consts"],
    "level": "proof",
    "technique": "Lean 4 theorems over executable byte-level decoder models and over a type-level model of ZKIR compilation "
                 "with unknown witnesses; translator-regenerated constants/layouts; mutation-sweep correspondence against the "
                 "real decoders and the real compile pass under catch_unwind, a counting allocator, and (for ZKIR / automaton "
                 "inputs) a child process with a live-memory cap and a per-case watchdog",
    "rule": "every request line is one (decoder, format, byte string) case, one ZKIR program (irc), one off-circuit guard "
            "evaluation (iroff) or one (degree, k) pair (vkdeg); non-trivial = the implementation returned a decoded object or "
            "an error other than plain end-of-input; distinctness by hash of the request line (which contains the whole byte "
            "string / program)",
    "explanation": "Total decoders in Lean (scalars, G1/G2 compressed/uncompressed incl. blst's flag dispatch, ZkStdLibArch, "
                   "VerifyingKey/MidnightVK headers and commitment lists, verifier parameters, proof element schedule, ZKIR "
                   "bincode programs and arity check) with theorems on what they accept; every case of the sweep runs the real "
                   "Rust decoder (panic or super-linear allocation = violation) and the model must predict its verdict class "
                   "and decoded structure line by line; every key that decodes is used to verify a fixed valid proof; what a checked "
                   "decoder accepts is re-encoded and tested directly (canonical bytes, on the curve, [r]P = O for compressed points); "
                   "the bincode sweep runs in a child process so that an allocation abort is caught and attributed to its input. "
                   "ZKIR programs are additionally driven through EVERY consumer a verifier/deployer runs on an untrusted program: "
                   "decode (read_relation / read), the layout pass with unknown witnesses (MidnightCircuit::new(.., Some(8)) + "
                   "dummy_synthesize_run: what keygen, min_k, the cost model and the dummy pass of public_inputs execute), the "
                   "off-circuit interpreter and public_inputs with a benign witness, and for programs that compile min_k, cost_model "
                   "and setup_vk — for every operation x every operand type x {loaded, constant} operands, immediates at and beyond "
                   "each limit (0, 1, 31, 32, 33, 64, 255, 2^16, 2^31, 2^32-1, 2^32, 2^32+1, 2^32+32, 2^32+33, 2^63, u64::MAX for "
                   "IntoBytes / ModExp; BigUint bit lengths and Bytes lengths likewise for Load / FromBytes), variadic arities, "
                   "names (duplicates, unknown, shadowed constants, malformed constants), all single-byte substitutions and u16/u32/u64 "
                   "widenings of every immediate of honest bincode programs (offsets derived by differential encoding with the crate's "
                   "writer), and textual substitutions in JSON programs. The outcome class of the layout pass (ok / unsupported / "
                   "notfound / dup / convert / notbytes) must equal the Lean compile model's; a panic, an abort, a timeout or a peak "
                   "above 2 GiB is a violation whose replay is the program bytes. The off-circuit guards (IrValue::into_bytes, "
                   "IrValue::from_bytes) are compared with their Lean mirrors separately, so that a guard present on one side only "
                   "shows up as a model/impl difference. VerifyingKey::read (public entry point, circuit with a degree parameter) and "
                   "read_from_cs are swept for constraint systems of degree 3..9 x every k byte: a key iff 2^k (degree-1) <= 2^S "
                   "(checked directly and against the model's extendedK). "
                   "LENGTH FIELDS swept with huge values (2^24, 2^31, 2^32-1, 2^32, 2^40, 2^63, u64::MAX as the width allows) at their exact "
                   "offsets, peak allocation bounded by 64*len + c0: MidnightVK arch.version (u32, offset 0), arch.nr_pow2range_cols (u8), "
                   "max_bit_len (u8), nb_public_inputs (u32), vk.version (u8), vk.k (u8), vk.num_fixed_columns (u32) — offsets derived "
                   "from the lengths ZkStdLibArch::write and VerifyingKey::write produce — each also +-1 around the honest value with "
                   "verification of the honest proof when the key decodes; ZKIR bincode: Vec<Instruction> length, Vec<String> lengths "
                   "of inputs/outputs, String lengths, type-size immediates — offsets by differential encoding; automaton serialization "
                   "(real Automaton::deserialize through its hook): final_states / transitions lengths and every 8-byte window of the "
                   "first 48 bytes. Permutation commitments, verifier parameters, proofs and the architecture flags have no length "
                   "field (counts come from the constraint system / schedule). ParamsKZG (2^k points of the k word) and MidnightPK "
                   "polynomial vectors are prover-local: exercised and reported only. "
                   "The ZKIR correspondence is deliberately tight on error CLASSES (a changed error variant fires); it does not "
                   "compare error messages, BigUint widths or values, so re-associations and renamings inside the gadgets do not fire.",
    "trusted_base": [
        "blst (sqrt, on-curve and subgroup tests) is modelled by Nat arithmetic mod p and a double-and-add [r]P computation; "
        "agreement is checked on every point of the sweep, the group law itself belongs to C11",
        "bincode 2.0.1 and serde_json are third-party: bincode's standard encoding is modelled (varints, tags, limit accounting), "
        "serde_json is only exercised",
        "the ZKIR constant parser (zkir/src/utils/constants.rs) is not modelled: the harness classifies every input name with the real "
        "IrValue::try_from(&str) and passes the class to the compile model; the gadgets below the ZKIR operations (C04-C07, C18) are "
        "exercised by the layout pass, not modelled here",
        "translators/c16_consts.py (python, parses the Rust sources) and the error-message to class mapping of the harness",
    ],
    "assumptions": [
        "never panics / never aborts for the Rust code is established on the swept inputs (all truncations, all 256 values of "
        "every header and length byte, seeded flips/splices/appends, the structured ZKIR program family above), not by proof",
        "the whole-vector hand-over of advice columns to the secp256k1/BLS12-381 foreign chips uses the column count of the "
        "matching max(..) entry of nb_advice_cols (both are the same generic functions of the circuits crate)",
        "consumers without an error type (MidnightCircuit::from_relation, min_k, cost_model, setup_vk unwrap the layout pass) are only "
        "required to succeed on programs the layout pass accepts: a deployer must run the total pass first",
        "known findings (findings/C16.json, status known; NOT repaired because the bound is a design decision): memory proportional to a size "
        "the program itself declares - IntoBytes(n) with a huge n on a BigUint, Load(Bytes(n)) / Load(BigUint(b)) with sizes no circuit can "
        "hold (allocation abort, capacity-overflow panic or timeout). Repaired and kept as regression cases: the u32-truncated guard of "
        "IntoBytes(n) on a Native (af7577a; compile_never_panics is now unconditional, the old guard survives as "
        "pinned_into_bytes_guard_truncated) and the unchecked pre-allocation of Automaton::deserialize (e0a0bca)",
    ],
    "level_text": "Kernel-checked Lean theorems about executable models of the byte decoders (canonical encodings only, valid "
                  "points only, commitment counts = constraint system, accepted k = extended domain exists for every degree, column "
                  "slices in range for every architecture, memory linear in input length) and of ZKIR compilation with unknown "
                  "witnesses (total, compositional, never the panic outcome for any immediate, IntoBytes/FromBytes/Load limits "
                  "equal to the off-circuit side, names bound once), with the models checked against the real decoders and the real "
                  "compile pass on a dense mutation / parameter sweep on every run",
    "level_note": "Totality of the Rust code itself is by correspondence (catch_unwind + counting allocator + child process with memory "
                  "cap and watchdog over the sweep); blst, bincode, serde_json and the ZKIR constant parser are modelled or exercised, "
                  "not verified; three program-declared-size allocation defects remain known findings (two further defects found by this check were repaired: af7577a, e0a0bca)",
    "timeout": {"quick": 900, "thorough": 3000, "search": 600},
}
