CHECK = {
    "lean_module": "MidnightZK.Props.C14",
    "harness": "h-c14",
    "translators": ["c14_consts"],
    "level": "proof",
    "rule": "one evaluation = one request line (a query grouping, a multi_open run, a multi_prepare run with its verdict, "
            "the intermediate scalars of a multi_prepare run); non-trivial when the query list has more than one query / "
            "always for prove, verify and vtrace; distinctness by hash of the request line",
    "explanation": "Lean theorems over the executable model of construct_intermediate_sets / multi_open / multi_prepare "
                   "(mirrored step by step: x1-fold of polynomials, commitments and evaluation sets, kate_division fold, "
                   "lagrange_interpolate, f_eval fold in x2, x4-fold, as_terms of chopped commitments, the deferred dual MSM): "
                   "grouping specification; Err(DuplicatedQuery) exactly on a repeated (reference, point) pair for "
                   "construct_intermediate_sets, multi_open and multi_prepare, identical evaluations or not (nothing is "
                   "deduplicated), references compared as references; completeness of the whole model for every query-set shape "
                   "with one-piece AND chopped commitment references (multiopen_complete_refs); the algebraic core of soundness "
                   "step by step with exact counts of exceptional challenges (a wrong claim survives the x1-fold for <= #polys-1 "
                   "values, then no polynomial f exists for all but <= #sets-1 values of x2, a wrong f is caught at x3 for all "
                   "but <= nMax-1+#points values, a wrong value at x4 for all but <= #sets values; pi_unique). "
                   "The model is tied to the real code by running both on the same query sets with a known setup secret: grouping "
                   "result (hook), every proof element, the verifier's deferred MSM term by term, the verdict, and - through an "
                   "add-only trace hook inside multi_prepare - powers_x1, q_eval_sets, every r_eval in fold order, f_eval and v, "
                   "for honest and corrupted inputs. The correspondence is deliberately tight on the ORDER of MSM terms and of "
                   "the f_eval fold: a re-ordering of terms that keeps the sum would be reported although it is benign.",
    "technique": "executable Lean model + kernel-checked theorems (Mathlib polynomials for the algebra, root counting for the "
                 "exceptional-challenge bounds); differential run against the real multi_open / multi_prepare with a toxic-waste "
                 "setup so that every group element is predicted through its discrete logarithm; add-only hooks for the grouping "
                 "and for the verifier's intermediate scalars; statement-level oracles (honest accepted, forgery rejected, "
                 "repeated pair refused with Err(DuplicatedQuery), no spurious duplicate error, no panic)",
    "trusted_base": [
        "blst group and pairing arithmetic (commit = MSM, final pairing check) is modelled on discrete logarithms: "
        "e(L,[s]_2) = e(R,[1]_2) iff s*log L = log R (non-degenerate pairing on a group of prime order)",
        "the Fiat-Shamir challenges x1..x4 are recorded from the real transcript and given to the model (hash not modelled)",
        "the trace hook (proofs/src/poly/kzg/verif_hooks.rs, feature verif-hooks) only copies values out of multi_prepare",
    ],
    "assumptions": [
        "binding of the commitment scheme (q-SDH / algebraic group model: the prover knows a polynomial behind f_com and pi) is "
        "not proved; the soundness theorems are the four algebraic steps with their exceptional-challenge counts, stated "
        "separately (their composition into one probability bound, and the random-oracle argument for x1..x4, are not formalised); "
        "the correspondence shows rejection on every corrupted input that was run",
    ],
    "level_text": "Kernel-checked Lean theorems about an executable model of the KZG multi-opening, mirrored step by step "
                  "(query grouping and duplicate refusal for all query lists; completeness for every query-set shape incl. "
                  "chopped commitments; soundness core with exact exceptional-challenge counts for x1, x2, x3, x4 over any "
                  "field), with the model checked against the real multi_open / multi_prepare on every run: proof elements, "
                  "deferred MSM term by term, verdicts and the verifier's intermediate scalars (q_eval_sets, r_evals, f_eval, v) "
                  "on exhaustive assignment patterns of <= 4 polynomials x <= 3 points, structured and random sets up to 12 x 5, "
                  "all single-element corruptions, repeated queries with identical / different evaluations on both sides",
    "level_note": "Trusted: Lean kernel, harness, driver and the observe-only hooks; pairing/group arithmetic modelled on "
                  "discrete logarithms; cryptographic binding (SDH/AGM) and the composition of the four soundness steps into "
                  "one bound assumed, not proved",
    "timeout": {"quick": 900, "thorough": 3000, "search": 900},
}
