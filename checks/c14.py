CHECK = {
    "lean_module": "MidnightZK.Props.C14",
    "harness": "h-c14",
    "translators": ["c14_consts"],
    "level": "proof",
    "rule": "one evaluation = one request line (a query grouping, a multi_open run, the intermediate polynomials of a "
            "multi_open run, a multi_prepare run with its verdict, the intermediate scalars of a multi_prepare run; runs "
            "inside an explicit rayon pool carry a trailing pool=<t> word that the model ignores); non-trivial when the "
            "query list has more than one query / always for prove, otrace, verify and vtrace; distinctness by hash of the "
            "request line",
    "explanation": "Lean theorems over the executable model of construct_intermediate_sets / multi_open / multi_prepare "
                   "(mirrored step by step: x1-fold of polynomials, commitments and evaluation sets, kate_division fold, "
                   "lagrange_interpolate, f_eval fold in x2, x4-fold, as_terms of chopped commitments, the deferred dual MSM): "
                   "grouping specification; Err(DuplicatedQuery) exactly on a repeated (reference, point) pair for "
                   "construct_intermediate_sets, multi_open and multi_prepare, identical evaluations or not (nothing is "
                   "deduplicated), references compared as references; completeness of the whole model for every query-set shape "
                   "with one-piece AND chopped commitment references (multiopen_complete_refs); the algebraic core of soundness "
                   "step by step with exact counts of exceptional challenges (a wrong claim survives the x1-fold for <= #polys-1 "
                   "values, then no polynomial f exists for all but <= #sets-1 values of x2, a wrong f is caught at x3 for all "
                   "but <= nMax-1+#points values, a wrong value at x4 for all but <= #sets values; pi_unique); "
                   "the four steps COMPOSED over the model's own folds (multiopen_sound_algebraic: one wrong claimed evaluation => "
                   "for x1, x2, x3, x4 outside explicit nested sets of those sizes, whatever polynomial f is behind f_com and "
                   "whatever q evaluations are in the proof, no polynomial w behind pi satisfies the verifier's final identity "
                   "(X-x3)w = P-v; quantifiers in protocol order; final_identity_complete for the honest side); the prover's "
                   "intermediate values against the verifier's, equality by equality, for every query-set shape "
                   "(multi_open_matches_verifier: q_polys on the point sets = folded claims, q_polys(x3) = proof evaluations, "
                   "f_poly(x3) = f_eval, final_poly(x3) = v on both sides, pi_poly = (final_poly-v)/(X-x3)); the deferred pairing check "
                   "of the model's dual MSM is that final identity evaluated at the secret s - for the very P and v of the composed "
                   "theorem: the folded commitments commit to the folded polynomials, the verifier's f_eval and v are fEvalOf / vOf "
                   "(composed_v_is_verifier_v, folded_commitments_commit_to_folded_polys, model_check_is_final_identity_at_s); "
                   "eval_polynomial as written (chunks of ceil(n/t) zipped with t slots) equals Horner for every pool size t >= 1 "
                   "(eval_polynomial_thread_independent, mirror evalPolyThreads compared with the real function inside pools of "
                   "1..16 threads on lengths 0..128, evalt lines). "
                   "The model is tied to the real code by running both on the same query sets with a known setup secret: grouping "
                   "result (hook), every proof element, the verifier's deferred MSM term by term, the verdict, and - through an "
                   "add-only trace hook inside multi_prepare - powers_x1, q_eval_sets, every r_eval in fold order, f_eval and v, "
                   "for honest and corrupted inputs; through an add-only trace hook inside multi_open (repo commit b11794c) the "
                   "prover's q_polys per set, f_poly, final_poly, v and pi_poly (length, lowest and highest coefficient, value at a "
                   "test point) against the model prover on every proved case. Thread-count independence: the honest open -> "
                   "verify round trip with prove / otrace / verify / vtrace lines is repeated inside explicit rayon pools "
                   "{1,2,3,5,6} (quick) / {1,2,3,5,6,7,12,16} (thorough, search) on polynomials of 4..128 coefficients and point "
                   "sets of 1,2,3,5 points, so that a chunking error of the parallel helpers (eval_polynomial) that only shows "
                   "when the pool size does not divide the length is an honest-rejected oracle failure (seed C14-3) and a difference on the evalt lines. The correspondence is deliberately tight on the ORDER of MSM terms and of "
                   "the f_eval fold: a re-ordering of terms that keeps the sum would be reported although it is benign; likewise the "
                   "otrace lines compare the LENGTH of the prover's intermediate coefficient vectors (padding to 2^k) and its "
                   "internal v, so a rewrite that changes only those (and not the proof) is reported as a model difference.",
    "technique": "executable Lean model + kernel-checked theorems (Mathlib polynomials for the algebra, root counting for the "
                 "exceptional-challenge bounds); differential run against the real multi_open / multi_prepare with a toxic-waste "
                 "setup so that every group element is predicted through its discrete logarithm; add-only hooks for the grouping "
                 "and for the verifier's intermediate scalars and the prover's intermediate polynomials; explicit rayon pools of "
                 "several sizes around the real prover and verifier; statement-level oracles (honest accepted, forgery rejected, "
                 "repeated pair refused with Err(DuplicatedQuery), no spurious duplicate error, no panic)",
    "trusted_base": [
        "blst group and pairing arithmetic (commit = MSM, final pairing check) is modelled on discrete logarithms: "
        "e(L,[s]_2) = e(R,[1]_2) iff s*log L = log R (non-degenerate pairing on a group of prime order)",
        "the Fiat-Shamir challenges x1..x4 are recorded from the real transcript and given to the model (hash not modelled)",
        "the trace hooks (proofs/src/poly/kzg/verif_hooks.rs, feature verif-hooks) only copy values out of multi_prepare and "
        "multi_open",
        "rayon::ThreadPool::install makes rayon::current_num_threads() the pool size for everything the closure calls",
    ],
    "assumptions": [
        "binding of the commitment scheme (q-SDH / algebraic group model: the prover knows a polynomial behind f_com and pi) is "
        "not proved: it is what lifts the pairing check at the secret s to the polynomial identity (X-x3)w = P-v of "
        "multiopen_sound_algebraic; the composed theorem gives explicit nested bad-challenge sets with their sizes, the "
        "probabilistic wrapping (union bound over |F|, random-oracle argument for x1..x4) is not formalised; "
        "the correspondence shows rejection on every corrupted input that was run",
    ],
    "level_text": "Kernel-checked Lean theorems about an executable model of the KZG multi-opening, mirrored step by step "
                  "(query grouping and duplicate refusal for all query lists; completeness for every query-set shape incl. "
                  "chopped commitments, with the prover's intermediate values equal to the verifier's one by one; soundness core "
                  "with exact exceptional-challenge counts for x1, x2, x3, x4 over any field, composed into one algebraic "
                  "statement with explicit nested bad-challenge sets), with the model checked against the real multi_open / "
                  "multi_prepare on every run: proof elements, the prover's intermediate polynomials (q_polys, f_poly, final_poly, "
                  "v, pi_poly), deferred MSM term by term, verdicts and the verifier's intermediate scalars (q_eval_sets, r_evals, "
                  "f_eval, v), also inside explicit rayon pools of 1,2,3,5,6(,7,12,16) threads, "
                  "on exhaustive assignment patterns of <= 4 polynomials x <= 3 points, structured and random sets up to 12 x 5, "
                  "all single-element corruptions, repeated queries with identical / different evaluations on both sides",
    "level_note": "Trusted: Lean kernel, harness, driver and the observe-only hooks; pairing/group arithmetic modelled on "
                  "discrete logarithms; cryptographic binding (SDH/AGM: commitments as polynomials) assumed and named, the "
                  "probability bound over the challenges (union bound, random oracle) not formalised",
    "timeout": {"quick": 900, "thorough": 3000, "search": 900},
}
