CHECK = {
    "lean_module": "MidnightZK.Props.C14",
    "harness": "h-c14",
    "translators": ["c14_consts"],
    "level": "proof",
    "rule": "one evaluation = one request line (a query grouping, a multi_open run, a multi_prepare run with its verdict); "
            "non-trivial when the query list has more than one query / always for prove and verify; "
            "distinctness by hash of the request line",
    "explanation": "Lean theorems over the executable model of construct_intermediate_sets / multi_open / multi_prepare "
                   "(grouping specification, duplicate refusal, completeness of the opening algebra as a polynomial identity at the "
                   "secret, non-divisibility for a wrong evaluation, uniqueness of the witness); the model is tied to the real code by "
                   "running both on the same query sets with a known setup secret: grouping result (hook), every proof element, the "
                   "verifier's deferred MSM term by term and the verdict, for honest and corrupted inputs",
    "trusted_base": [
        "blst group and pairing arithmetic (commit = MSM, final pairing check) is modelled on discrete logarithms: "
        "e(L,[s]_2) = e(R,[1]_2) iff s*log L = log R (non-degenerate pairing on a group of prime order)",
        "the Fiat-Shamir challenges x1..x4 are recorded from the real transcript and given to the model (hash not modelled)",
    ],
    "assumptions": [
        "binding of the commitment scheme (q-SDH) is not proved: the theorems give the algebraic core (a wrong evaluation makes the "
        "quotient non-polynomial; the witness polynomial is unique) and the correspondence shows rejection on every corrupted input",
    ],
    "level_text": "Kernel-checked Lean theorems about an executable model of the KZG multi-opening (query grouping for all query "
                  "lists; opening algebra over any field), with the model checked against the real multi_open / multi_prepare on "
                  "every run (exhaustive assignment patterns of <= 4 polynomials x <= 3 points, structured and random sets up to "
                  "12 x 5, all single-element corruptions)",
    "level_note": "Trusted: Lean kernel, harness and driver; pairing/group arithmetic modelled on discrete logarithms; "
                  "cryptographic binding (SDH) assumed, not proved",
    "timeout": {"quick": 900, "thorough": 3000, "search": 900},
}
