CHECK = {
    "lean_module": "MidnightZK.Props.C12",
    "harness": "h-c12",
    "translators": [],
    "level": "proof",
    "rule": "parallelize: every (len, threads) pair in the sweep, non-trivial when len > threads; "
            "distinctness by hash of the request line",
    "explanation": "Lean theorems over the executable model of MSM/FFT/domain algebra; model tied to the "
                   "implementation by running both on the same requests",
    "trusted_base": ["blst group arithmetic (bases/buckets) is modelled as an abstract group"],
    "level_text": "Kernel-checked Lean theorems about an executable model of the MSM/FFT/evaluation-domain algorithms (all lengths, all thread counts), with the model checked against the real entry points on every run",
    "level_note": "Trusted: Lean kernel, the correspondence harness and driver; blst group arithmetic and rayon's scheduler are modelled, not verified",
    "assumptions": ["rayon executes every spawned closure exactly once"],
}
