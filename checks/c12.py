CHECK = {
    "lean_module": "MidnightZK.Props.C12",
    "harness": "h-c12",
    "translators": ["c12_consts"],
    "level": "proof",
    "technique": "Lean 4 theorems over an executable model + translator-regenerated constants + line-by-line correspondence with the real entry points",
    "rule": "one evaluation = one request line answered by both the Rust entry point and the Lean model "
            "(MSM entry x length x scalar/base classes x thread pool; Booth digit rows; FFT size x pool x input class; "
            "eval_polynomial/kate_division/lagrange_interpolate per length; EvaluationDomain method per (j,k)); "
            "non-trivial = more than one term / size > 1; distinctness by hash of the request line",
    "explanation": "Lean theorems (all lengths, all thread counts, abstract commutative group / ring) over the executable "
                   "model of MSM/FFT/domain algebra; the model is tied to the implementation by running both on the same "
                   "requests and diffing, the field constants are re-parsed from the source on every run, and the harness "
                   "checks the property's oracle (naive sum / naive DFT / Horner / round trips) directly on the implementation",
    "trusted_base": [
        "blst group and field arithmetic (bases, buckets, multi_exp) is modelled as an abstract commutative group / as the naive sum and compared by correspondence only",
        "the driver's own affine BLS12-381/BN254 G1 arithmetic (Model/C12/Curve.lean) used to print [k]G; its constants are proved on-curve and of order r by kernel evaluation",
        "ff::Field::pow_vartime, batch_invert and invert are specified as power / inverse (0 stays 0)",
    ],
    "level_text": "Kernel-checked Lean theorems about an executable model of the MSM/FFT/evaluation-domain algorithms (all lengths, all thread counts), with the model checked against the real entry points on every run",
    "level_note": "Trusted: Lean kernel, the correspondence harness and driver; blst group arithmetic and rayon's scheduler are modelled, not verified. "
                  "l_i_range at a domain point is a recorded known finding (full-strength statement disproved in Lean, partial theorem off the nodes). "
                  "Bit-reversal swap loop = recursive permutation is kernel-checked only up to 2^7 (larger sizes by correspondence); "
                  "batch_add's affine chord/tangent formulas are modelled as the group law (their correctness belongs to C11).",
    "assumptions": [
        "rayon executes every spawned closure exactly once",
        "fewer than 2^32 bases (the code casts the length to u32)",
    ],
    "timeout": {"quick": 600, "thorough": 2400, "search": 600},
}
