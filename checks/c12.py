CHECK = {
    "lean_module": "MidnightZK.Props.C12",
    "harness": "h-c12",
    "translators": ["c12_consts"],
    "level": "proof",
    "technique": "Lean 4 theorems over an executable model + translator-regenerated constants + line-by-line correspondence with the real entry points (and, through verif-hooks, with the private get_booth_index, batch_add and Schedule of msm.rs)",
    "rule": "one evaluation = one request line answered by both the Rust entry point and the Lean model "
            "(MSM entry x length x scalar/base classes x thread pool; Booth digit rows; batch_add batch x operand classes "
            "{chord, doubling +/-, cancellation +/-, empty bucket, repeated bucket, vertical tangent} x batch size 0..64; "
            "Schedule decision traces x window size; FFT size x pool x input class; "
            "eval_polynomial/kate_division/lagrange_interpolate/compute_inner_product per length; EvaluationDomain method per (j,k)); "
            "non-trivial = more than one term / size > 1; distinctness by hash of the request line",
    "explanation": "Lean theorems (all lengths, all thread counts, abstract commutative group / ring / field) over the executable "
                   "model of MSM/FFT/domain algebra; the model is tied to the implementation by running both on the same "
                   "requests and diffing, the field constants are re-parsed from the source on every run, and the harness "
                   "checks the property's oracle (naive sum / naive DFT / Horner / round trips / the curve's own group law per "
                   "batch_add entry) directly on the implementation. Deliberately tight lines: `sched` compares the decision "
                   "trace of Schedule (diverted / pending count / flush at 64), so a behaviour-preserving change of "
                   "Schedule::contains (e.g. scanning only set[..ptr], which would let bucket 0 use the affine path) shows up as "
                   "a model/impl difference without a failing input; `batchadd-*-dup` / `-vertical` lines pin the code's behaviour "
                   "outside the schedule invariant (never reached from msm_best).",
    "trusted_base": [
        "blst group and field arithmetic (bases, buckets, multi_exp) is modelled as an abstract commutative group / as the naive sum and compared by correspondence only",
        "the driver's own affine BLS12-381/BN254 G1 arithmetic (Model/C12/Curve.lean) used to print [k]G; its constants are proved on-curve and of order r by kernel evaluation",
        "ff::Field::pow_vartime, batch_invert and invert are specified as power / inverse (0 stays 0 / invert(0) = None)",
        "that the affine chord/tangent point is the group sum (associativity etc.) is the group law of C11; here: shared-inversion algebra, case decision and closure on y^2 = x^3 + b",
    ],
    "level_text": "Kernel-checked Lean theorems about an executable model of the MSM/FFT/evaluation-domain algorithms (all lengths, all sizes, all thread counts, batch-affine path down to the coordinate formulas with the shared inversion), with the model checked against the real entry points and the private batch_add/Schedule on every run",
    "level_note": "Trusted: Lean kernel, the correspondence harness and driver; blst group arithmetic and rayon's scheduler are modelled, not verified. "
                  "l_i_range at a domain point is a recorded known finding (full-strength statement disproved in Lean, partial theorem off the nodes). "
                  "The bit-reversal swap loop = recursive permutation is now proved for every log_n (bitrev_swap_eq_rec), so best_fft_eq_dft, "
                  "coeff_to_lagrange/extended_spec and ifft_fft_id carry no size cap and no permutation hypothesis. "
                  "batch_add is modelled at coordinate level (two loops, one inversion, doubling / cancellation / empty-bucket branches, panics) and "
                  "proved to perform each entry's own chord/tangent step under the schedule invariant (schedule_invariant, batch_add_spec; hypothesis: no vertical tangent, "
                  "i.e. no point of order two, true for every CurveAffine of the crate; tangent slope 3x^2/2y assumes a = 0, also true for all of them); "
                  "the step from 'chord/tangent point' to 'group sum' is C11's. The abstract-group Schedule model and the coordinate-level batch_add model are tied to the code separately "
                  "(sched / batchadd lines), not to each other by a refinement theorem.",
    "assumptions": [
        "rayon executes every spawned closure exactly once",
        "fewer than 2^32 bases (the code casts the length to u32)",
        "every CurveAffine used with msm_best is a short Weierstrass curve with a = 0 and without points of order two (BLS12-381 G1/G2, BN254 G1/G2)",
    ],
    "timeout": {"quick": 600, "thorough": 2400, "search": 600},
}
