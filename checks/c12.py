CHECK = {
    "lean_module": "MidnightZK.Props.C12",
    "harness": "h-c12",
    "translators": ["c12_consts", "c12_parsites"],
    "level": "proof",
    "technique": "Lean 4 theorems over an executable model + translator-regenerated constants and parallel-site inventory + line-by-line correspondence with the real entry points (and, through verif-hooks, with the private get_booth_index, batch_add, Schedule and the traced driving loop of msm_best in msm.rs, and with powers / inner_product / evals_inner_product / distribute_powers_zeta of the proofs crate)",
    "rule": "one evaluation = one request line answered by both the Rust entry point and the Lean model "
            "(MSM entry x length x scalar/base classes x thread pool; Booth digit rows; batch_add batch x operand classes "
            "{chord, doubling +/-, cancellation +/-, empty bucket, repeated bucket, vertical tangent} x batch size 0..64; "
            "Schedule decision traces x window size; the real msm_best loop x window size (natural and forced) as result + per-window digest of the (digit, decision) trace; "
            "FFT size x pool x input class; eval_polynomial/kate_division/lagrange_interpolate/compute_inner_product per length; EvaluationDomain method per (j,k); "
            "every parallelize / chunked site of the inventory x pools {1,2,3,5,6,7,8,12,16} x lengths 0..70 and 2^k+-1 where the API admits the length "
            "(parallelize itself, eval_polynomial, distribute_powers_zeta, Polynomial +/-/*scalar, MSMKZG::scale; 2^k only: unsafe_setup g / g_lagrange, the domain conversions, g_to_lagrange, best_fft); "
            "powers / inner_product / evals_inner_product per length); "
            "non-trivial = more than one term / size > 1; distinctness by hash of the request line",
    "explanation": "Lean theorems (all lengths, all thread counts, abstract commutative group / ring / field) over the executable "
                   "model of MSM/FFT/domain algebra; the model is tied to the implementation by running both on the same "
                   "requests and diffing, the field constants are re-parsed from the source on every run, and the harness "
                   "checks the property's oracle (naive sum / naive DFT / Horner / round trips / the curve's own group law per "
                   "batch_add entry / the serial definition of every index-wise map) directly on the implementation. "
                   "Parallel sites: translators/c12_parsites.py lists every parallelize( / par_chunks / .chunks( / chunks_exact / par_iter / rayon::scope|join|spawn / "
                   "current_num_threads of arithmetic.rs, poly/domain.rs, poly/mod.rs, poly/kzg/*.rs, curves/src/{fft,msm}.rs as (file, fn, kind); "
                   "par_sites_all_reviewed compares the list with the reviewed one, so a NEW site (or one that moved / changed kind) breaks a theorem until it has a mirror; "
                   "the text of a site is deliberately not part of the key (rewording does not fire; the behaviour is tied by the lines under the nine pools, "
                   "whose Lean side chunks exactly as parallelize does for that pool and runs the worker closure as written: running index, start + i, running product from s^start, zip with rhs[start..]). "
                   "Deliberately tight lines: `sched` compares the decision "
                   "trace of Schedule (diverted / pending count / flush at 64) and `msmbestw` the per-coefficient decisions of the real msm_best loop (zero digit / identity base / Jacobian / scheduled), "
                   "so a behaviour-preserving change of "
                   "Schedule::contains (e.g. scanning only set[..ptr], which would let bucket 0 use the affine path) shows up as "
                   "a model/impl difference without a failing input; `batchadd-*-dup` / `-vertical` lines pin the code's behaviour "
                   "outside the schedule invariant (never reached from msm_best); `polyop ... addassign` with a shorter right-hand side pins the thread-DEPENDENT "
                   "behaviour of Polynomial + Polynomial of different lengths (value on few threads, panic on many; not reachable between polynomials of one domain).",
    "trusted_base": [
        "blst group and field arithmetic (bases, buckets, multi_exp) is modelled as an abstract commutative group / as the naive sum and compared by correspondence only",
        "the driver's own affine BLS12-381/BN254 G1 arithmetic (Model/C12/Curve.lean) used to print [k]G; its constants are proved on-curve and of order r by kernel evaluation",
        "ff::Field::pow_vartime, batch_invert and invert are specified as power / inverse (0 stays 0 / invert(0) = None)",
        "that the affine chord/tangent law is a group law (AffineLaw: finite points non-zero, (x,-y) the opposite, chord/tangent point = sum) is the single hypothesis of batch_add_refines_schedule; it is the classical group law (C11 proves the Rust formulas against the affine law, not associativity) and is not instantiated here",
        "rayon runs every spawned closure / every par_iter item exactly once (MSMKZG::scale and the par_iter maps of msm_best have no thread parameter in the model)",
        "MSM over G2 (BLS12-381 and BN254: coordinates in Fp2) is checked by the harness oracle only ([sum s_i b_i]G2 computed by the curve's own scalar multiplication); the driver has no Fp2 arithmetic",
    ],
    "level_text": "Kernel-checked Lean theorems about an executable model of the MSM/FFT/evaluation-domain algorithms (all lengths, all sizes, all thread counts; every parallelize/chunked site of the anchored files mirrored with its worker closure and proved thread-independent, the inventory regenerated from the sources; batch-affine path down to the coordinate formulas with the shared inversion and tied to the abstract-group schedule by a refinement theorem), with the model checked against the real entry points, the private batch_add/Schedule and the traced driving loop of msm_best on every run",
    "level_note": "Trusted: Lean kernel, the correspondence harness and driver; blst group arithmetic and rayon's scheduler are modelled, not verified. "
                  "l_i_range at a domain point is a recorded known finding (full-strength statement disproved in Lean, partial theorem off the nodes; l_i_rotation_periodic and l_i_closed_form_eq_basis_polynomial cover beyond-n / negative indices and tie the closed form to the Lagrange basis polynomial). "
                  "Thread independence: parallelize_partition + parallelize_indexed_indep / parallelize_map_indep (generic), and per site distribute_powers_zeta_par_indep, ifft_par_indep, domain_conversions_par_indep, "
                  "divide_by_vanishing_par_indep, g_to_lagrange_par_indep, poly_zip_par_indep (hypothesis: rhs at least as long as lhs — with a shorter rhs the CODE is thread-dependent, shown by an example and pinned by correspondence), "
                  "poly_scale_par_indep, setup_g_par_indep, setup_g_lagrange_par_indep (off the domain; = [l_i(s)]G), read_points_par_indep, msm_scale_spec, besides eval_chunked_eq_horner, msm_parallel_spec, best_fft_eq_dft of round 1; "
                  "par_sites_all_reviewed re-checks the inventory (32 sites). read_custom's parallel decode is tied by a write/read round trip under the nine pools (oracle), not line by line. "
                  "extended_to_coeff_spec / extended_to_lagrange_spec compose ifft_fft_id with the coset scaling (zeta^3 = 1) and the truncation; rotate_extended does not exist in the pinned tree and extended_to_coeff does not truncate there (extended_to_lagrange does). "
                  "powers_spec, inner_product_spec (field items), truncate_spec; truncate is NOT tied (feature truncated-challenges is off in the harness build); evals_inner_product_spec (equal lengths); inner_product over polynomial items is mirrored and compared line by line, without a theorem. "
                  "batch_add is modelled at coordinate level (two loops, one inversion, doubling / cancellation / empty-bucket branches, panics) and "
                  "proved to perform each entry's own chord/tangent step under the schedule invariant (schedule_invariant, batch_add_spec; hypothesis: no vertical tangent, "
                  "i.e. no point of order two, true for every CurveAffine of the crate; tangent slope 3x^2/2y assumes a = 0, also true for all of them); "
                  "batch_add_refines_schedule ties it to the abstract-group Schedule::execute of msm_best_spec under the single hypothesis AffineLaw (the curve's group law; not instantiated). "
                  "msm_best_windows_spec proves the window loop for every window size 1..24 and msm_best_eq_windows identifies msm_best with it above the threshold; the hook verif_trace records the real loop's per-coefficient decisions (natural window 10 and forced windows 3, 6, 9 in quick) and they are compared with windowBestTrace through a per-window digest. "
                  "The only CurveAffine types of the crate are BLS12-381 G1/G2 and BN254 G1/G2 (Jubjub and secp256k1 do not implement the trait and cannot reach msm_specific / msm_best); scalars >= r cannot reach the MSM through the field type (to_repr reduces): "
                  "unreduced Montgomery limbs built with from_raw_bytes_unchecked are exercised and agree with the reduced value.",
    "assumptions": [
        "rayon executes every spawned closure exactly once",
        "fewer than 2^32 bases (the code casts the length to u32)",
        "every CurveAffine used with msm_best is a short Weierstrass curve with a = 0 and without points of order two (BLS12-381 G1/G2, BN254 G1/G2)",
        "scalars handed to msm_best are below 2^NUM_BITS (hval of msm_best_spec; true for every value a field type can hold)",
    ],
    "timeout": {"quick": 600, "thorough": 2400, "search": 600},
}
