CHECK = {
    "lean_module": "MidnightZK.Props.C05",
    "harness": "h-c05",
    "translators": ["c05_params"],
    "level": "proof",
    "rule": "one line per compiled-in parameter set (constants, base powers, check_params, well-formed bounds, "
            "mul/norm bounds), per argument tuple of get_identity_auxiliary_bounds (random, near-gate, u_max "
            "thresholds), per random evaluation of the real mul/norm gate polynomials, per assigned mul/norm row, "
            "per field-chip program (5 emulated fields over the BLS12-381 scalar field): one `fp` line (limb values, "
            "tracked bounds, verdict) and one `fpt` line (foreign-level trace: every Foreign norm / Foreign "
            "multiplication region with the source of every copied-in limb and the bit length of every range check, "
            "every group of freshly assigned range-checked limbs, equality / public-input / decomposition events), "
            "and per BigUint program (widths 1..2048: `big` line, and `bigrc` line = bit length of the range check of "
            "every limb of every assign_biguint); distinctness by hash of the request line",
    "explanation": "Lean theorems over an executable model of the foreign-field emulation (auxiliary-bounds function, "
                   "CRT lift, mul/norm gate identities and witness generation, limb representation and bound "
                   "bookkeeping, every FieldChip operation on limb vectors) and of the BigUint limb arithmetic. The "
                   "model is tied to the code by parameter sets regenerated from params.rs (side conditions re-proved "
                   "by the kernel), by evaluating the REAL gate polynomials at random points against the model's "
                   "identities, and by running both on the same programs (limb values, tracked bounds, normalisation "
                   "decisions, rows of the gates, verdict, and the foreign-level trace). The trace is READ BACK from the "
                   "real synthesis: the programs run on the real NativeGadget/FieldChip with the real decomposition "
                   "chip behind a transparent logging wrapper (CoreDecompositionInstructions is a public trait), so "
                   "every assign_less_than_pow2 / assert_less_than_pow2 / decompose_fixed_limb_size call is seen with "
                   "the bit length really enforced and the cell concerned (behind the native gadget's cache of "
                   "constrained cells); a recording Assignment backend re-derives region placement and resolves "
                   "every copy constraint, so each limb copied into a mul/norm region is named by its creation site "
                   "(assign group, norm output, fixed cell). The Lean emitter (normEvent / mulEvent / freshLimbs in "
                   "Model/C05/Chip.lean) must print the same events; the end-to-end theorems "
                   "(norm/mul/normalize/add/sub/assert_equal/is_equal _sound_end_to_end) take exactly these emitted "
                   "bit lengths as hypotheses. A changed bound (u_max*2, u_max-1, one bit more or less on a limb), a "
                   "dropped range check, a skipped normalisation or a mis-wired operand changes an fpt line. Tight by "
                   "design: reordering regions inside one operation or replacing a native instruction by another "
                   "that creates cells differently does NOT fire (names are by creation site, `o` for native cells); "
                   "adding an extra normalisation does. The property's oracle is checked "
                   "directly through the real MockProver: honest witness accepted with the num-bigint result exposed "
                   "as public input, false assertions / wrong or non-canonical public inputs rejected, every tampered "
                   "cell of every mul/norm region rejected",
    "technique": "proof + translation of parameter sets + structural/value correspondence (incl. range-check bit "
                 "lengths and copy wiring read back from the real synthesis) + tamper sweep (H2)",
    "trusted_base": [
        "native gadget instructions used by the foreign chip and the BigUint gadget (range checks, linear "
        "combinations, is_equal, bit decompositions: property C04) are assumed at their interface",
        "moduli of secp256k1 and of the Curve25519 scalar field come from external crates; the generated constants "
        "are compared with what the running code reports on every run",
    ],
    "level_text": "Kernel-checked Lean theorems about an executable model of the foreign-field and BigUint gadgets "
                  "(all parameter sets on which configure succeeds, all limb/auxiliary assignments), with the model "
                  "checked against the real code on every run",
    "level_note": "Trusted: Lean kernel, the correspondence harness and driver; the native gadget (C04) at its "
                  "interface (assert_less_than_pow2(x, k) enforces x < 2^k; linear combinations and equality hold "
                  "in the native field). Soundness of mul / div / normalize / assert_equal / is_equal / is_zero is "
                  "now a theorem from the gate identities, the range checks with the bit lengths AS EMITTED (read "
                  "back from the real trace on every run) and the tracked limb bounds, for every assignment; lazy "
                  "add / sub: interval + value theorems (native cells named `o`: their wiring inside native regions "
                  "is C04's). BigUint: add / mul / sub (underflow => unsatisfiable) / div_rem end-to-end theorems over "
                  "the carry chain of the model; the range checks of assign_bounded are read back for every "
                  "assign_biguint (`bigrc` lines), those of normalize's carries and of internal assign_bounded calls "
                  "only through limb vectors, size bounds and verdicts; mod_exp: correspondence + reference values "
                  "only (no induction theorem yet). The bit/byte conversions' native decompositions are tied (D "
                  "events) but have no end-to-end theorem",
    "assumptions": [
        "assert_lower_than_fixed / assign_lower_than_fixed enforce their bound (C04)",
        "each emulated modulus is prime where the model inverts (division, inversion)",
    ],
    "timeout": {"quick": 1500, "thorough": 3400, "search": 900},
}
