CHECK = {
    "lean_module": "MidnightZK.Props.C05",
    "harness": "h-c05",
    "translators": [
        "c05_params",
    ],
    "level": "proof",
    "rule": (
        "one line per compiled-in parameter set (constants, base powers, check_params, well-formed bounds, "
        "mul/norm bounds), per argument tuple of get_identity_auxiliary_bounds (random, near-gate, u_max "
        "thresholds), per random evaluation of the real mul/norm gate polynomials, per assigned mul/norm row, "
        "per field-chip program (5 emulated fields over the BLS12-381 scalar field): one `fp` line (limb "
        "values, tracked bounds, verdict) and one `fpt` line (foreign-level trace: every Foreign norm / "
        "Foreign multiplication region with the source of every copied-in limb — creation-site names, and for "
        "cells computed by a native linear combination their DEFINING ROW `L(coef*source+...;constant)` — and "
        "the bit length of every range check, every group of freshly assigned range-checked limbs, equality / "
        "public-input / decomposition events), and per BigUint program (widths 1..2048, incl. "
        "width-asymmetric operand pairs 1|2, 2|3, 1|11 limbs in both orders through every binary operation): "
        "`big` line (limbs, size bounds, verdict) and `bigrc` line = for EVERY operation the calls of the "
        "real decomposition chip in order with the bit length enforced (assign_bounded of inputs and of the "
        "internal witnesses of sub / div_rem, quotient and remainder of every normalize step, comparisons of "
        "geq, bit/byte decompositions; a mod_exp is the concatenation over its square-and-multiply chain); "
        "distinctness by hash of the request line"
    ),
    "explanation": (
        "Lean theorems over an executable model of the foreign-field emulation (auxiliary-bounds function, "
        "CRT lift, mul/norm gate identities and witness generation, limb representation and bound "
        "bookkeeping, every FieldChip operation on limb vectors) and of the BigUint gadget (limb arithmetic, "
        "size-bound bookkeeping, carry chains, square-and-multiply). The model is tied to the code by "
        "parameter sets regenerated from params.rs (side conditions re-proved by the kernel), by evaluating "
        "the REAL gate polynomials at random points against the model's identities, and by running both on "
        "the same programs (limb values, tracked bounds, normalisation decisions, rows of the gates, verdict, "
        "and the traces). The traces are READ BACK from the real synthesis: the programs run on the real "
        "NativeGadget/FieldChip/BigUintGadget with the real decomposition chip behind a transparent logging "
        "wrapper (CoreDecompositionInstructions is a public trait), so every assign_less_than_pow2 / "
        "assert_less_than_pow2 / decompose_fixed_limb_size call is seen with the bit length really enforced "
        "and the cell concerned (behind the native gadget's cache of constrained cells); a recording "
        "Assignment backend re-derives region placement and resolves every copy constraint, so each limb "
        "copied into a mul/norm region is named by its creation site (assign group, norm output, fixed cell) "
        "or, when it is the result of a one-row native linear combination (every limb of the lazy add / sub / "
        "neg / mul_by_constant, assigned_field_from_limb, the tail of add_constants), by that row: "
        "coefficients (the fixed cells of the row, by annotation and call order), the name of the cell wired "
        "into every term slot, the constant — terms sorted, so re-ordering the terms of a combination does "
        "not fire, wiring a different cell or coefficient does. The Lean emitters (normEvent / mulEvent / "
        "freshLimbs / CellName.lc in Model/C05/Chip.lean; the BM monad of Model/C05/Big.lean: assignBounded, "
        "normRc, geq, the loop of modExp) must print the same events; the end-to-end theorems take exactly "
        "these emitted bit lengths as hypotheses: "
        "norm/mul/normalize/add/sub/assert_equal/is_equal/is_zero/to_le_bits for the field chip, and for "
        "BigUint the `*_from_constraints` theorems, which quantify over EVERY assignment of the carries / "
        "quotients / remainders (NormSat: range checks Big.normRc + native identities pin the honest chain; "
        "completeness: the honest chain passes them) and compose to add (any two limb counts), mul "
        "(accumulation fold with its tracked bounds: mul_accum_within_bounds), sub, div_rem, mod_mul and — by "
        "induction over the square-and-multiply loop for every exponent — mod_exp. The value-level mirror of "
        "the loop (modExpLoopVal) and the three formulations of the product accumulation are re-checked by "
        "the driver on every modexp / mul of the correspondence. A changed bound (u_max*2, u_max-1, one bit "
        "more or less on a limb, on a carry, on a comparison), a dropped range check, a skipped normalisation "
        "or a mis-wired operand changes an fpt / bigrc line. Tight by design: reordering regions inside one "
        "operation or replacing a native instruction by another that creates cells differently does NOT fire "
        "for cells named `o`, but DOES for cells named by their defining row (replacing linear_combination by "
        "add+add_constant in the lazy operations fires: deliberate, the row is what the theorems' value "
        "equations speak about); swapping the operands of a mod_mul does not fire; adding an extra "
        "normalisation does. The property's oracle is checked directly through the real MockProver: honest "
        "witness accepted with the num-bigint result exposed as public input, false assertions / wrong or "
        "non-canonical public inputs rejected, every tampered cell of every mul/norm region rejected"
    ),
    "technique": (
        "proof + translation of parameter sets + structural/value correspondence (incl. range-check bit "
        "lengths of every foreign-field and BigUint operation, copy wiring and defining rows of native linear "
        "combinations, read back from the real synthesis) + tamper sweep (H2)"
    ),
    "trusted_base": [
        (
            "native gadget instructions used by the foreign chip and the BigUint gadget (range checks, linear "
            "combinations, is_equal, bit decompositions: property C04) are assumed at their interface"
        ),
        (
            "moduli of secp256k1 and of the Curve25519 scalar field come from external crates; the generated "
            "constants are compared with what the running code reports on every run"
        ),
    ],
    "level_text": (
        "Kernel-checked Lean theorems about an executable model of the foreign-field and BigUint gadgets (all "
        "parameter sets on which configure succeeds, all limb/auxiliary assignments), with the model checked "
        "against the real code on every run"
    ),
    "level_note": (
        "Trusted: Lean kernel, the correspondence harness and driver; the native gadget (C04) at its "
        "interface (assert_less_than_pow2(x, k) enforces x < 2^k; linear combinations, products, equality and "
        "bit decompositions hold in the native field). Field chip: soundness of mul / div / normalize / "
        "assert_equal / is_equal / is_zero (now at chip level: the low-limbs/top-limb split is mechanised, "
        "hypotheses on the parameter set kernel-checked for every compiled-in set) is a theorem from the gate "
        "identities, the range checks with the bit lengths AS EMITTED and the tracked limb bounds, for every "
        "assignment; lazy add / sub: interval + value theorems, the wiring of their native rows is now "
        "compared structurally (cells computed by select / add_constants rows / multi-row combinations are "
        "still `o`). Bit conversions: for every assignment of the bit cells satisfying the native "
        "decompositions, the returned bits are the binary expansion of a representative of the residue (< "
        "2^#bits), of THE canonical one when enforce_canonical, and two representations of one residue give "
        "the same canonical bits (to_le_bits_sound_end_to_end / _respects_residue); bytes and chunks (built "
        "on the bits by native linear combinations) and assigned_from_le_* are covered by correspondence + "
        "reference values only. BigUint: add / mul / sub (underflow => unsatisfiable) / div_rem / mod_mul / "
        "mod_exp are theorems from the constraints for every assignment of carries and witnesses, with the "
        "range checks read back for every operation (`bigrc`); the native limb sums / products are taken as "
        "integers (no wrap: the tracked bound of every payload is < NUM_BITS, guard modelled), limb-wise "
        "equality after resize and the comparison fold (lower_than_sound) enter div_rem as value hypotheses "
        "(`s = x`, `r < y`); the constraint relations (NormSat, MulSat, DivRemSat, ModExpLoopSat) are "
        "hand-written mirrors of the emitter's control flow, tied through the events and values the emitter "
        "prints, not generated from it"
    ),
    "assumptions": [
        "assert_lower_than_fixed / assign_lower_than_fixed enforce their bound (C04)",
        "each emulated modulus is prime where the model inverts (division, inversion)",
    ],
    "timeout": {"quick": 1500, "thorough": 3400, "search": 900},
}
