CHECK = {
    "lean_module": "MidnightZK.Props.C05",
    "harness": "h-c05",
    "translators": ["c05_params"],
    "level": "proof",
    "rule": "one line per (parameter set | bounds-function argument tuple | gate row | field/BigUint program); "
            "distinctness by hash of the request line",
    "explanation": "Lean theorems over an executable model of the foreign-field emulation (auxiliary-bounds "
                   "function, CRT lift, mul/norm gate identities, limb bookkeeping) and of the BigUint limb "
                   "arithmetic; the model is tied to the code by generated parameter sets and by running both on the "
                   "same requests; the property's oracle (honest witness accepted with the reference result, tampered "
                   "witness rejected) is checked directly through the real MockProver",
    "trusted_base": ["range-check and native-gadget instructions used by the foreign chip (property C04) are assumed at their interface"],
    "level_text": "Kernel-checked Lean theorems about an executable model of the foreign-field and BigUint gadgets, with the model checked against the real code on every run",
    "level_note": "Trusted: Lean kernel, the correspondence harness and driver; native gadget (C04) assumed at its interface",
    "assumptions": ["native range checks (assert_lower_than_fixed / assign_lower_than_fixed) enforce their bound (C04)"],
    "timeout": {"quick": 900, "thorough": 3000, "search": 600},
}
