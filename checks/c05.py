CHECK = {
    "lean_module": "MidnightZK.Props.C05",
    "harness": "h-c05",
    "translators": ["c05_params"],
    "level": "proof",
    "rule": "one line per compiled-in parameter set (constants, base powers, check_params, well-formed bounds, "
            "mul/norm bounds), per argument tuple of get_identity_auxiliary_bounds (random, near-gate, u_max "
            "thresholds), per random evaluation of the real mul/norm gate polynomials, per assigned mul/norm row, "
            "per field-chip program (5 emulated fields over the BLS12-381 scalar field) and per BigUint program "
            "(widths 1..2048); distinctness by hash of the request line",
    "explanation": "Lean theorems over an executable model of the foreign-field emulation (auxiliary-bounds function, "
                   "CRT lift, mul/norm gate identities and witness generation, limb representation and bound "
                   "bookkeeping, every FieldChip operation on limb vectors) and of the BigUint limb arithmetic. The "
                   "model is tied to the code by parameter sets regenerated from params.rs (side conditions re-proved "
                   "by the kernel), by evaluating the REAL gate polynomials at random points against the model's "
                   "identities, and by running both on the same programs (limb values, tracked bounds, normalisation "
                   "decisions, rows of the gates, number of range checks, verdict). The property's oracle is checked "
                   "directly through the real MockProver: honest witness accepted with the num-bigint result exposed "
                   "as public input, false assertions / wrong or non-canonical public inputs rejected, every tampered "
                   "cell of every mul/norm region rejected",
    "technique": "proof + translation of parameter sets + structural/value correspondence + tamper sweep (H2)",
    "trusted_base": [
        "native gadget instructions used by the foreign chip and the BigUint gadget (range checks, linear "
        "combinations, is_equal, bit decompositions: property C04) are assumed at their interface",
        "moduli of secp256k1 and of the Curve25519 scalar field come from external crates; the generated constants "
        "are compared with what the running code reports on every run",
    ],
    "level_text": "Kernel-checked Lean theorems about an executable model of the foreign-field and BigUint gadgets "
                  "(all parameter sets on which configure succeeds, all limb/auxiliary assignments), with the model "
                  "checked against the real code on every run",
    "level_note": "Trusted: Lean kernel, the correspondence harness and driver; the native gadget (C04) at its "
                  "interface. Soundness of a whole operation = gate soundness theorem (all assignments) + range "
                  "checks present (counted per region by the correspondence, bounds not read back) + copy constraints "
                  "(tamper sweep); multi-cell forgeries that re-derive consistent range-check witnesses are covered "
                  "by the theorems only",
    "assumptions": [
        "assert_lower_than_fixed / assign_lower_than_fixed enforce their bound (C04)",
        "each emulated modulus is prime where the model inverts (division, inversion)",
    ],
    "timeout": {"quick": 1500, "thorough": 3400, "search": 900},
}
