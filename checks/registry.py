"""Per-property check configuration: one module `cXX.py` per property defining CHECK."""
import importlib
import os

CHECKS = {}
_here = os.path.dirname(os.path.abspath(__file__))
for _i in range(1, 21):
    _name = f"c{_i:02d}"
    if os.path.exists(os.path.join(_here, _name + ".py")):
        CHECKS[_name.upper()] = importlib.import_module(_name).CHECK
