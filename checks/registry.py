"""Per-property check configuration: one module `cXX.py` per property defining CHECK."""
import importlib
import os

CHECKS = {}
_here = os.path.dirname(os.path.abspath(__file__))
for _i in range(1, 21):
    _name = f"c{_i:02d}"
    if os.path.exists(os.path.join(_here, _name + ".py")):
        CHECKS[_name.upper()] = importlib.import_module(_name).CHECK

# Properties whose checks the lead has verified end to end (claimed in MANIFEST.json and built by
# bin/setup). Others may exist in CHECKS while still under construction.
_ready_path = os.path.join(_here, "ready.txt")
READY = [l.strip() for l in open(_ready_path)] if os.path.exists(_ready_path) else []
READY = [r for r in READY if r in CHECKS]
