CHECK = {
    "lean_module": "MidnightZK.Props.C20",
    "harness": "h-c20",
    "translators": [],
    "level": "proof",
    "technique": "Lean 4 theorems over executable models (inner-product argument over a commutative ring with the "
                 "group as a module; Fiat-Shamir schedule of the in-circuit verifier against the off-circuit "
                 "schedule model of C01; accumulator/MSM algebra), models tied to the code by structural "
                 "correspondence; property oracles on the real code (MockProver on the verifier circuit for both "
                 "self-emulation back-ends, LightAggregator round trips and corruptions)",
    "rule": "one evaluation = one request line answered by both the implementation and the Lean model "
            "(IPA schedules, proof elements, verifier MSM scalars, verdicts with recorded challenges; in-circuit "
            "transcript event log; accumulator operations); distinctness by hash of the request line. Oracle "
            "checks (honest accepted / altered rejected) are counted in the distribution table",
    "explanation": "IPA: prover rounds, verifier scalar construction and verdicts are recomputed by the model from "
                   "discrete logarithms and the recorded challenges for lengths 1..64 (1..1024 thorough), every proof "
                   "element / base / claim altered once. In-circuit verifier: the hooked transcript log of the real "
                   "synthesis equals gadgetSchedule (proved equal to the off-circuit verifierSchedule) on generated "
                   "inner circuits with/without lookups, trash arguments, 0-2 committed and 0-2 plain instance "
                   "columns, several k; MockProver accepts instance = encode(vk, public inputs, off-circuit "
                   "accumulator) and rejects altered ones, through the light and the foreign-curve back-end. "
                   "LightAggregator: 1, 2, 3 inner proofs, every section of the aggregated proof and every IPA "
                   "element corrupted, inner public inputs altered",
    "trusted_base": [
        "blst group arithmetic and msm_best (C11/C12) are modelled as an abstract module over the scalar field",
        "Poseidon / Blake2b / SHA-512 inside the transcripts are not modelled: challenges are parameters of the "
        "model, taken from the real run",
        "MockProver is the judge of satisfiability of the verifier circuits (C02 relates it to the real verifier)",
    ],
    "level_text": "Kernel-checked Lean theorems about executable models of the inner-product argument (all lengths "
                  "2^k, all challenges), of the in-circuit verifier's Fiat-Shamir schedule (all supported shapes) and "
                  "of the accumulator algebra, with the models checked against the real code on every run",
    "level_note": "partial: knowledge soundness of the IPA and of the aggregation argument (discrete log, random "
                  "oracle) is assumed; proved are completeness, the verifier-scalar formula, binding of every proof "
                  "element / claim at fixed challenges, schedule equality and the accumulator algebra. The arithmetic "
                  "the in-circuit verifier performs on evaluations (identities, Lagrange evaluations, multi-open "
                  "folding) is covered by the MockProver equality with the off-circuit accumulator only, not by a "
                  "Lean model",
    "assumptions": [
        "Fiat-Shamir challenges are free parameters of the model (random-oracle heuristic)",
        "discrete logarithm hardness in G1 (IPA binding beyond fixed challenges)",
    ],
    "timeout": {"quick": 1200, "thorough": 5400, "search": 1800},
}
