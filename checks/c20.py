CHECK = {
    "lean_module": "MidnightZK.Props.C20",
    "harness": "h-c20",
    "translators": ["c20_consts"],
    "level": "proof",
    "technique": "Lean 4 theorems over executable models (inner-product argument over a commutative ring with the "
                 "group as a module; Fiat-Shamir schedule of the in-circuit verifier against the off-circuit "
                 "schedule model of C01; the arithmetic of the in-circuit verifier on the evaluations — Lagrange "
                 "values, every identity, expected_h_eval — on canonical naturals mod p against the off-circuit "
                 "identity model of C02, compared through ZMod p; the in-circuit multi-opening and its accumulator as "
                 "formal linear combinations over base identifiers against C14's prepareGroups followed by "
                 "Accumulator::from_dual_msm, over any field; accumulator/MSM algebra), models tied to the code by "
                 "structural correspondence (hooked in-circuit value log, recorded transcripts, hooked off-circuit "
                 "identity log) and by generated constants; property oracles on the real code (MockProver on the "
                 "verifier circuit for both self-emulation back-ends, LightAggregator round trips and corruptions)",
    "rule": "one evaluation = one request line answered by both the implementation and the Lean model "
            "(IPA schedules, proof elements, verifier MSM scalars, verdicts with recorded challenges; in-circuit "
            "transcript event log; accumulator operations; gadget-verify: per MockProver run of a verifier circuit the "
            "instance evaluations, l_0/l_last/l_blind, every identity value in order, x^n, expected_h_eval, the "
            "x1-combined evaluation sets, f_eval, v and the accumulator term by term — base class, scalar, named "
            "fixed-base scalars — recomputed by the model from the recorded transcript scalars); distinctness by hash "
            "of the request line. Oracle checks (honest accepted / altered rejected / in-circuit values = off-circuit "
            "values) are counted in the distribution table. The gadget-verify correspondence is deliberately tight: "
            "it fixes the ORDER of the variable terms of the accumulator (the order is part of the public-input "
            "encoding), not the order of arithmetic operations inside the gadget (re-association does not change a "
            "line)",
    "explanation": "IPA: prover rounds, verifier scalar construction and verdicts are recomputed by the model from "
                   "discrete logarithms and the recorded challenges for lengths 1..64 (1..1024 thorough), every proof "
                   "element / base / claim altered once. In-circuit verifier: (a) the hooked transcript log of the real "
                   "synthesis equals gadgetSchedule (proved equal to the off-circuit verifierSchedule); (b) three-way "
                   "tie of the arithmetic on every honest inner proof and on corrupted inner proofs / public inputs: the "
                   "values logged inside verify_algebraic_constraints / vanishing::verify / kzg::multi_prepare during "
                   "the MockProver run (add-only hook) and the accumulator the gadget returns = the Lean model of the "
                   "gadget fed with the recorded transcript scalars (line by line) = the real off-circuit verifier "
                   "(hooked identity log of PartiallyEvaluated::verify, squeezed challenges, "
                   "Accumulator::from_dual_msm(prepare(..))), and the Lean off-circuit pipeline out of the C01/C02/C14 "
                   "models gives the same values (off=1); on generated inner circuits with/without lookups, trash "
                   "arguments, 0-2 committed and 0-2 plain instance columns (including no instance column at all and a "
                   "plain instance column without values: regression cases of a repaired panic), several k, through the "
                   "light and the foreign-curve back-end; (c) MockProver accepts instance = encode(vk, public inputs, off-circuit "
                   "accumulator) and rejects altered ones; every advice cell of the light verifier circuit sampled by "
                   "the tamper sweep is constrained. LightAggregator: 1, 2, 3 inner proofs, every section of the "
                   "aggregated proof and every IPA element corrupted, inner public inputs altered",
    "trusted_base": [
        "blst group arithmetic and msm_best (C11/C12) are modelled as an abstract module over the scalar field; "
        "group elements appear in the accumulator model only as base identifiers",
        "Poseidon / Blake2b / SHA-512 inside the transcripts are not modelled: challenges are parameters of the "
        "model, taken from the real run",
        "MockProver is the judge of satisfiability of the verifier circuits (C02 relates it to the real verifier); "
        "the chip operations (add_and_mul, linear_combination, mul, div, pow) are modelled by their documented value "
        "semantics (C04 proves the native chip's gates against them)",
        "the add-only hooks (circuits/src/verifier/verif_hooks.rs arith_log, transcript log) report the values of the "
        "assigned cells they are given",
        "the theorems about the multi-opening hold over every field; the driver runs the same generic definitions on "
        "naturals modulo the generated modulus (Zn p)",
    ],
    "level_text": "Kernel-checked Lean theorems about executable models of the inner-product argument (all lengths "
                  "2^k, all challenges; one-round special soundness, algebraic part), of the in-circuit verifier's "
                  "Fiat-Shamir schedule (all supported shapes), of the arithmetic it performs on the evaluations "
                  "(every identity value, Lagrange values, x^n and expected_h_eval equal to the off-circuit ones for "
                  "every constraint system and every transcript-scalar assignment), of its final multi-scalar "
                  "multiplication (equal, term by term and fixed-base name by name, to from_dual_msm of the off-circuit "
                  "term list for every grouping) and of the accumulator algebra, with the models checked against the "
                  "real code on every run",
    "level_note": "partial: knowledge soundness of the IPA and of the aggregation argument (discrete log, random "
                  "oracle) is assumed; proved are completeness, the verifier-scalar formula, binding of every proof "
                  "element / claim at fixed challenges, the un-folding of one round with the explicit extracted opening "
                  "(three accepted continuations), schedule equality, the accumulator algebra, "
                  "in_circuit_ids_eq_off_circuit (identity level: instance evaluations, Lagrange values, x^n, every "
                  "identity value, expected_h_eval; wherever the gadget does not panic — the instance block never does, "
                  "gadget_instance_evals_total, after the repair 17a2375 for inner circuits without instance queries or "
                  "with an empty plain instance column) and in_circuit_final_msm_eq_off_circuit (accumulator "
                  "level, given the same power vectors and v) with the operation-by-operation equalities of the scalar "
                  "side. Not mechanised, compared on every run only (gadget-verify lines, off=1): that "
                  "evaluate_interpolated_polynomial equals eval_polynomial of lagrange_interpolate; the assembly of the multi-opening pieces along "
                  "multi_prepare (f_eval fold, grouping with points compared as cells in-circuit and as values "
                  "off-circuit); the LightAggregator's order of accumulation and public-input layout (round trips and "
                  "corruptions only)",
    "assumptions": [
        "Fiat-Shamir challenges are free parameters of the model (random-oracle heuristic)",
        "discrete logarithm hardness in G1 (IPA binding beyond fixed challenges)",
    ],
    "timeout": {"quick": 1200, "thorough": 5400, "search": 1800},
}
