CHECK = {
    "lean_module": "MidnightZK.Props.C20",
    "harness": "h-c20",
    "translators": [],
    "level": "proof",
    "rule": "one evaluation = one request line answered by both the implementation and the Lean model; "
            "distinctness by hash of the request line",
    "explanation": "Lean theorems over executable models of the inner-product argument and of the in-circuit "
                   "verifier schedule; models tied to the implementation by running both on the same requests",
    "trusted_base": ["blst group arithmetic and msm_best (C11/C12) are modelled as an abstract module over the scalar field"],
    "level_text": "Kernel-checked Lean theorems about executable models (all vector lengths 2^k, all challenges), "
                  "with the models checked against the real entry points on every run",
    "level_note": "partial: knowledge soundness of the IPA / of the aggregation argument (DLOG, ROM) is assumed, "
                  "only the algebra is proved",
    "assumptions": ["Fiat-Shamir challenges are modelled as free parameters (random-oracle heuristic)"],
    "timeout": {"quick": 900, "thorough": 3600, "search": 900},
}
