#!/usr/bin/env python3
"""Translator for C07 (byte hashes): parse the constant tables of
  circuits/src/hash/sha256/sha256_chip.rs        ROUND_CONSTANTS [u32; 64], IV [u32; 8]
  circuits/src/hash/sha512/sha512_chip.rs        ROUND_CONSTANTS [u64; 80], IV [u64; 8]
  circuits/src/hash/ripemd160/ripemd160_chip.rs  K, K_PRIME, IV, R, R_PRIME, S, S_PRIME
  circuits/src/hash/sha256/utils.rs, sha512/utils.rs   LOOKUP_LENGTHS (spread-table tags)
and the limb-rotation exponent tables of the Σ/σ gates of the SHA-256 chip
and write lean/MidnightZK/Gen/C07Sha.lean.  Python 3 stdlib only.  Exits non-zero if the source no
longer parses."""
import os
import re
import sys

REPO = os.environ.get("VERIF_REPO", "/repo")
OUT = os.path.join(os.path.dirname(os.path.abspath(__file__)), "..", "lean", "MidnightZK", "Gen", "C07Sha.lean")
H = os.path.join(REPO, "circuits/src/hash")


def die(msg):
    print("c07_sha: " + msg, file=sys.stderr)
    sys.exit(1)


def strip_comments(src):
    src = re.sub(r"/\*.*?\*/", "", src, flags=re.S)
    return re.sub(r"//[^\n]*", "", src)


def ints(s):
    return [int(x.replace("_", ""), 0) for x in re.findall(r"0x[0-9a-fA-F_]+|\b\d[\d_]*\b", s)]


def array1(src, name, ty, n, what):
    m = re.search(r"const\s+" + name + r"\s*:\s*\[\s*" + ty + r"\s*;\s*" + str(n) + r"\s*\]\s*=\s*\[([^;]*?)\]\s*;", src, re.S)
    if not m:
        die(f"cannot find {what}")
    v = ints(m.group(1))
    if len(v) != n:
        die(f"{what}: {len(v)} entries, expected {n}")
    bits = int(ty[1:])
    if any(x >= 1 << bits for x in v):
        die(f"{what}: entry out of range")
    return v


def array2(src, name, ty, rows, cols, what):
    m = re.search(r"const\s+" + name + r"\s*:\s*\[\s*\[\s*" + ty + r"\s*;\s*" + str(cols) + r"\s*\]\s*;\s*" + str(rows) + r"\s*\]\s*=\s*\[(.*?)\]\s*;", src, re.S)
    if not m:
        die(f"cannot find {what}")
    rs = re.findall(r"\[([^\[\]]*)\]", m.group(1))
    out = [ints(r) for r in rs]
    if len(out) != rows or any(len(r) != cols for r in out):
        die(f"{what}: shape")
    return out


def gate_tables(src, gate_name, what):
    """Inside `meta.create_gate("<gate_name>", ...)`: the `expr_pow4_ip([e…], [&s…])` calls as
    (exponents, limb names)."""
    i = src.find(f'meta.create_gate("{gate_name}"')
    if i < 0:
        die(f"cannot find gate {what}")
    j = src.find("meta.create_gate(", i + 10)
    body = src[i:j if j > 0 else len(src)]
    calls = re.findall(r"let\s+(\w+)\s*=\s*expr_pow4_ip\(\s*\[([^\]]*)\]\s*,\s*\[([^\]]*)\]\s*,?\s*\)", body)
    res = []
    for name, exps, names in calls:
        e = ints(exps)
        ns = re.findall(r"&\s*(\w+)", names)
        if len(e) != len(ns) or not e:
            die(f"gate {what}: malformed expr_pow4_ip")
        res.append((name, e, ns))
    return res


def fmt_list(v, hexa=True):
    return "[" + ", ".join((f"0x{x:x}" if hexa else str(x)) for x in v) + "]"


def main():
    s256 = strip_comments(open(os.path.join(H, "sha256/sha256_chip.rs")).read())
    s512 = strip_comments(open(os.path.join(H, "sha512/sha512_chip.rs")).read())
    rmd = strip_comments(open(os.path.join(H, "ripemd160/ripemd160_chip.rs")).read())
    u256 = strip_comments(open(os.path.join(H, "sha256/utils.rs")).read())
    u512 = strip_comments(open(os.path.join(H, "sha512/utils.rs")).read())

    k256 = array1(s256, "ROUND_CONSTANTS", "u32", 64, "sha256 ROUND_CONSTANTS")
    iv256 = array1(s256, "IV", "u32", 8, "sha256 IV")
    k512 = array1(s512, "ROUND_CONSTANTS", "u64", 80, "sha512 ROUND_CONSTANTS")
    iv512 = array1(s512, "IV", "u64", 8, "sha512 IV")
    rk = array1(rmd, "K", "u32", 5, "ripemd K")
    rkp = array1(rmd, "K_PRIME", "u32", 5, "ripemd K_PRIME")
    riv = array1(rmd, "IV", "u32", 5, "ripemd IV")
    rr = array2(rmd, "R", "u8", 5, 16, "ripemd R")
    rrp = array2(rmd, "R_PRIME", "u8", 5, 16, "ripemd R_PRIME")
    rs = array2(rmd, "S", "u8", 5, 16, "ripemd S")
    rsp = array2(rmd, "S_PRIME", "u8", 5, 16, "ripemd S_PRIME")

    m = re.search(r"const\s+LOOKUP_LENGTHS\s*:\s*\[\s*u32\s*;\s*(\d+)\s*\]\s*=\s*\[([^\]]*)\]", u256)
    if not m:
        die("sha256 LOOKUP_LENGTHS")
    ll256 = ints(m.group(2))
    m = re.search(r"const\s+LOOKUP_LENGTHS\s*:\s*\[\s*u32\s*;\s*(\d+)\s*\]\s*=\s*\[([^\]]*)\]", u512)
    if not m:
        die("sha512 LOOKUP_LENGTHS")
    ll512 = ints(m.group(2))

    # Σ₀ / Σ₁ gates of the SHA-256 chip: rotations as inner products of spreaded limbs
    sig0 = gate_tables(s256, "Σ₀(A)", "Σ₀(A)")
    sig1 = gate_tables(s256, "Σ₁(E)", "Σ₁(E)")
    for nm, g in (("Σ₀", sig0), ("Σ₁", sig1)):
        names = [c[0] for c in g]
        if names[:3] != ["s_1st_rot", "s_2nd_rot", "s_3rd_rot"]:
            die(f"{nm}: unexpected gate layout {names}")
    # decomposition gates (limb order / sizes)
    dec_a = gate_tables(s256, "10-9-11-2 decomposition", "10-9-11-2")
    dec_e = gate_tables(s256, "7-12-2-5-6 decomposition", "7-12-2-5-6")
    if len(dec_a) != 1 or len(dec_e) != 1:
        die("decomposition gates: expected one expr_pow4_ip each")

    def limb_bits(name):
        mm = re.fullmatch(r"s(\d+)", name)
        if not mm:
            die(f"unexpected limb name {name}")
        return int(mm.group(1))

    def rot_table(calls):
        # [(exponents, limb sizes)] for the three rotations
        return [(c[1], [limb_bits(n) for n in c[2]]) for c in calls[:3]]

    out = []
    out.append("/-! GENERATED by translators/c07_sha.py from circuits/src/hash/{sha256,sha512,ripemd160} of the "
               "repository — do not edit. -/")
    out.append("namespace MidnightZK.C07.Gen")
    out.append("")
    out.append("/-- `sha256_chip.rs: ROUND_CONSTANTS`. -/")
    out.append("def sha256K : List Nat := " + fmt_list(k256))
    out.append("/-- `sha256_chip.rs: IV`. -/")
    out.append("def sha256IV : List Nat := " + fmt_list(iv256))
    out.append("/-- `sha512_chip.rs: ROUND_CONSTANTS`. -/")
    out.append("def sha512K : List Nat := " + fmt_list(k512))
    out.append("/-- `sha512_chip.rs: IV`. -/")
    out.append("def sha512IV : List Nat := " + fmt_list(iv512))
    out.append("/-- `ripemd160_chip.rs: K, K_PRIME, IV`. -/")
    out.append("def rmdK : List Nat := " + fmt_list(rk))
    out.append("def rmdKPrime : List Nat := " + fmt_list(rkp))
    out.append("def rmdIV : List Nat := " + fmt_list(riv))
    for nm, t in (("rmdR", rr), ("rmdRPrime", rrp), ("rmdS", rs), ("rmdSPrime", rsp)):
        out.append(f"def {nm} : List (List Nat) := [" + ", ".join(fmt_list(r, False) for r in t) + "]")
    out.append("/-- `sha256/utils.rs: LOOKUP_LENGTHS` (tags of the plain-spreaded table). -/")
    out.append("def sha256LookupLengths : List Nat := " + fmt_list(ll256, False))
    out.append("def sha512LookupLengths : List Nat := " + fmt_list(ll512, False))

    def emit_rot(name, doc, tab):
        out.append(f"/-- {doc}: for each of the three rotations, `(exponents, limb bit sizes)` of "
                   "`expr_pow4_ip(exponents, limbs)`. -/")
        out.append(f"def {name} : List (List Nat × List Nat) := [" +
                   ", ".join("(" + fmt_list(e, False) + ", " + fmt_list(b, False) + ")" for e, b in tab) + "]")

    emit_rot("sha256Sigma0Gate", "gate `Σ₀(A)` of `sha256_chip.rs`", rot_table(sig0))
    emit_rot("sha256Sigma1Gate", "gate `Σ₁(E)` of `sha256_chip.rs`", rot_table(sig1))
    out.append("/-- gate `10-9-11-2 decomposition`: `(exponents, limb bit sizes)` (big-endian limbs of A). -/")
    out.append("def sha256DecA : List Nat × List Nat := (" + fmt_list(dec_a[0][1], False) + ", " +
               fmt_list([limb_bits(n) for n in dec_a[0][2]], False) + ")")
    out.append("/-- gate `7-12-2-5-6 decomposition`: `(exponents, limb bit sizes)` (big-endian limbs of E). -/")
    out.append("def sha256DecE : List Nat × List Nat := (" + fmt_list(dec_e[0][1], False) + ", " +
               fmt_list([limb_bits(n) for n in dec_e[0][2]], False) + ")")
    out.append("")
    out.append("end MidnightZK.C07.Gen")
    text = "\n".join(out) + "\n"
    os.makedirs(os.path.dirname(OUT), exist_ok=True)
    old = open(OUT).read() if os.path.exists(OUT) else None
    if old != text:
        open(OUT, "w").write(text)
    print(f"c07_sha: wrote {os.path.normpath(OUT)}")


if __name__ == "__main__":
    main()
