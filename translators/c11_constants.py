#!/usr/bin/env python3
"""Translator of property C11: curve constants as written in the Rust sources.

Reads `$VERIF_REPO/curves/src/**` (default /repo) and writes
`../lean/MidnightZK/Gen/C11Constants.lean` (relative to this file). Python 3 stdlib only.
Exits non-zero when a constant can no longer be located/parsed.
"""
import os
import re
import sys

REPO = os.environ.get("VERIF_REPO", "/repo")
SRC = os.path.join(REPO, "curves", "src")
OUT = os.path.join(os.path.dirname(os.path.abspath(__file__)), "..", "lean", "MidnightZK", "Gen",
                   "C11Constants.lean")


def die(msg):
    sys.stderr.write("c11_constants: " + msg + "\n")
    sys.exit(1)


def read(rel):
    p = os.path.join(SRC, rel)
    try:
        return open(p).read()
    except OSError as e:
        die(f"cannot read {p}: {e}")


def ints(block):
    """Integer literals (hex or decimal, `_` separators) of a Rust array body."""
    return [int(t.replace("_", ""), 0) for t in re.findall(r"0x[0-9a-fA-F_]+|\b\d[\d_]*\b", block)]


def limbs_le(vals):
    return sum(v << (64 * i) for i, v in enumerate(vals))


def after(src, anchor, what):
    i = src.find(anchor)
    if i < 0:
        die(f"anchor not found for {what}: {anchor!r}")
    return src[i + len(anchor):]


def bracket(src, what):
    """Contents of the first [...] of `src`."""
    i = src.find("[")
    j = src.find("]", i)
    if i < 0 or j < 0:
        die(f"no array literal for {what}")
    return src[i + 1:j]


def limbs_after(src, anchor, n, what):
    v = ints(bracket(after(src, anchor, what), what))
    if len(v) != n:
        die(f"{what}: expected {n} limbs, got {len(v)}")
    return limbs_le(v)


def main():
    out = {}
    g1 = read("bls12_381/g1.rs")
    g2 = read("bls12_381/g2.rs")
    fp = read("bls12_381/fp.rs")
    jj = read("jubjub/curve.rs")
    ed = read("curve25519/curve.rs")
    bn = read("bn256/curve.rs")
    k2 = read("k256/curve.rs")

    def const_usize(src, name, what):
        m = re.search(r"const\s+" + name + r"\s*:\s*usize\s*=\s*(\d+)\s*;", src)
        if not m:
            die(f"{what}: const {name} not found")
        return int(m.group(1))

    out["g1CompressedSize"] = const_usize(g1, "COMPRESSED_SIZE", "g1.rs")
    out["g1UncompressedSize"] = const_usize(g1, "UNCOMPRESSED_SIZE", "g1.rs")
    out["g2CompressedSize"] = const_usize(g2, "COMPRESSED_SIZE", "g2.rs")
    out["g2UncompressedSize"] = const_usize(g2, "UNCOMPRESSED_SIZE", "g2.rs")
    out["g1BMont"] = limbs_after(g1, "pub const B: Fp = Fp(blst_fp", 6, "g1.rs B")
    t = after(g2, "const G2_B: Fp2 = Fp2(blst_fp2", "g2.rs G2_B")
    out["g2BMont0"] = limbs_after(t, "blst_fp {", 6, "g2.rs G2_B c0")
    t2 = after(t, "blst_fp {", "g2.rs G2_B c0")
    out["g2BMont1"] = limbs_after(t2, "blst_fp {", 6, "g2.rs G2_B c1")
    out["blsZetaMont"] = limbs_after(fp, "pub const ZETA_BASE: Fp = Fp(blst_fp", 6, "fp.rs ZETA_BASE")
    m = re.search(r'const MODULUS: &\'static str\s*=\s*"0x([0-9a-fA-F]+)"', fp)
    if not m:
        die("fp.rs MODULUS string not found")
    out["blsModulus"] = int(m.group(1), 16)
    if "NBITS: usize = 255" not in g1:
        die("g1.rs multiply: NBITS = 255 not found")
    out["g1MulBits"] = 255

    out["jjD"] = limbs_after(jj, "pub const EDWARDS_D: Base = Base::from_raw(", 4, "EDWARDS_D")
    out["jjD2"] = limbs_after(jj, "const EDWARDS_D2: Base = Base::from_raw(", 4, "EDWARDS_D2")
    b = ints(bracket(after(jj, "const FR_MODULUS_BYTES: [u8; 32] =", "FR_MODULUS_BYTES"), "FR_MODULUS_BYTES"))
    if len(b) != 32 or any(x > 255 for x in b):
        die("FR_MODULUS_BYTES: expected 32 bytes")
    out["jjFrModulus"] = sum(x << (8 * i) for i, x in enumerate(b))
    t = after(jj, "fn generator() -> Self {\n        // The point with the lowest positive v-coordinate", "jubjub generator")
    out["jjGenU"] = limbs_after(t, "u: Base::from_raw(", 4, "jubjub generator u")
    out["jjGenV"] = limbs_after(t, "v: Base::from_raw(", 4, "jubjub generator v")
    m = re.search(r"\.skip\((\d+)\)", after(jj, "fn multiply(&self, by: &[u8; 32]) -> JubjubExtended", "jubjub multiply"))
    if not m:
        die("jubjub multiply: skip(n) not found")
    out["jjMulSkippedBits"] = int(m.group(1))

    out["edA"] = limbs_after(ed, "pub const CURVE_A: Fp = Fp::from_raw(", 4, "CURVE_A")
    out["edD"] = limbs_after(ed, "pub const CURVE_D: Fp = Fp::from_raw(", 4, "CURVE_D")

    def fq_expr(src, anchor, what):
        t = after(src, anchor, what).lstrip()
        if t.startswith("Fq::ONE"):
            return 1
        if t.startswith("Fq::ZERO"):
            return 0
        if t.startswith("Fq::from_raw("):
            v = ints(bracket(t, what))
            if len(v) != 4:
                die(f"{what}: expected 4 limbs")
            return limbs_le(v)
        die(f"{what}: unsupported initialiser {t[:30]!r}")

    out["bnG1GenX"] = fq_expr(bn, "const G1_GENERATOR_X: Fq =", "G1_GENERATOR_X")
    out["bnG1GenY"] = fq_expr(bn, "const G1_GENERATOR_Y: Fq =", "G1_GENERATOR_Y")
    out["bnG1A"] = fq_expr(bn, "const G1_A: Fq =", "G1_A")
    out["bnG1B"] = fq_expr(bn, "const G1_B: Fq =", "G1_B")
    for name, key in [("G2_B", "bnG2B"), ("G2_GENERATOR_X", "bnG2GenX"), ("G2_GENERATOR_Y", "bnG2GenY"), ("G2_A", "bnG2A")]:
        t = after(bn, f"const {name}: Fq2 = Fq2 {{", name)
        out[key + "0"] = fq_expr(t, "c0:", name + ".c0")
        out[key + "1"] = fq_expr(t, "c1:", name + ".c1")
    t = after(bn, "fn is_torsion_free(&self) -> Choice {\n        // \"0x", "bn256 G2 is_torsion_free")
    e = ints(bracket(after(t, "let e: [u8; 32] =", "is_torsion_free e"), "is_torsion_free e"))
    if len(e) != 32:
        die("bn256 is_torsion_free: expected 32 bytes")
    out["bnTorsionOrder"] = int.from_bytes(bytes(e), "big")

    t = after(k2, "pub fn base_zeta() -> Fp {", "k256 base_zeta")
    z = ints(bracket(after(t, "const ZETA_BYTES: [u8; 32] =", "base ZETA_BYTES"), "base ZETA_BYTES"))
    out["k256BaseZeta"] = int.from_bytes(bytes(z), "big")
    t = after(k2, "pub fn scalar_zeta() -> Fq {", "k256 scalar_zeta")
    z = ints(bracket(after(t, "const ZETA_BYTES: [u8; 32] =", "scalar ZETA_BYTES"), "scalar ZETA_BYTES"))
    out["k256ScalarZeta"] = int.from_bytes(bytes(z), "big")

    lines = [
        "/-!",
        "GENERATED by `translators/c11_constants.py` from `curves/src/**` — do not edit.",
        "Curve constants exactly as the Rust sources spell them (Montgomery limbs where the source",
        "uses them). `Props/C11.lean` proves their defining equations and their agreement with the",
        "specification values of `Model/C11/Params.lean`.",
        "-/",
        "namespace MidnightZK.Gen.C11",
        "",
    ]
    for k in out:
        v = out[k]
        lines.append(f"def {k} : Nat := {hex(v) if v > 4096 else v}")
    lines += ["", "end MidnightZK.Gen.C11", ""]
    os.makedirs(os.path.dirname(OUT), exist_ok=True)
    with open(OUT, "w") as fh:
        fh.write("\n".join(lines))


if __name__ == "__main__":
    main()
