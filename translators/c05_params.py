#!/usr/bin/env python3
"""T-params for property C05: compiled-in foreign-field parameter sets.

Reads (never executes) /repo/circuits/src/field/foreign/params.rs and the modulus string
constants of /repo/curves/src/{bls12_381/fq.rs,bls12_381/fp.rs,curve25519/fp.rs} and writes
/verif/lean/MidnightZK/Gen/C05Params.lean: one `Params` value per
`impl FieldEmulationParams<F, K> for MultiEmulationParams` that is compiled without the
`dev-curves` feature (LOG2_BASE, NB_LIMBS, auxiliary moduli, RC_LIMB_SIZE, native and emulated
modulus). Also reads `LOG2_BASE` of circuits/src/biguint/types.rs.

The moduli of secp256k1 (external crate `k256`) and of the Curve25519 scalar field (external
crate `curve25519-dalek`) are not in /repo; they are written from the table below and, like every
other value of the generated file, compared on every run with what the running code reports
(`params` lines of the correspondence: `F::modulus()`, `K::modulus()`, `P::LOG2_BASE`, …).

Exit status != 0 when the source no longer has the shape this extractor understands (an impl
overriding `base_powers` / `double_base_powers` / `max_limb_bound`, a modulus expression of
another form, an unknown field type). Python 3 stdlib only.
"""
import os
import re
import sys

REPO = os.environ.get("VERIF_REPO", "/repo")
OUT = os.path.join(os.path.dirname(os.path.dirname(os.path.abspath(__file__))),
                   "lean", "MidnightZK", "Gen", "C05Params.lean")


class ParseError(Exception):
    pass


def read(rel):
    p = os.path.join(REPO, rel)
    if not os.path.exists(p):
        raise ParseError(f"missing source file {p}")
    return open(p).read()


def strip_comments(src):
    src = re.sub(r"/\*.*?\*/", "", src, flags=re.S)
    return re.sub(r"//[^\n]*", "", src)


def modulus_str(rel):
    src = read(rel)
    m = re.search(r"const\s+MODULUS\s*:\s*&'static\s+str\s*=\s*\"(0x[0-9a-fA-F]+)\"", src)
    if not m:
        raise ParseError(f"no MODULUS string constant in {rel}")
    return int(m.group(1), 16)


# External-crate moduli (cross-checked against the running code by the correspondence).
SECP256K1_P = 2**256 - 2**32 - 977
SECP256K1_N = 0xFFFFFFFFFFFFFFFFFFFFFFFFFFFFFFFEBAAEDCE6AF48A03BBFD25E8CD0364141
CURVE25519_L = 2**252 + 27742317777372353535851937790883648493


def field_table():
    bls_r = modulus_str("curves/src/bls12_381/fq.rs")
    bls_p = modulus_str("curves/src/bls12_381/fp.rs")
    c25519_p = modulus_str("curves/src/curve25519/fp.rs")
    return {
        "midnight_curves::Fq": ("blsScalar", bls_r),
        "bls12_381::Fq": ("blsScalar", bls_r),
        "midnight_curves::Fp": ("blsBase", bls_p),
        "bls12_381::Fp": ("blsBase", bls_p),
        "k256::Fp": ("secpBase", SECP256K1_P),
        "k256::Fq": ("secpScalar", SECP256K1_N),
        "midnight_curves::curve25519::Fp": ("c25519Base", c25519_p),
        "midnight_curves::curve25519::Scalar": ("c25519Scalar", CURVE25519_L),
    }


def parse_modulus_expr(e):
    e = re.sub(r"\s+", "", e)
    m = re.fullmatch(r"BigInt::from\(2\)\.pow\((\d+)\)(?:-BigInt::(?:one\(\)|from\((\d+)\)))?", e)
    if not m:
        raise ParseError(f"auxiliary modulus expression not understood: {e}")
    v = 2 ** int(m.group(1))
    if e.endswith("one()"):
        v -= 1
    elif m.group(2) is not None:
        v -= int(m.group(2))
    return v


def split_top(s):
    """split on commas at parenthesis depth 0"""
    out, depth, cur = [], 0, []
    for ch in s:
        if ch in "([":
            depth += 1
        elif ch in ")]":
            depth -= 1
        if ch == "," and depth == 0:
            out.append("".join(cur))
            cur = []
        else:
            cur.append(ch)
    if "".join(cur).strip():
        out.append("".join(cur))
    return [x for x in out if x.strip()]


def block_end(src, start):
    depth = 0
    for i in range(start, len(src)):
        if src[i] == "{":
            depth += 1
        elif src[i] == "}":
            depth -= 1
            if depth == 0:
                return i
    raise ParseError("unbalanced braces")


def parse_params():
    src = strip_comments(read("circuits/src/field/foreign/params.rs"))
    fields = field_table()
    # the trait defaults this model relies on
    if not re.search(r"two\.pow\(Self::LOG2_BASE \* i\)\.rem\(m\)", src):
        raise ParseError("default base_powers changed")
    if not re.search(r"two\.pow\(Self::LOG2_BASE \* \(i \+ j\)\)\.rem\(m\)", src):
        raise ParseError("default double_base_powers changed")
    if not re.search(r"fn max_limb_bound\(\) -> BI \{\s*BI::from\(2\)\.pow\(2 \* Self::LOG2_BASE\)\s*\}", src):
        raise ParseError("default max_limb_bound changed")
    sets, skipped = [], []
    for m in re.finditer(r"((?:#\[cfg\(feature = \"dev-curves\"\)\]\s*)?)impl\s+FieldEmulationParams<\s*([\w:]+)\s*,\s*([\w:]+)\s*>\s*for\s+MultiEmulationParams\s*\{", src):
        dev = bool(m.group(1))
        fty, kty = m.group(2), m.group(3)
        end = block_end(src, m.end() - 1)
        body = src[m.end():end]
        if dev:
            skipped.append(f"{fty},{kty}")
            continue
        for forbidden in ("fn base_powers", "fn double_base_powers", "fn max_limb_bound"):
            if forbidden in body:
                raise ParseError(f"impl <{fty},{kty}> overrides {forbidden}")

        def const(name):
            mm = re.search(r"const\s+" + name + r"\s*:\s*u32\s*=\s*(\d+)\s*;", body)
            if not mm:
                raise ParseError(f"impl <{fty},{kty}>: no const {name}")
            return int(mm.group(1))

        mm = re.search(r"fn\s+moduli\(\)\s*->\s*Vec<BigInt>\s*\{\s*vec!\[(.*?)\]\s*\}", body, flags=re.S)
        if not mm:
            raise ParseError(f"impl <{fty},{kty}>: moduli() not understood")
        moduli = [parse_modulus_expr(x) for x in split_top(mm.group(1))]
        if fty not in fields or kty not in fields:
            raise ParseError(f"unknown field type in impl <{fty},{kty}>")
        name = f"{fields[kty][0]}_over_{fields[fty][0]}"
        sets.append({
            "name": name, "p": fields[fty][1], "m": fields[kty][1],
            "log2": const("LOG2_BASE"), "n": const("NB_LIMBS"), "moduli": moduli,
            "rc": const("RC_LIMB_SIZE"), "src": f"FieldEmulationParams<{fty}, {kty}>",
        })
    if len(sets) < 5:
        raise ParseError(f"only {len(sets)} parameter sets found")
    names = [s["name"] for s in sets]
    if len(set(names)) != len(names):
        raise ParseError(f"duplicate parameter set names {names}")
    return sets, skipped


def parse_biguint():
    src = strip_comments(read("circuits/src/biguint/types.rs"))
    m = re.search(r"pub\(crate\)\s+const\s+LOG2_BASE\s*:\s*u32\s*=\s*(\d+)\s*;", src)
    if not m:
        raise ParseError("biguint LOG2_BASE not found")
    return int(m.group(1))


def render(sets, skipped, big_log2):
    o = []
    o.append("import MidnightZK.Model.C05.Bounds")
    o.append("/-! GENERATED by translators/c05_params.py from /repo/circuits/src/field/foreign/params.rs")
    o.append("and /repo/circuits/src/biguint/types.rs — do not edit.")
    o.append(f"Feature-gated (`dev-curves`) sets not rendered: {', '.join(skipped) if skipped else 'none'}. -/")
    o.append("namespace MidnightZK.C05.Gen")
    o.append("")
    o.append("/-- `biguint/types.rs: LOG2_BASE`. -/")
    o.append(f"def bigLog2Base : Nat := {big_log2}")
    o.append("")
    for s in sets:
        o.append(f"/-- `impl {s['src']} for MultiEmulationParams`. -/")
        o.append(f"def {s['name']} : Params :=")
        o.append(f"  {{ name := \"{s['name']}\"")
        o.append(f"    p := {hex(s['p'])}")
        o.append(f"    m := {hex(s['m'])}")
        o.append(f"    log2Base := {s['log2']}")
        o.append(f"    nbLimbs := {s['n']}")
        o.append(f"    moduli := [{', '.join(hex(x) for x in s['moduli'])}]")
        o.append(f"    rcLimbSize := {s['rc']} }}")
        o.append("")
    o.append("/-- Every parameter set compiled in without `dev-curves`, in source order. -/")
    o.append("def paramSets : List Params :=")
    o.append("  [" + ", ".join(s["name"] for s in sets) + "]")
    o.append("")
    o.append("end MidnightZK.C05.Gen")
    return "\n".join(o) + "\n"


def main():
    try:
        sets, skipped = parse_params()
        big = parse_biguint()
    except ParseError as e:
        print(f"c05_params: {e}", file=sys.stderr)
        return 1
    txt = render(sets, skipped, big)
    os.makedirs(os.path.dirname(OUT), exist_ok=True)
    old = open(OUT).read() if os.path.exists(OUT) else None
    if old != txt:
        open(OUT, "w").write(txt)
    print(f"c05_params: {len(sets)} parameter sets -> {OUT}")
    return 0


if __name__ == "__main__":
    sys.exit(main())
