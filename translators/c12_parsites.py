#!/usr/bin/env python3
"""Translator for C12: inventory of the parallel / chunked sites of the anchored sources.

Scans (test modules and `#[test]` functions excluded, comments stripped)
  proofs/src/utils/arithmetic.rs, proofs/src/poly/domain.rs, proofs/src/poly/mod.rs,
  every proofs/src/poly/kzg/*.rs, curves/src/fft.rs, curves/src/msm.rs
for the ways work is split over threads or chunks:
  `parallelize(`, `par_chunks`, `.chunks(`, `.chunks_mut(`, `chunks_exact`, `par_iter` (also
  `par_iter_mut`, `into_par_iter`), `par_bridge`, `rayon::scope`, `rayon::join`, `rayon::spawn`,
  `current_num_threads`
and writes `lean/MidnightZK/Gen/C12ParSites.lean`: one `(file, enclosing fn, kind)` triple per
occurrence, in source order. `par_sites_all_reviewed` (Props/C12.lean) compares the list with the
reviewed one, each entry of which names its Lean mirror and thread-independence theorem: a NEW
parallel site (or one that moved to another function / changed its kind) breaks that theorem.
The text of the line is deliberately NOT part of the key: rewording a reviewed site does not fire
(its behaviour is tied by the correspondence lines under the thread pools instead).
Python 3 stdlib only. Exits non-zero if a source no longer parses."""
import glob
import os
import re
import sys

REPO = os.environ.get("VERIF_REPO", "/repo")
OUT = os.path.normpath(os.path.join(os.path.dirname(os.path.abspath(__file__)), "..", "lean", "MidnightZK", "Gen", "C12ParSites.lean"))

FILES = ["proofs/src/utils/arithmetic.rs", "proofs/src/poly/domain.rs", "proofs/src/poly/mod.rs"]
KZG_DIR = "proofs/src/poly/kzg"
FILES_CURVES = ["curves/src/fft.rs", "curves/src/msm.rs"]

# order matters: the first pattern that matches at a position names the kind
KINDS = [
    ("parallelize", re.compile(r"\bparallelize\s*\(")),
    ("par_chunks", re.compile(r"\bpar_chunks(?:_mut|_exact|_exact_mut)?\s*\(")),
    ("chunks_exact", re.compile(r"\.chunks_exact(?:_mut)?\s*\(")),
    ("chunks", re.compile(r"\.r?chunks(?:_mut)?\s*\(")),
    ("par_iter", re.compile(r"\b(?:into_)?par_iter(?:_mut)?\s*\(")),
    ("par_bridge", re.compile(r"\bpar_bridge\s*\(")),
    ("rayon::scope", re.compile(r"\brayon::scope\s*\(")),
    ("rayon::join", re.compile(r"\brayon::join\s*\(")),
    ("rayon::spawn", re.compile(r"\brayon::spawn\s*\(")),
    ("current_num_threads", re.compile(r"\bcurrent_num_threads\s*\(")),
]


def die(msg):
    print("c12_parsites: " + msg, file=sys.stderr)
    sys.exit(1)


def strip_comments_and_strings(src):
    """Replace comments and string literals by spaces (newlines kept)."""
    out = []
    i, n = 0, len(src)
    depth = 0
    while i < n:
        if depth == 0 and src.startswith("//", i):
            while i < n and src[i] != "\n":
                i += 1
        elif src.startswith("/*", i):
            depth += 1
            i += 2
        elif depth and src.startswith("*/", i):
            depth -= 1
            i += 2
        elif depth:
            out.append("\n" if src[i] == "\n" else " ")
            i += 1
        elif src[i] == '"':
            out.append('"')
            i += 1
            while i < n and src[i] != '"':
                if src[i] == "\\":
                    i += 1
                out.append("\n" if i < n and src[i] == "\n" else " ")
                i += 1
            out.append('"')
            i += 1
        elif src.startswith("'{'", i) or src.startswith("'}'", i):
            out.append("' '")
            i += 3
        else:
            out.append(src[i])
            i += 1
    if depth:
        die("unterminated block comment")
    return "".join(out)


def sites_of(path, rel):
    src = strip_comments_and_strings(open(path).read())
    sites = []
    stack = []          # [(fn name or None, depth before the opening brace, skipped?)]
    depth = 0
    pending_fn = None   # a `fn NAME` whose body has not been opened yet
    pending_skip = False  # a `#[cfg(test)]` / `#[test]` attribute waits for its item
    paren = 0
    i, n = 0, len(src)
    fn_re = re.compile(r"\bfn\s+([A-Za-z_][A-Za-z0-9_]*)")
    attr_re = re.compile(r"#\[\s*(?:cfg\s*\(\s*test\s*\)|test)\s*\]")
    while i < n:
        m = attr_re.match(src, i)
        if m:
            pending_skip = True
            i = m.end()
            continue
        m = fn_re.match(src, i)
        if m and (i == 0 or not (src[i - 1].isalnum() or src[i - 1] == "_")):
            pending_fn = m.group(1)
            i = m.end()
            continue
        c = src[i]
        if c in "([":
            paren += 1
        elif c in ")]":
            paren -= 1
        elif c == "{":
            skipped = pending_skip or any(s[2] for s in stack)
            stack.append((pending_fn, depth, skipped))
            pending_fn = None
            pending_skip = False
            depth += 1
        elif c == "}":
            depth -= 1
            if not stack:
                die(f"{rel}: unbalanced braces")
            stack.pop()
        elif c == ";" and paren == 0:
            # an item without body (`use`, trait method declaration, `#[cfg(test)] use ...;`)
            pending_fn = None
            pending_skip = False
        else:
            if not any(s[2] for s in stack) and not pending_skip:
                for kind, rx in KINDS:
                    m = rx.match(src, i)
                    if m and (kind in ("chunks", "chunks_exact") or i == 0 or not (src[i - 1].isalnum() or src[i - 1] == "_")):
                        fn = next((s[0] for s in reversed(stack) if s[0]), None)
                        # nested helper fns (`evaluate`, `bitreverse`) report the outermost fn too
                        outer = next((s[0] for s in stack if s[0]), None)
                        name = fn if fn == outer or outer is None else f"{outer}::{fn}"
                        sites.append((rel, name or "<top>", kind))
                        i = m.end() - 1
                        break
        i += 1
    if depth != 0 or stack:
        die(f"{rel}: unbalanced braces at end of file")
    return sites


def main():
    rels = list(FILES)
    kzg = sorted(glob.glob(os.path.join(REPO, KZG_DIR, "*.rs")))
    if not kzg:
        die("no file under " + KZG_DIR)
    rels += [os.path.relpath(p, REPO) for p in kzg]
    rels += FILES_CURVES
    sites = []
    for rel in rels:
        p = os.path.join(REPO, rel)
        if not os.path.exists(p):
            die("missing " + rel)
        sites += sites_of(p, rel)
    if not any(s[1] == "parallelize" and s[2] == "current_num_threads" for s in sites):
        die("`parallelize` itself no longer reads rayon::current_num_threads(): the scanner is out of date")
    out = []
    out.append("/-! GENERATED by translators/c12_parsites.py from the anchored sources of the repository — do not edit.")
    out.append("One `(file, enclosing fn, kind)` per parallel / chunked site, in source order. -/")
    out.append("namespace MidnightZK.C12.Gen")
    out.append("")
    out.append("def parSites : List (String × String × String) := [")
    out.append(",\n".join(f'  ("{f}", "{fn}", "{k}")' for f, fn, k in sites))
    out.append("]")
    out.append("")
    out.append("end MidnightZK.C12.Gen")
    text = "\n".join(out) + "\n"
    os.makedirs(os.path.dirname(OUT), exist_ok=True)
    old = open(OUT).read() if os.path.exists(OUT) else None
    if old != text:
        open(OUT, "w").write(text)


if __name__ == "__main__":
    main()
