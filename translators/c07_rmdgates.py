#!/usr/bin/env python3
"""Translator of property C07 (RIPEMD-160 chip wiring): dumps the REAL gate polynomials and lookup
arguments of `RipeMD160Chip::configure` (through the harness binary `h-c07 --dump-rmd-gates`, which
calls it in-process on the repository's current tree), strips the selector factor, renames the
advice columns to the logical indices A0..A7 of `RipeMD160Config::advice_cols` (parsed from
ripemd160_chip.rs and cross-checked against the lookup arguments of the dump), the fixed columns to
the logical indices T0..T5 of `fixed_cols`, and renders everything as Lean terms of
`MidnightZK.C07.ChipR.Expr` in lean/MidnightZK/Gen/C07RmdGates.lean.
Exits non-zero if the dump cannot be produced or has an unexpected shape."""
import json
import os
import re
import subprocess
import sys

VERIF = os.path.dirname(os.path.dirname(os.path.abspath(__file__)))
REPO = os.environ.get("VERIF_REPO", "/repo")
HARNESS = os.path.join(VERIF, "harness")
OUT = os.path.join(VERIF, "lean", "MidnightZK", "Gen", "C07RmdGates.lean")
WORK = os.path.join(VERIF, "work", "C07")

SELS = ["d11", "sumEvn", "sumOdd", "rot", "add", "modadd"]
NPOLYS = {"d11": 1, "sumEvn": 1, "sumOdd": 1, "rot": 2, "add": 1, "modadd": 1}


def die(msg):
    print("c07_rmdgates: " + msg, file=sys.stderr)
    sys.exit(1)


def strip_sel(e):
    if e["t"] == "prod" and e["a"]["t"] == "sel":
        return e["a"]["i"], e["b"]
    if e["t"] == "prod" and e["b"]["t"] == "sel":
        return e["b"]["i"], e["a"]
    die("gate polynomial is not of the form selector * polynomial")


def main():
    os.makedirs(WORK, exist_ok=True)
    env = dict(os.environ, CARGO_NET_OFFLINE="true")
    p = subprocess.run(["cargo", "build", "--release", "--offline", "-j", "4", "-p", "h-c07"], cwd=HARNESS,
                       env=env, stdout=subprocess.PIPE, stderr=subprocess.STDOUT, text=True)
    if p.returncode != 0:
        sys.stderr.write(p.stdout[-3000:])
        die("harness build failed")
    dump = os.path.join(WORK, "rmdgates.json")
    if os.path.exists(dump):
        os.remove(dump)
    target = os.environ.get("CARGO_TARGET_DIR") or os.path.join(HARNESS, "target")
    exe = os.path.join(target, "release", "h-c07")
    if not os.path.exists(exe):
        exe = os.path.join(HARNESS, "target", "release", "h-c07")
    p = subprocess.run([exe, "--dump-rmd-gates", dump], cwd=VERIF, stdout=subprocess.PIPE,
                       stderr=subprocess.STDOUT, text=True)
    if p.returncode != 0 or not os.path.exists(dump):
        sys.stderr.write(p.stdout[-3000:])
        die("gate dump failed")
    d = json.load(open(dump))

    src = open(os.path.join(REPO, "circuits/src/hash/ripemd160/ripemd160_chip.rs")).read()
    m = re.search(r"let\s+advice_cols\s*=\s*\[([0-9,\s]*)\]\s*\.map\(\|i\|\s*shared_res\.0\[i\]\)", src)
    if not m:
        die("cannot find `let advice_cols = [..].map(|i| shared_res.0[i])` in ripemd160_chip.rs")
    adv_cols = [int(x) for x in m.group(1).replace(" ", "").split(",") if x]
    if sorted(adv_cols) != list(range(8)):
        die(f"advice_cols is not a permutation of 0..7: {adv_cols}")
    if not re.search(r"let\s+fixed_cols\s*=\s*shared_res\.1\s*;", src):
        die("cannot find `let fixed_cols = shared_res.1;`")
    m = re.search(r"pub const NB_RIPEMD160_FIXED_COLS: usize = (\d+);", src)
    if not m:
        die("cannot find NB_RIPEMD160_FIXED_COLS")
    nfixed = int(m.group(1))
    fixed_cols = list(range(nfixed))
    logical = {c: j for j, c in enumerate(adv_cols)}

    def render(e):
        t = e["t"]
        if t == "const":
            return f"(.const {int(e['v'], 16)})"
        if t == "adv":
            if e["c"] not in logical:
                die(f"gate queries advice column {e['c']} outside of the chip's columns")
            return f"(.adv {logical[e['c']]} ({e['r']}))"
        if t == "fixed":
            if e["c"] not in fixed_cols:
                die(f"gate queries fixed column {e['c']} outside of the chip's columns")
            return f"(.fix {fixed_cols.index(e['c'])} ({e['r']}))"
        if t == "neg":
            return f"(.neg {render(e['a'])})"
        if t == "sum":
            return f"(.sum {render(e['a'])} {render(e['b'])})"
        if t == "prod":
            return f"(.prod {render(e['a'])} {render(e['b'])})"
        if t == "scaled":
            return f"(.scaled {render(e['a'])} {int(e['v'], 16)})"
        die(f"unsupported expression node {t} in a gate of the RIPEMD-160 chip")

    gates = {}
    sel_of = {}
    for g in d["gates"]:
        short = g["short"]
        if short in gates:
            die(f"gate {g['name']} appears twice")
        polys = []
        sels = set()
        for poly in g["polys"]:
            s, inner = strip_sel(poly)
            sels.add(s)
            polys.append(render(inner))
        if len(sels) != 1:
            die(f"gate {g['name']} uses several selectors")
        if len(polys) != NPOLYS.get(short, -1):
            die(f"gate {g['name']} has {len(polys)} polynomials")
        sel_of[short] = sels.pop()
        gates[short] = (g["name"], polys)
    if sorted(gates) != sorted(SELS):
        die(f"unexpected gate set {sorted(gates)}")
    if len(set(sel_of.values())) != len(sel_of):
        die("two gates share a selector")

    looks = []
    if len(d["lookups"]) != 2:
        die(f"expected two plain-spreaded lookups, found {len(d['lookups'])}")
    qs = set()
    tables = set()
    for l in d["lookups"]:
        ins = l["inputs"]
        if len(ins) != 3:
            die("lookup does not have three inputs")
        cols = []
        for e in ins:
            s, inner = strip_sel(e)
            qs.add(s)
            cols.append(inner)
        if cols[0]["t"] != "fixed" or cols[0]["r"] != 0 or cols[1]["t"] != "adv" or cols[1]["r"] != 0 \
                or cols[2]["t"] != "adv" or cols[2]["r"] != 0:
            die("lookup inputs are not (q*fixed, q*advice, q*advice) at rotation 0")
        if cols[0]["c"] not in fixed_cols or cols[1]["c"] not in logical or cols[2]["c"] not in logical:
            die("lookup inputs use columns outside of the chip's columns")
        looks.append((fixed_cols.index(cols[0]["c"]), logical[cols[1]["c"]], logical[cols[2]["c"]]))
        tables.add(json.dumps(l["table"], sort_keys=True))
        if any(t["t"] != "fixed" or t["r"] != 0 for t in l["table"]):
            die("lookup table expressions are not plain table columns")
    if len(qs) != 1 or len(tables) != 1:
        die("the two lookups do not share selector and table")
    if qs.pop() in sel_of.values():
        die("q_lookup is also a gate selector")

    L = []
    L.append("import MidnightZK.Model.C07.RipemdChip")
    L.append("/-! GENERATED by translators/c07_rmdgates.py from the constraint system built by the REAL")
    L.append("`RipeMD160Chip::configure` of the repository (gate polynomials without their selector factor, advice")
    L.append("and fixed columns renamed to the logical indices of `RipeMD160Config::advice_cols` / `fixed_cols`).")
    L.append("Do not edit. -/")
    L.append("namespace MidnightZK.C07.Gen")
    L.append("open MidnightZK.C07.ChipR")
    L.append("")
    L.append("/-- `F::MODULUS` of the running code. -/")
    L.append(f"def rmdModulus : Nat := {int(d['modulus'], 16)}")
    L.append("/-- `RipeMD160Chip::configure`: `advice_cols = [..].map(|i| shared_res.0[i])` (logical index -> shared column). -/")
    L.append(f"def rmdAdvCols : List Nat := {adv_cols}")
    L.append("/-- `fixed_cols = shared_res.1` (`T0 … T5`). -/")
    L.append(f"def rmdFixedCols : List Nat := {fixed_cols}")
    L.append("/-- the two plain-spreaded lookups: (tag column index, logical plain column, logical spreaded column). -/")
    L.append("def rmdLookups : List (Nat × Nat × Nat) := [" + ", ".join(f"({a}, {b}, {c})" for a, b, c in looks) + "]")
    for short in SELS:
        name, polys = gates[short]
        L.append(f"/-- gate `{name}` -/")
        L.append(f"def rmdGate_{short} : List Expr := [")
        L.append("  " + ",\n  ".join(polys))
        L.append("]")
    L.append("/-- The polynomials each selector switches on. -/")
    L.append("def rmdGates : Sel → List Expr")
    L.append("  | .lookup => []")
    for short in SELS:
        L.append(f"  | .{short} => rmdGate_{short}")
    L.append("")
    L.append("end MidnightZK.C07.Gen")
    text = "\n".join(L) + "\n"
    os.makedirs(os.path.dirname(OUT), exist_ok=True)
    old = open(OUT).read() if os.path.exists(OUT) else None
    if old != text:
        open(OUT, "w").write(text)
    print(f"c07_rmdgates: wrote {os.path.normpath(OUT)}")
    return 0


if __name__ == "__main__":
    sys.exit(main())
