#!/usr/bin/env python3
"""Translator for C07 (Poseidon): parse
  circuits/src/hash/poseidon/constants/mod.rs      WIDTH, RATE, NB_FULL_ROUNDS, NB_PARTIAL_ROUNDS
  circuits/src/hash/poseidon/constants/blstrs.rs   ROUND_CONSTANTS, MDS (Fq::from_raw limbs)
  circuits/src/hash/poseidon/poseidon_cpu.rs       NB_SKIPS_CPU
  circuits/src/hash/poseidon/poseidon_chip.rs      NB_SKIPS_CIRCUIT
  curves/src/bls12_381/fq.rs                       MODULUS
and write lean/MidnightZK/Gen/C07Poseidon.lean.  Python 3 stdlib only.  Exits non-zero if the
source no longer parses."""
import os
import re
import sys

REPO = os.environ.get("VERIF_REPO", "/repo")
OUT = os.path.join(os.path.dirname(os.path.abspath(__file__)), "..", "lean", "MidnightZK", "Gen", "C07Poseidon.lean")
P = os.path.join(REPO, "circuits/src/hash/poseidon")


def die(msg):
    print("c07_poseidon: " + msg, file=sys.stderr)
    sys.exit(1)


def strip_comments(src):
    src = re.sub(r"/\*.*?\*/", "", src, flags=re.S)
    return re.sub(r"//[^\n]*", "", src)


def const_usize(src, name, what):
    m = re.search(r"const\s+" + name + r"\s*:\s*usize\s*=\s*(\d+)\s*;", src)
    if not m:
        die(f"cannot find {what}")
    return int(m.group(1))


def balanced(src, start):
    """Text of the bracketed block whose '[' is at src[start]."""
    assert src[start] == "["
    depth = 0
    for i in range(start, len(src)):
        if src[i] == "[":
            depth += 1
        elif src[i] == "]":
            depth -= 1
            if depth == 0:
                return src[start:i + 1]
    die("unbalanced brackets")


def table(src, name):
    m = re.search(r"const\s+" + name + r"\s*:[^=]*=\s*\[", src)
    if not m:
        die(f"cannot find {name}")
    blk = balanced(src, m.end() - 1)
    # rows = top-level '[' ... ']' groups inside blk; elements = from_raw([l0,l1,l2,l3])
    rows = []
    i = 1
    while i < len(blk) - 1:
        if blk[i] == "[":
            row = balanced(blk, i)
            elems = re.findall(r"from_raw\s*\(\s*\[([^\]]*)\]\s*\)", row)
            vals = []
            for e in elems:
                limbs = re.findall(r"0x[0-9a-fA-F_]+|\b\d[\d_]*\b", e)
                if len(limbs) != 4:
                    die(f"{name}: element with {len(limbs)} limbs")
                ls = [int(x.replace("_", ""), 0) for x in limbs]
                if any(l >= 1 << 64 for l in ls):
                    die(f"{name}: limb out of range")
                vals.append(sum(v << (64 * k) for k, v in enumerate(ls)))
            # every element of the row must be a from_raw literal
            if len(re.findall(r"from_raw", row)) != len(vals) or not vals:
                die(f"{name}: unparsed element")
            rest = re.sub(r"from_raw\s*\(\s*\[[^\]]*\]\s*\)", "", row)
            rest = re.sub(r"midnight_curves::Fq::|Fq::|Self::|[\[\],\s]", "", rest)
            if rest:
                die(f"{name}: unexpected tokens in row: {rest[:60]}")
            rows.append(vals)
            i += len(row)
        else:
            if blk[i] not in " \n\t,\r":
                die(f"{name}: unexpected token {blk[i]!r} between rows")
            i += 1
    return rows


def main():
    cmod = strip_comments(open(os.path.join(P, "constants/mod.rs")).read())
    bls = strip_comments(open(os.path.join(P, "constants/blstrs.rs")).read())
    cpu = strip_comments(open(os.path.join(P, "poseidon_cpu.rs")).read())
    chip = strip_comments(open(os.path.join(P, "poseidon_chip.rs")).read())
    fq = strip_comments(open(os.path.join(REPO, "curves/src/bls12_381/fq.rs")).read())

    width = const_usize(cmod, "WIDTH", "WIDTH")
    rate = const_usize(cmod, "RATE", "RATE")
    nb_full = const_usize(cmod, "NB_FULL_ROUNDS", "NB_FULL_ROUNDS")
    nb_partial = const_usize(cmod, "NB_PARTIAL_ROUNDS", "NB_PARTIAL_ROUNDS")
    skips_cpu = const_usize(cpu, "NB_SKIPS_CPU", "NB_SKIPS_CPU")
    skips_circuit = const_usize(chip, "NB_SKIPS_CIRCUIT", "NB_SKIPS_CIRCUIT")

    m = re.search(r"const MODULUS: \[u64; 4\] = \[([^\]]*)\]", fq)
    if not m:
        die("cannot find Fq MODULUS")
    limbs = [int(x.replace("_", ""), 16) for x in re.findall(r"0x[0-9a-fA-F_]+", m.group(1))]
    if len(limbs) != 4:
        die("Fq MODULUS limbs")
    p = sum(v << (64 * k) for k, v in enumerate(limbs))

    if not re.search(r"impl\s+PoseidonField\s+for\s+midnight_curves::Fq", bls):
        die("blstrs.rs no longer implements PoseidonField for midnight_curves::Fq")
    rc = table(bls, "ROUND_CONSTANTS")
    mds = table(bls, "MDS")
    if len(rc) != nb_full + nb_partial or any(len(r) != width for r in rc):
        die(f"ROUND_CONSTANTS shape {len(rc)} rows, expected {nb_full + nb_partial} x {width}")
    if len(mds) != width or any(len(r) != width for r in mds):
        die("MDS shape")

    # `Fq::from_raw` reduces modulo p (it multiplies by R^2 in Montgomery form); keep the raw
    # integers (the theorem `constants_canonical` states they are already < p).
    def fmt_rows(rows):
        return "[\n" + ",\n".join("  [" + ", ".join(f"0x{v:x}" for v in r) + "]" for r in rows) + "]"

    out = []
    out.append("/-! GENERATED by translators/c07_poseidon.py from circuits/src/hash/poseidon/"
               "{constants/mod.rs,constants/blstrs.rs,poseidon_cpu.rs,poseidon_chip.rs} and "
               "curves/src/bls12_381/fq.rs of the repository — do not edit. -/")
    out.append("namespace MidnightZK.C07.Gen")
    out.append("")
    out.append("/-- `Fq::MODULUS` (scalar field of BLS12-381, the native field of the circuits). -/")
    out.append(f"def p : Nat := 0x{p:x}")
    out.append("/-- `constants/mod.rs: WIDTH`. -/")
    out.append(f"def width : Nat := {width}")
    out.append("/-- `constants/mod.rs: RATE`. -/")
    out.append(f"def rate : Nat := {rate}")
    out.append("/-- `constants/mod.rs: NB_FULL_ROUNDS`. -/")
    out.append(f"def nbFull : Nat := {nb_full}")
    out.append("/-- `constants/mod.rs: NB_PARTIAL_ROUNDS`. -/")
    out.append(f"def nbPartial : Nat := {nb_partial}")
    out.append("/-- `poseidon_cpu.rs: NB_SKIPS_CPU`. -/")
    out.append(f"def nbSkipsCpu : Nat := {skips_cpu}")
    out.append("/-- `poseidon_chip.rs: NB_SKIPS_CIRCUIT`. -/")
    out.append(f"def nbSkipsCircuit : Nat := {skips_circuit}")
    out.append("/-- `blstrs.rs: ROUND_CONSTANTS` (integers written in `Fq::from_raw`, little-endian limbs recombined). -/")
    out.append("def roundConstants : List (List Nat) := " + fmt_rows(rc))
    out.append("/-- `blstrs.rs: MDS`. -/")
    out.append("def mds : List (List Nat) := " + fmt_rows(mds))
    out.append("")
    out.append("end MidnightZK.C07.Gen")
    text = "\n".join(out) + "\n"
    os.makedirs(os.path.dirname(OUT), exist_ok=True)
    old = open(OUT).read() if os.path.exists(OUT) else None
    if old != text:
        open(OUT, "w").write(text)
    print(f"c07_poseidon: wrote {os.path.normpath(OUT)} ({len(rc)} round-constant rows, {width}x{width} MDS)")


if __name__ == "__main__":
    main()
