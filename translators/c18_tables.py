#!/usr/bin/env python3
"""C18 translator: tables of the ZKIR crate parsed from the Rust sources.

Reads (from $VERIF_REPO, default /repo):
  zkir/src/instructions/operations/mod.rs   enum Operation (variant order = bincode index)
  zkir/src/types.rs                         enum IrType    (variant order = bincode index)
  zkir/src/instructions/arity.rs            input_arity / output_arity tables
  zkir/src/instructions/operations/{assert_equal,assert_not_equal,is_equal}.rs
                                            arms of `match (x, y)` of the in-circuit comparisons
  circuits/src/biguint/types.rs             LOG2_BASE
  curves/src/jubjub/curve.rs, fr.rs         EDWARDS_D, Jubjub group order
Writes lean/MidnightZK/Gen/C18Tables.lean (relative to this file). Exits non-zero when a source
no longer has the expected form.
"""
import os
import re
import sys

REPO = os.environ.get("VERIF_REPO", "/repo")
OUT = os.path.join(os.path.dirname(os.path.abspath(__file__)), "..", "lean", "MidnightZK", "Gen", "C18Tables.lean")


def die(msg):
    print("c18_tables: " + msg, file=sys.stderr)
    sys.exit(1)


def read(rel):
    p = os.path.join(REPO, rel)
    if not os.path.exists(p):
        die("missing " + p)
    return open(p).read()


def strip_comments(src):
    src = re.sub(r"/\*.*?\*/", "", src, flags=re.S)
    return "\n".join(l.split("//")[0] for l in src.split("\n"))


def enum_variants(src, name):
    m = re.search(r"pub enum " + name + r"\s*\{(.*?)\n\}", src, flags=re.S)
    if not m:
        die("enum %s not found" % name)
    body = strip_comments(m.group(1))
    out = []
    for part in body.split(","):
        part = part.strip()
        if not part:
            continue
        mm = re.match(r"^(?:#\[[^\]]*\]\s*)*([A-Z][A-Za-z0-9]*)\s*(?:\((.*)\))?$", part, flags=re.S)
        if not mm:
            die("cannot parse variant %r of %s" % (part, name))
        out.append((mm.group(1), (mm.group(2) or "").strip()))
    return out


def arity_table(src, fn):
    m = re.search(r"fn " + fn + r"\(&self\) -> Arity \{(.*?)\n    \}", src, flags=re.S)
    if not m:
        die("fn %s not found" % fn)
    body = strip_comments(m.group(1))
    mm = re.search(r"match self \{(.*)\}", body, flags=re.S)
    if not mm:
        die("match in %s not found" % fn)
    rows = []
    for line in mm.group(1).split("\n"):
        line = line.strip().rstrip(",")
        if not line:
            continue
        a = re.match(r"^([A-Z][A-Za-z0-9]*)(?:\(_\))?\s*=>\s*(Fixed\((\d+)\)|Some|SomeEven)$", line)
        if not a:
            die("cannot parse arity row %r in %s" % (line, fn))
        ar = a.group(2)
        rows.append((a.group(1), "fixed %s" % a.group(3) if ar.startswith("Fixed") else ("some" if ar == "Some" else "someEven")))
    return rows


def limbs_const(src, name):
    m = re.search(name + r"[^=]*=\s*[A-Za-z:]*(?:from_raw)?\(?\[(.*?)\]", src, flags=re.S)
    if not m:
        die("constant %s not found" % name)
    limbs = [int(x.replace("_", ""), 16) for x in re.findall(r"0x[0-9a-fA-F_]+", m.group(1))]
    if len(limbs) != 4:
        die("constant %s: expected 4 limbs" % name)
    return sum(l << (64 * i) for i, l in enumerate(limbs))


ops = enum_variants(read("zkir/src/instructions/operations/mod.rs"), "Operation")
tys = enum_variants(read("zkir/src/types.rs"), "IrType")
ar = read("zkir/src/instructions/arity.rs")
ina, outa = arity_table(ar, "input_arity"), arity_table(ar, "output_arity")
m = re.search(r"const LOG2_BASE: u32 = (\d+);", read("circuits/src/biguint/types.rs"))
if not m:
    die("LOG2_BASE not found")
log2_base = int(m.group(1))
edd = limbs_const(read("curves/src/jubjub/curve.rs"), r"pub const EDWARDS_D: Base")
rj = limbs_const(read("curves/src/jubjub/fr.rs"), r"const MODULUS_LIMBS: \[u64; NUM_LIMBS\]")


def lean_list(items):
    return "[" + ", ".join(items) + "]"


def dispatch_table(rel, variants):
    """Arms of `match instruction.operation { .. }` in `process_instruction`: for each variant the
    per-operation functions it calls and the `inps[..]` index expressions it passes, in order
    (`*` = the whole input vector)."""
    src = strip_comments(read(rel))
    m = re.search(r"match instruction\.operation \{\n(.*?)\n        \};", src, flags=re.S)
    if not m:
        die("%s: match instruction.operation not found" % rel)
    body = m.group(1)
    heads = list(re.finditer(r"^ {12}([A-Z][A-Za-z0-9]*)(?:\((\w+)\))? => ", body, flags=re.M))
    if [h.group(1) for h in heads] != [v[0] for v in variants]:
        die("%s: the arms of process_instruction are not the variants of Operation in order" % rel)
    rows = []
    for k, h in enumerate(heads):
        arm = body[h.end(): heads[k + 1].start() if k + 1 < len(heads) else len(body)]
        calls = re.findall(r"\b([a-z0-9_]+_(?:offcircuit|incircuit)|into_bytes|from_bytes|get_t|get_type)\(", arm)
        args = re.findall(r"inps\[([^\]]*)\]", arm)
        args = [re.sub(r"\s+", "", a) for a in args]
        if re.search(r"&inps\)|inps\.into_iter\(\)|inps\.iter\(\)", arm):
            args.append("*")
        if h.group(2):
            args.append("payload:" + ("yes" if re.search(r"\b" + h.group(2) + r"\b", arm) else "unused"))
        cmp_ = re.findall(r"inps\[0\] (==|!=) inps\[1\]", arm)
        rows.append((h.group(1), calls + ["cmp" + c for c in cmp_[:1]], args))
    return rows


def op_sources():
    """Non-test `fn`s declared at item / impl level in each file of instructions/operations/."""
    d = os.path.join(REPO, "zkir/src/instructions/operations")
    out = []
    for f in sorted(os.listdir(d)):
        if not f.endswith(".rs") or f == "mod.rs":
            continue
        src = strip_comments(open(os.path.join(d, f)).read())
        src = src.split("#[cfg(test)]")[0]
        fns = re.findall(r"^(?:    )?(?:pub(?:\(crate\))? )?fn ([a-z0-9_]+)", src, flags=re.M)
        out.append((f[:-3], fns))
    return out


def comparison_arms(rel, fn):
    """Arms of the `match (x, y)` of one in-circuit comparison: per arm, the two variant names (with
    `if` when guarded) and the gadget methods called on `std_lib` (with the sub-gadget chain), in
    order; `is_equal_incircuit` when the arm delegates to it; `iter.<adaptor>` for the iterator
    adaptors that select which components are compared."""
    src = strip_comments(read(rel))
    m = re.search(r"pub fn %s\b" % fn, src)
    if not m:
        die("%s: fn %s not found" % (rel, fn))
    body = src[m.end():]
    t = re.search(r"\n#\[cfg\(test\)\]", body)
    if t:
        body = body[: t.start()]
    mm = re.search(r"match \(x, y\) \{", body)
    if not mm:
        die("%s: `match (x, y)` not found in %s" % (rel, fn))
    body = body[mm.end():]
    arm_re = re.compile(r"\(\s*(\w+)\([^)]*\),\s*(\w+)\([^)]*\)\s*\)\s*(if\b(?:[^=]|==)*?)?=>")
    starts = list(arm_re.finditer(body))
    if not starts:
        die("%s: no arms in %s" % (rel, fn))
    end_all = re.search(r"\n\s*_ =>", body)
    if not end_all:
        die("%s: no default arm in %s" % (rel, fn))
    out = []
    for i, a in enumerate(starts):
        if a.start() > end_all.start():
            break
        stop = starts[i + 1].start() if i + 1 < len(starts) and starts[i + 1].start() < end_all.start() else end_all.start()
        text = body[a.end():stop]
        calls = []
        for c in re.finditer(r"std_lib((?:\s*\.\w+\(\))*)\s*\.(\w+)\(|\b(is_equal_incircuit)\(|\.(zip|skip|take|step_by|rev|filter|chunks|windows|skip_while|take_while)\(", text):
            if c.group(4):
                calls.append("iter." + c.group(4))
            elif c.group(3):
                calls.append("is_equal_incircuit")
            else:
                chain = re.sub(r"[\s()]", "", c.group(1) or "").strip(".")
                calls.append((chain + "." if chain else "") + c.group(2))
        name = "%s,%s%s" % (a.group(1), a.group(2), " if" if a.group(3) else "")
        out.append((name, calls))
    return out


cmp_arms = [(f, comparison_arms("zkir/src/instructions/operations/%s.rs" % f, f + "_incircuit"))
            for f in ("assert_equal", "assert_not_equal", "is_equal")]

lines = [
    "/-! GENERATED by translators/c18_tables.py from the Rust sources of /repo — do not edit. -/",
    "namespace MidnightZK.C18.Gen",
    "",
    "/-- `enum Operation`: variant names with their payload type, in declaration order. -/",
    "def operations : List (String × String) := " + lean_list('("%s", "%s")' % v for v in ops),
    "",
    "/-- `enum IrType`: variant names with their payload type, in declaration order. -/",
    "def irTypes : List (String × String) := " + lean_list('("%s", "%s")' % v for v in tys),
    "",
    "/-- `Operation::input_arity`. -/",
    "def inputArity : List (String × String) := " + lean_list('("%s", "%s")' % v for v in ina),
    "",
    "/-- `Operation::output_arity`. -/",
    "def outputArity : List (String × String) := " + lean_list('("%s", "%s")' % v for v in outa),
    "",
    "/-- `parser/offcircuit.rs: process_instruction`: per variant, the per-operation functions called",
    "(`cmp==` / `cmp!=`: a direct comparison of the two inputs) and the input expressions passed, in",
    "order (`*` = the whole vector, `payload:` whether the variant's payload is used). -/",
    "def offDispatch : List (String × List String × List String) := "
    + lean_list('("%s", %s, %s)' % (n, lean_list('"%s"' % c for c in cs), lean_list('"%s"' % a for a in as_)) for n, cs, as_ in dispatch_table("zkir/src/parser/offcircuit.rs", ops)),
    "",
    "/-- `parser/incircuit.rs: process_instruction`, same format. -/",
    "def inDispatch : List (String × List String × List String) := "
    + lean_list('("%s", %s, %s)' % (n, lean_list('"%s"' % c for c in cs), lean_list('"%s"' % a for a in as_)) for n, cs, as_ in dispatch_table("zkir/src/parser/incircuit.rs", ops)),
    "",
    "/-- Files of `zkir/src/instructions/operations/` (without `mod.rs`) and the functions they declare",
    "outside their test modules. -/",
    "def opSources : List (String × List String) := "
    + lean_list('("%s", %s)' % (n, lean_list('"%s"' % c for c in fs)) for n, fs in op_sources()),
    "",
    "/-- Arms of `match (x, y)` in `assert_equal_incircuit`, `assert_not_equal_incircuit` and",
    "`is_equal_incircuit`: the operand variants (`if` = guarded arm) and the gadget methods called on",
    "`std_lib`, in order. -/",
    "def cmpArms : List (String × List (String × List String)) := "
    + lean_list('("%s", %s)' % (f, lean_list('("%s", %s)' % (n, lean_list('"%s"' % c for c in cs)) for n, cs in arms)) for f, arms in cmp_arms),
    "",
    "/-- `biguint/types.rs: LOG2_BASE`. -/",
    "def log2Base : Nat := %d" % log2_base,
    "",
    "/-- `jubjub/curve.rs: EDWARDS_D`. -/",
    "def edwardsD : Nat := 0x%x" % edd,
    "",
    "/-- `jubjub/fr.rs: MODULUS_LIMBS`. -/",
    "def jubjubOrder : Nat := 0x%x" % rj,
    "",
    "end MidnightZK.C18.Gen",
    "",
]
os.makedirs(os.path.dirname(OUT), exist_ok=True)
open(OUT, "w").write("\n".join(lines))
