#!/usr/bin/env python3
"""Translator for C20: what the model of the in-circuit verifier's arithmetic reads from the
sources, written to `lean/MidnightZK/Gen/C20Consts.lean`:

* the constants of the BLS12-381 scalar field (`curves/src/bls12_381/fq.rs`: MODULUS, S,
  ROOT_OF_UNITY, DELTA; Montgomery limbs converted to canonical integers) — `ROOT_OF_UNITY`
  determines `omega` (Lagrange evaluations, rotated evaluation points), `DELTA` the column labels
  of the permutation product rule;
* the naming scheme of the fixed bases of an accumulator (`circuits/src/verifier/mod.rs`:
  `fixed_commitment_name`, `perm_commitment_name`; the `"-G"` key used by
  `circuits/src/verifier/kzg.rs: multi_prepare`, `accumulator.rs: from_dual_msm` and
  `mod.rs: fixed_bases / fixed_base_names`);
* which evaluation points `verifier_gadget.rs: get_point` supports (the rotations `-1, 0, 1`).

Python 3 stdlib only. Exits non-zero if a source no longer parses."""
import os
import re
import sys

REPO = os.environ.get("VERIF_REPO", "/repo")
OUT = os.path.normpath(os.path.join(os.path.dirname(os.path.abspath(__file__)), "..", "lean",
                                    "MidnightZK", "Gen", "C20Consts.lean"))


def die(msg):
    print("c20_consts: " + msg, file=sys.stderr)
    sys.exit(1)


def limbs_after(src, pattern, n, what):
    m = re.search(pattern, src)
    if not m:
        die(f"cannot find {what}")
    tail = src[m.end():m.end() + 600]
    end = tail.find(";")
    lits = re.findall(r"0x[0-9a-fA-F_]+", tail[: end if end >= 0 else len(tail)])
    if len(lits) < n:
        die(f"{what}: expected {n} limbs, found {len(lits)}")
    return [int(x.replace("_", ""), 16) for x in lits[:n]]


def from_limbs(l):
    return sum(v << (64 * i) for i, v in enumerate(l))


def name_format(src, fn):
    """`fn <fn>(prefix: &str, i: usize) -> String { format!("{prefix}<infix>{i}") }` -> infix."""
    m = re.search(r"fn " + fn + r"\(prefix: &str, i: usize\) -> String \{\s*format!\(\"\{prefix\}([^{}\"]*)\{i\}\"\)\s*\}", src)
    if not m:
        die(f"cannot parse {fn}")
    return m.group(1)


def lean_str(s):
    if '"' in s or "\\" in s:
        die(f"unexpected character in {s!r}")
    return '"' + s + '"'


def main():
    fq = open(os.path.join(REPO, "curves/src/bls12_381/fq.rs")).read()
    r = from_limbs(limbs_after(fq, r"const MODULUS: \[u64; 4\] = \[", 4, "Fq MODULUS"))
    m = re.search(r"pub const S: u32 = (\d+);", fq)
    if not m:
        die("cannot find S")
    s = int(m.group(1))
    if r % 2 == 0:
        die("even modulus")
    rinv = pow(1 << 256, -1, r)
    root_m = from_limbs(limbs_after(fq, r"const ROOT_OF_UNITY: Fq = Fq\(blst_fr \{", 4, "ROOT_OF_UNITY"))
    delta_m = from_limbs(limbs_after(fq, r"const DELTA: Fq = Fq\(blst_fr \{", 4, "DELTA"))
    if root_m >= r or delta_m >= r:
        die("Montgomery limbs not reduced")
    root = root_m * rinv % r
    delta = delta_m * rinv % r

    mod_rs = open(os.path.join(REPO, "circuits/src/verifier/mod.rs")).read()
    fixed_infix = name_format(mod_rs, "fixed_commitment_name")
    perm_infix = name_format(mod_rs, "perm_commitment_name")
    # the key of the negated generator: every site must use the same literal
    kzg = open(os.path.join(REPO, "circuits/src/verifier/kzg.rs")).read()
    acc = open(os.path.join(REPO, "circuits/src/verifier/accumulator.rs")).read()
    k1 = re.findall(r"AssignedMsm::from_fixed_term\(&v, \"([^\"]*)\"\)", kzg)
    k2 = re.findall(r"CommitmentLabel::Custom\(s\) if s == \"([^\"]*)\"", acc)
    k3 = re.findall(r"fixed_base_scalars\.entry\(\"([^\"]*)\"\.into\(\)\)", acc)
    k4 = re.findall(r"fixed_bases\.insert\(String::from\(\"([^\"]*)\"\)", mod_rs)
    k5 = re.findall(r"names\.push\(\"([^\"]*)\"\.into\(\)\)", mod_rs)
    if not (len(k1) == 1 and len(k2) == 1 and len(k3) == 1 and len(k4) == 1 and len(k5) == 1):
        die(f"cannot find the fixed-base key of the negated generator: {k1} {k2} {k3} {k4} {k5}")
    neg_g = [k1[0], k2[0], k3[0], k4[0], k5[0]]
    # the generator itself: `fixed_bases` must insert the NEGATED generator under that key
    if not re.search(r"fixed_bases\.insert\(String::from\(\"[^\"]*\"\), -S::C::generator\(\)\)", mod_rs):
        die("fixed_bases no longer inserts -S::C::generator() under the negated-generator key")

    vg = open(os.path.join(REPO, "circuits/src/verifier/verifier_gadget.rs")).read()
    m = re.search(r"let get_point = \|rotation: &Rotation\| -> &AssignedNative<S::F> \{\s*match rotation\.0 \{(.*?)\}\s*\};", vg, re.S)
    if not m:
        die("cannot parse get_point")
    arms = re.findall(r"(-?\d+|_) => (&?\w+|panic!)", m.group(1))
    pts = [(int(a), b.lstrip("&")) for a, b in arms if a != "_"]
    if not any(a == "_" and b.startswith("panic") for a, b in arms):
        die("get_point: no panicking default arm")
    for rot, name in pts:
        if name not in ("x_prev", "x", "x_next"):
            die(f"get_point: unexpected point {name}")
    # x_next = x*omega, x_prev = x*omega_inv, x_last = x*omega_inv^(bf+1)
    for pat, what in [
        (r"let x_next = self\.scalar_chip\.mul_by_constant\(layouter, &x, omega\)\?;", "x_next"),
        (r"let x_prev = self\.scalar_chip\.mul_by_constant\(layouter, &x, omega_inv\)\?;", "x_prev"),
        (r"let x_last = self\.scalar_chip\.mul_by_constant\(layouter, &x, omega_last\)\?;", "x_last"),
        (r"let omega_inv = omega\.invert\(\)\.unwrap\(\);", "omega_inv"),
        (r"let omega_last = omega_inv\.pow\(\[cs\.blinding_factors\(\) as u64 \+ 1\]\);", "omega_last"),
    ]:
        if not re.search(pat, vg):
            die(f"verifier_gadget.rs: definition of {what} changed")
    point_rot = {"x_prev": -1, "x": 0, "x_next": 1}
    rots = ", ".join(f"({rot}, {point_rot[name]})" for rot, name in pts)

    out = f"""/-!
GENERATED by translators/c20_consts.py from curves/src/bls12_381/fq.rs,
circuits/src/verifier/{{mod,kzg,accumulator,verifier_gadget}}.rs — do not edit.
-/
namespace MidnightZK.C20.Consts

/-- `fq.rs: const MODULUS` -/
def modulus : Nat := 0x{r:x}
/-- `fq.rs: pub const S` (two-adicity) -/
def twoAdicity : Nat := {s}
/-- `fq.rs: const ROOT_OF_UNITY` (a `2^S`-th root of unity), canonical value -/
def rootOfUnity : Nat := 0x{root:x}
/-- `fq.rs: const DELTA` (`GENERATOR^(2^S)`), canonical value -/
def delta : Nat := 0x{delta:x}

/-- `verifier/mod.rs: fixed_commitment_name` = `{{prefix}}` ++ this ++ `{{i}}` -/
def fixedInfix : String := {lean_str(fixed_infix)}
/-- `verifier/mod.rs: perm_commitment_name` = `{{prefix}}` ++ this ++ `{{i}}` -/
def permInfix : String := {lean_str(perm_infix)}
/-- The fixed-base key of the negated generator at its five sites: `kzg.rs: multi_prepare`
(`from_fixed_term(&v, ..)`), `accumulator.rs: from_dual_msm` (label test, entry key),
`mod.rs: fixed_bases` (where `-S::C::generator()` is inserted), `mod.rs: fixed_base_names`. -/
def negGKeys : List String := [{", ".join(lean_str(k) for k in neg_g)}]
/-- `verifier_gadget.rs: get_point`: (rotation of the query, rotation of the point it is opened
at: `x_prev = x·ω⁻¹` ↦ -1, `x` ↦ 0, `x_next = x·ω` ↦ 1); every other rotation panics. -/
def getPointArms : List (Int × Int) := [{rots}]

end MidnightZK.C20.Consts
"""
    old = open(OUT).read() if os.path.exists(OUT) else None
    if old != out:
        with open(OUT, "w") as f:
            f.write(out)


if __name__ == "__main__":
    main()
