#!/usr/bin/env python3
"""Translator of property C07 (SHA-256 chip wiring): dumps the REAL gate polynomials and lookup
arguments of `Sha256Chip::configure` (through the harness binary `h-c07 --dump-sha-gates`, which
calls it in-process on the repository's current tree), strips the selector factor, renames the
advice columns to the logical indices A0..A7 of `Sha256Config::advice_cols` (parsed from
sha256_chip.rs and cross-checked against the lookup arguments of the dump) and renders everything
as Lean terms of `MidnightZK.C07.Chip.Expr` in lean/MidnightZK/Gen/C07ShaGates.lean.
The same is done for `Sha512Chip::configure` (`h-c07 --dump-sha512-gates`, gate polynomials only:
the column layout is shared) into lean/MidnightZK/Gen/C07Sha512Gates.lean.
Exits non-zero if the dump cannot be produced or has an unexpected shape."""
import json
import os
import re
import subprocess
import sys

VERIF = os.path.dirname(os.path.dirname(os.path.abspath(__file__)))
REPO = os.environ.get("VERIF_REPO", "/repo")
HARNESS = os.path.join(VERIF, "harness")
OUT = os.path.join(VERIF, "lean", "MidnightZK", "Gen", "C07ShaGates.lean")
OUT512 = os.path.join(VERIF, "lean", "MidnightZK", "Gen", "C07Sha512Gates.lean")
WORK = os.path.join(VERIF, "work", "C07")

SELS = ["maj", "halfch", "Sig0", "Sig1", "sig0", "sig1", "d11", "dA", "dE", "dW", "add"]


def die(msg):
    print("c07_shagates: " + msg, file=sys.stderr)
    sys.exit(1)


def strip_sel(e):
    """`Constraints::with_selector(q, polys)` yields `q * poly`."""
    if e["t"] == "prod" and e["a"]["t"] == "sel":
        return e["a"]["i"], e["b"]
    if e["t"] == "prod" and e["b"]["t"] == "sel":
        return e["b"]["i"], e["a"]
    die("gate polynomial is not of the form selector * polynomial")


def main():
    os.makedirs(WORK, exist_ok=True)
    env = dict(os.environ, CARGO_NET_OFFLINE="true")
    p = subprocess.run(["cargo", "build", "--release", "--offline", "-j", "6", "-p", "h-c07"], cwd=HARNESS,
                       env=env, stdout=subprocess.PIPE, stderr=subprocess.STDOUT, text=True)
    if p.returncode != 0:
        sys.stderr.write(p.stdout[-3000:])
        die("harness build failed")
    dump = os.path.join(WORK, "shagates.json")
    if os.path.exists(dump):
        os.remove(dump)
    target = os.environ.get("CARGO_TARGET_DIR") or os.path.join(HARNESS, "target")
    exe = os.path.join(target, "release", "h-c07")
    if not os.path.exists(exe):
        exe = os.path.join(HARNESS, "target", "release", "h-c07")
    p = subprocess.run([exe, "--dump-sha-gates", dump], cwd=VERIF, stdout=subprocess.PIPE,
                       stderr=subprocess.STDOUT, text=True)
    if p.returncode != 0 or not os.path.exists(dump):
        sys.stderr.write(p.stdout[-3000:])
        die("gate dump failed")
    d = json.load(open(dump))
    dump512 = os.path.join(WORK, "sha512gates.json")
    if os.path.exists(dump512):
        os.remove(dump512)
    p = subprocess.run([exe, "--dump-sha512-gates", dump512], cwd=VERIF, stdout=subprocess.PIPE,
                       stderr=subprocess.STDOUT, text=True)
    if p.returncode != 0 or not os.path.exists(dump512):
        sys.stderr.write(p.stdout[-3000:])
        die("SHA-512 gate dump failed")
    d512 = json.load(open(dump512))

    # logical column order, from the source
    src = open(os.path.join(REPO, "circuits/src/hash/sha256/sha256_chip.rs")).read()
    m = re.search(r"let\s+advice_cols\s*=\s*\[([0-9,\s]*)\]\s*\.map\(\|i\|\s*shared_res\.0\[i\]\)", src)
    if not m:
        die("cannot find `let advice_cols = [..].map(|i| shared_res.0[i])` in sha256_chip.rs")
    adv_cols = [int(x) for x in m.group(1).replace(" ", "").split(",") if x]
    if sorted(adv_cols) != list(range(8)):
        die(f"advice_cols is not a permutation of 0..7: {adv_cols}")
    if not re.search(r"let\s+fixed_cols\s*=\s*shared_res\.1\s*;", src):
        die("cannot find `let fixed_cols = shared_res.1;`")
    fixed_cols = [0, 1]
    logical = {c: j for j, c in enumerate(adv_cols)}
    # the SHA-512 chip uses the same convention (columns only: its emitter is tied by the region trace)
    src512 = open(os.path.join(REPO, "circuits/src/hash/sha512/sha512_chip.rs")).read()
    m = re.search(r"let\s+advice_cols\s*=\s*\[([0-9,\s]*)\]\s*\.map\(\|i\|\s*shared_res\.0\[i\]\)", src512)
    if not m:
        die("cannot find `let advice_cols = [..].map(|i| shared_res.0[i])` in sha512_chip.rs")
    adv_cols512 = [int(x) for x in m.group(1).replace(" ", "").split(",") if x]
    if sorted(adv_cols512) != list(range(8)):
        die(f"sha512 advice_cols is not a permutation of 0..7: {adv_cols512}")
    if not re.search(r"let\s+fixed_cols\s*=\s*shared_res\.1\s*;", src512):
        die("cannot find `let fixed_cols = shared_res.1;` in sha512_chip.rs")

    def render(e, logical):
        t = e["t"]
        if t == "const":
            return f"(.const {int(e['v'], 16)})"
        if t == "adv":
            if e["c"] not in logical:
                die(f"gate queries advice column {e['c']} outside of the chip's columns")
            return f"(.adv {logical[e['c']]} ({e['r']}))"
        if t == "neg":
            return f"(.neg {render(e['a'], logical)})"
        if t == "sum":
            return f"(.sum {render(e['a'], logical)} {render(e['b'], logical)})"
        if t == "prod":
            return f"(.prod {render(e['a'], logical)} {render(e['b'], logical)})"
        if t == "scaled":
            return f"(.scaled {render(e['a'], logical)} {int(e['v'], 16)})"
        die(f"unsupported expression node {t} in a gate of the SHA-256 chip")

    def extract(d, logical, chip):
        gates = {}
        sel_of = {}
        for g in d["gates"]:
            short = g["short"]
            if short in gates:
                die(f"{chip}: gate {g['name']} appears twice")
            polys = []
            sels = set()
            for poly in g["polys"]:
                s, inner = strip_sel(poly)
                sels.add(s)
                polys.append(render(inner, logical))
            if len(sels) != 1:
                die(f"gate {g['name']} uses several selectors")
            sel_of[short] = sels.pop()
            gates[short] = (g["name"], polys)
        if sorted(gates) != sorted(SELS):
            die(f"{chip}: unexpected gate set {sorted(gates)}")
        if len(set(sel_of.values())) != len(sel_of):
            die("two gates share a selector")

        # lookups: (q * T_i, q * A_{2i}, q * A_{2i+1}) in the three table columns
        looks = []
        if len(d["lookups"]) != 2:
            die(f"expected two plain-spreaded lookups, found {len(d['lookups'])}")
        qs = set()
        tables = set()
        for i, l in enumerate(d["lookups"]):
            ins = l["inputs"]
            if len(ins) != 3:
                die("lookup does not have three inputs")
            cols = []
            for e in ins:
                s, inner = strip_sel(e)
                qs.add(s)
                cols.append(inner)
            if cols[0]["t"] != "fixed" or cols[0]["r"] != 0 or cols[1]["t"] != "adv" or cols[1]["r"] != 0 \
                    or cols[2]["t"] != "adv" or cols[2]["r"] != 0:
                die("lookup inputs are not (q*fixed, q*advice, q*advice) at rotation 0")
            if cols[0]["c"] not in fixed_cols or cols[1]["c"] not in logical or cols[2]["c"] not in logical:
                die("lookup inputs use columns outside of the chip's columns")
            looks.append((fixed_cols.index(cols[0]["c"]), logical[cols[1]["c"]], logical[cols[2]["c"]]))
            tables.add(json.dumps(l["table"], sort_keys=True))
            if any(t["t"] != "fixed" or t["r"] != 0 for t in l["table"]):
                die("lookup table expressions are not plain table columns")
        if len(qs) != 1 or len(tables) != 1:
            die("the two lookups do not share selector and table")
        if qs.pop() in sel_of.values():
            die("q_lookup is also a gate selector")

        return gates, looks

    gates, looks = extract(d, logical, "sha256")
    logical512 = {c: j for j, c in enumerate(adv_cols512)}
    gates512, looks512 = extract(d512, logical512, "sha512")
    if looks512 != looks:
        die("the lookups of the SHA-512 chip do not read the same logical columns as those of the SHA-256 chip")
    if d512["modulus"] != d["modulus"]:
        die("the two chips are configured over different fields")
    L = []
    L.append("import MidnightZK.Model.C07.ShaChip")
    L.append("/-! GENERATED by translators/c07_shagates.py from the constraint system built by the REAL")
    L.append("`Sha256Chip::configure` of the repository (gate polynomials without their selector factor, advice")
    L.append("columns renamed to the logical indices of `Sha256Config::advice_cols`). Do not edit. -/")
    L.append("namespace MidnightZK.C07.Gen")
    L.append("open MidnightZK.C07.Chip")
    L.append("")
    L.append("/-- `F::MODULUS` of the running code. -/")
    L.append(f"def shaModulus : Nat := {int(d['modulus'], 16)}")
    L.append("/-- `Sha256Chip::configure`: `advice_cols = [..].map(|i| shared_res.0[i])` (logical index -> shared column). -/")
    L.append(f"def shaAdvCols : List Nat := {adv_cols}")
    L.append("/-- `Sha512Chip::configure`: `advice_cols`. -/")
    L.append(f"def sha512AdvCols : List Nat := {adv_cols512}")
    L.append("/-- `fixed_cols = shared_res.1` (tag columns `T0`, `T1`). -/")
    L.append(f"def shaFixedCols : List Nat := {fixed_cols}")
    L.append("/-- the two plain-spreaded lookups: (tag column index, logical plain column, logical spreaded column). -/")
    L.append("def shaLookups : List (Nat × Nat × Nat) := [" + ", ".join(f"({a}, {b}, {c})" for a, b, c in looks) + "]")
    for short in SELS:
        name, polys = gates[short]
        L.append(f"/-- gate `{name}` -/")
        L.append(f"def gate_{short} : List Expr := [")
        L.append("  " + ",\n  ".join(polys))
        L.append("]")
    L.append("/-- The polynomials each selector switches on. -/")
    L.append("def shaGates : Sel → List Expr")
    L.append("  | .lookup => []")
    for short in SELS:
        L.append(f"  | .{short} => gate_{short}")
    L.append("")
    L.append("end MidnightZK.C07.Gen")
    text = "\n".join(L) + "\n"
    os.makedirs(os.path.dirname(OUT), exist_ok=True)
    old = open(OUT).read() if os.path.exists(OUT) else None
    if old != text:
        open(OUT, "w").write(text)
    print(f"c07_shagates: wrote {os.path.normpath(OUT)}")

    L = []
    L.append("import MidnightZK.Model.C07.ShaChip")
    L.append("/-! GENERATED by translators/c07_shagates.py from the constraint system built by the REAL")
    L.append("`Sha512Chip::configure` of the repository (gate polynomials without their selector factor, advice")
    L.append("columns renamed to the logical indices of `Sha512Config::advice_cols`; the selectors are named by role:")
    L.append("`d11` = `q_13x4_12`, `dA` / `dE` / `dW` the operand decompositions, `add` = `q_add_mod_2_64`). Do not edit. -/")
    L.append("namespace MidnightZK.C07.Gen")
    L.append("open MidnightZK.C07.Chip")
    L.append("")
    L.append("/-- `F::MODULUS` of the running code (SHA-512 chip). -/")
    L.append(f"def sha512Modulus : Nat := {int(d512['modulus'], 16)}")
    L.append("/-- the two plain-spreaded lookups of the SHA-512 chip: (tag column index, logical plain column, logical spreaded column). -/")
    L.append("def sha512Lookups : List (Nat × Nat × Nat) := [" + ", ".join(f"({a}, {b}, {c})" for a, b, c in looks512) + "]")
    for short in SELS:
        name, polys = gates512[short]
        L.append(f"/-- gate `{name}` -/")
        L.append(f"def gate512_{short} : List Expr := [")
        L.append("  " + ",\n  ".join(polys))
        L.append("]")
    L.append("/-- The polynomials each selector of the SHA-512 chip switches on. -/")
    L.append("def sha512Gates : Sel → List Expr")
    L.append("  | .lookup => []")
    for short in SELS:
        L.append(f"  | .{short} => gate512_{short}")
    L.append("")
    L.append("end MidnightZK.C07.Gen")
    text = "\n".join(L) + "\n"
    old = open(OUT512).read() if os.path.exists(OUT512) else None
    if old != text:
        open(OUT512, "w").write(text)
    print(f"c07_shagates: wrote {os.path.normpath(OUT512)}")
    return 0


if __name__ == "__main__":
    sys.exit(main())
