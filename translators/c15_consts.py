#!/usr/bin/env python3
"""Extract the naming scheme of fixed bases and the error values of the batching code from the
sources of the pinned repository into lean/MidnightZK/Gen/C15Consts.lean.

Sources (relative to $VERIF_REPO, default /repo):
  circuits/src/verifier/mod.rs          fixed_commitment_name / perm_commitment_name format strings,
                                        the name of the negated generator in `fixed_bases`
  circuits/src/verifier/accumulator.rs  the custom label treated as a fixed base in from_dual_msm
  proofs/src/poly/kzg/mod.rs            the label multi_prepare gives to -G
  proofs/src/poly/commitment.rs         error value of Guard::batch_verify on a length mismatch
  zk_stdlib/src/lib.rs                  error values of batch_verify (length mismatch, trailing bytes,
                                        failed final check), empty batch value, loop shape
Exits non-zero if a pattern no longer matches.
"""
import os
import re
import sys

REPO = os.environ.get("VERIF_REPO", "/repo")
HERE = os.path.dirname(os.path.abspath(__file__))
OUT = os.path.join(HERE, "..", "lean", "MidnightZK", "Gen", "C15Consts.lean")


def read(rel):
    return open(os.path.join(REPO, rel)).read()


def need(pattern, text, what, flags=re.S):
    m = re.search(pattern, text, flags)
    if not m:
        sys.stderr.write(f"c15_consts: cannot find {what}\n")
        sys.exit(1)
    return m


def body_of(text, header):
    """Source text of the function starting at `header` (brace matching)."""
    i = text.index(header)
    j = text.index("{", i)
    depth, k = 0, j
    while True:
        if text[k] == "{":
            depth += 1
        elif text[k] == "}":
            depth -= 1
            if depth == 0:
                return text[j:k + 1]
        k += 1


def main():
    vmod = read("circuits/src/verifier/mod.rs")
    fx = need(r'fn fixed_commitment_name\(prefix: &str, i: usize\) -> String \{\s*format!\("\{prefix\}([^"{]*)\{i\}"\)', vmod, "fixed_commitment_name").group(1)
    pm = need(r'fn perm_commitment_name\(prefix: &str, i: usize\) -> String \{\s*format!\("\{prefix\}([^"{]*)\{i\}"\)', vmod, "perm_commitment_name").group(1)
    fb = body_of(vmod, "pub fn fixed_bases<")
    neg_g_map = need(r'fixed_bases\.insert\(String::from\("([^"]*)"\), -S::C::generator\(\)\)', fb, "-G entry of fixed_bases").group(1)

    acc = read("circuits/src/verifier/accumulator.rs")
    fd = body_of(acc, "pub fn from_dual_msm(")
    neg_g_label = need(r'CommitmentLabel::Custom\(s\) if s == "([^"]*)"', fd, "custom fixed label of from_dual_msm").group(1)
    neg_g_key = need(r'\*fixed_base_scalars\.entry\("([^"]*)"\.into\(\)\)\.or_insert\(S::F::ZERO\) \+= \*scalar;', fd, "key of the custom fixed label").group(1)
    # scalars of a repeated fixed base add up (348977f): no `insert`, three `entry(..).or_insert(ZERO) +=`
    n_insert = len(re.findall(r"fixed_base_scalars\.insert\(", fd))
    n_entry = len(re.findall(r"\*fixed_base_scalars\.entry\([^;]*\)\.or_insert\(S::F::ZERO\) \+= \*scalar;", fd))
    n_assert = len(re.findall(r"assert_eq!\(fixed_bases\.get\(", fd))
    accum = body_of(acc, "pub fn accumulate(accs: &[Self]) -> Self")
    need(r"r\.pow\(\[i as u64\]\)", accum, "powers r^i in Accumulator::accumulate")
    need(r"accs\.iter\(\)\.zip\(rs\)\.skip\(1\)", accum, "skip(1) loop of Accumulator::accumulate")
    need(r"accs\.iter\(\)\.flat_map\(AssignedAccumulator::as_public_input\)", accum, "hash input of Accumulator::accumulate")

    kzg = read("proofs/src/poly/kzg/mod.rs")
    mp = body_of(kzg, "fn multi_prepare<")
    neg_g_prepare = need(r'bases: vec!\[pi, -E::G1::generator\(\)\],\s*labels: vec!\[\s*CommitmentLabel::Custom\("[^"]*"\.into\(\)\),\s*CommitmentLabel::Custom\("([^"]*)"\.into\(\)\)', mp, "label of -G in multi_prepare").group(1)

    com = read("proofs/src/poly/commitment.rs")
    gb = body_of(com, "fn batch_verify<'a, I, J>")
    guard_len_err = need(r"if guards\.len\(\) != params\.len\(\) \{\s*return Err\(Error::(\w+)\);", gb, "length check of Guard::batch_verify").group(1)

    std = read("zk_stdlib/src/lib.rs")
    bv = body_of(std, "pub fn batch_verify<H: TranscriptHash>(")
    len_err = need(r"if pis\.len\(\) != n \|\| proofs\.len\(\) != n \{.*?return Err\(Error::(\w+)\);", bv, "length check of batch_verify").group(1)
    pi_err = need(r"if pi\.len\(\) != vk\.nb_public_inputs \{\s*return Err\(Error::(\w+)\);", bv, "instance length check of batch_verify").group(1)
    trail_err = need(r"transcript\.assert_empty\(\)\.map_err\(\|_\| Error::(\w+)\)\?", bv, "trailing bytes error of batch_verify").group(1)
    final_err = need(r"acc_guard\.verify\(params_verifier\)\.map_err\(\|_\| Error::(\w+)\)", bv, "final error of batch_verify").group(1)
    need(r"let Some\(first_guard\) = guards\.first\(\) else \{\s*return Ok\(\(\)\);", bv, "empty batch value of batch_verify")
    # order inside the member closure: prepare, squeeze summary, absorb into r_transcript, assert_empty
    order = [bv.index("prepare::<"), bv.index("transcript.squeeze_challenge()"), bv.index("r_transcript.common(&summary)"), bv.index("transcript.assert_empty()"), bv.index("r_transcript.squeeze_challenge()")]
    if order != sorted(order):
        sys.stderr.write("c15_consts: order of prepare / summary / absorb / assert_empty / squeeze r changed\n")
        sys.exit(1)
    # the loop `for g in guards.skip(1) { acc.scale(r); acc.add_msm(g) }` up to the names of its variables (a
    # renaming is not an alarm; scaling the incoming guard instead of the running one — seed C15-1 — is)
    need(r"for (?:mut )?(\w+) in (\w+)\.into_iter\(\)\.skip\(1\) \{\s*(\w+)\.scale\((\w+)\);\s*\3\.add_msm\(\1\);\s*\}", bv, "Horner loop of batch_verify")

    def lean_str(s):
        return '"' + s.replace("\\", "\\\\").replace('"', '\\"') + '"'

    lines = [
        "/-! GENERATED by translators/c15_consts.py from circuits/src/verifier/{mod,accumulator}.rs,",
        "proofs/src/poly/{kzg/mod,commitment}.rs and zk_stdlib/src/lib.rs — do not edit. -/",
        "namespace MidnightZK.C15.Gen",
        "",
        "/-- `fixed_commitment_name`: text between `{prefix}` and `{i}`. -/",
        f"def fixedComInfix : String := {lean_str(fx)}",
        "/-- `perm_commitment_name`: text between `{prefix}` and `{i}`. -/",
        f"def permComInfix : String := {lean_str(pm)}",
        "/-- Name of `-G` in the map built by `verifier::fixed_bases`. -/",
        f"def negGInFixedBases : String := {lean_str(neg_g_map)}",
        "/-- Custom label that `from_dual_msm` treats as a fixed base, and the key it files it under. -/",
        f"def negGLabelFromDual : String := {lean_str(neg_g_label)}",
        f"def negGKeyFromDual : String := {lean_str(neg_g_key)}",
        "/-- Label `multi_prepare` gives to the term `v·(-G)`. -/",
        f"def negGLabelPrepare : String := {lean_str(neg_g_prepare)}",
        "/-- Number of overwriting `fixed_base_scalars.insert`, of adding `*entry(..).or_insert(ZERO) += *scalar`",
        "and of `assert_eq!(fixed_bases.get(..))` sites of `process_msm`. -/",
        f"def fromDualInsertSites : Nat := {n_insert}",
        f"def fromDualEntryAddSites : Nat := {n_entry}",
        f"def fromDualAssertSites : Nat := {n_assert}",
        "/-- Error values (variant names). -/",
        f"def guardBatchLenErr : String := {lean_str(guard_len_err)}",
        f"def batchLenErr : String := {lean_str(len_err)}",
        f"def batchPiLenErr : String := {lean_str(pi_err)}",
        f"def batchTrailingErr : String := {lean_str(trail_err)}",
        f"def batchFinalErr : String := {lean_str(final_err)}",
        "",
        "end MidnightZK.C15.Gen",
        "",
    ]
    os.makedirs(os.path.dirname(OUT), exist_ok=True)
    new = "\n".join(lines)
    old = open(OUT).read() if os.path.exists(OUT) else None
    if old != new:
        open(OUT, "w").write(new)


if __name__ == "__main__":
    main()
