#!/usr/bin/env python3
"""Translator for C17 (call sites): the ORDER in which the key/parameter code writes, reads,
returns, destructures and stores its parts, read from the sources and written to
`lean/MidnightZK/Gen/C17Sites.lean`:

* `proofs/src/plonk/keygen.rs`: the array `compute_lagrange_polys` returns (names of the
  locals, in order), the pattern `keygen_pk` destructures it with, the field initialisers of the
  `ProvingKey { .. }` it builds;
* `proofs/src/plonk/mod.rs`: the pattern `ProvingKey::read` destructures the same array with,
  the field initialisers of the `Self { .. }` it builds, the order of the parts
  `ProvingKey::write` writes and `ProvingKey::read` reads;
* `proofs/src/poly/kzg/params.rs`: the order `write_custom` writes the parts in; for each format
  branch of `read_custom` the order in which vectors are read from the reader, the tuple the
  branch evaluates to and the pattern it is bound to; the field initialisers of the result; the
  statement order of `downsize` (truncate before `g_to_lagrange`); where `verifier_params` takes
  its two G2 elements from.

A one-sided change (one site reordered, the other not) breaks a theorem of Props/C17.lean over
these constants. Python 3 stdlib only. Exits non-zero if a source no longer parses."""
import os
import re
import sys

REPO = os.environ.get("VERIF_REPO", "/repo")
OUT = os.path.normpath(os.path.join(os.path.dirname(os.path.abspath(__file__)), "..", "lean", "MidnightZK", "Gen", "C17Sites.lean"))


def die(msg):
    print("c17_sites: " + msg, file=sys.stderr)
    sys.exit(1)


def strip_comments(src):
    # line comments (incl. doc comments) and block comments; string literals of these files
    # contain no `//`
    src = re.sub(r"/\*.*?\*/", "", src, flags=re.S)
    return re.sub(r"//[^\n]*", "", src)


def block_at(src, open_idx, what):
    """src[open_idx] == '{' : returns the text strictly inside the matching braces."""
    if open_idx < 0 or src[open_idx] != "{":
        die(f"{what}: no opening brace")
    depth = 0
    for i in range(open_idx, len(src)):
        c = src[i]
        if c == "{":
            depth += 1
        elif c == "}":
            depth -= 1
            if depth == 0:
                return src[open_idx + 1:i]
    die(f"{what}: unbalanced braces")


def fn_body(src, header_re, what, start=0):
    m = re.compile(header_re).search(src, start)
    if not m:
        die(f"cannot find {what}")
    # the body opens at the first `{` after the parameter list: skip to the closing paren of
    # the parameters, then to the next `{` (where-clauses contain no braces)
    i = src.find("(", m.start())
    depth = 0
    while i < len(src):
        if src[i] == "(":
            depth += 1
        elif src[i] == ")":
            depth -= 1
            if depth == 0:
                break
        i += 1
    o = src.find("{", i)
    return block_at(src, o, what)


def split_top(text, sep):
    """Split at `sep` outside (), [], {}."""
    out, depth, cur = [], 0, []
    for c in text:
        if c in "([{":
            depth += 1
        elif c in ")]}":
            depth -= 1
        if c == sep and depth == 0:
            out.append("".join(cur))
            cur = []
        else:
            cur.append(c)
    out.append("".join(cur))
    return [s.strip() for s in out]


def names(csv, what):
    ns = [s for s in split_top(csv, ",") if s]
    for n in ns:
        if not re.fullmatch(r"[A-Za-z_][A-Za-z0-9_]*", n):
            die(f"{what}: `{n}` is not a plain identifier")
    return ns


def struct_init(body, opener, what):
    """Field initialisers of the last `opener {` .. `}` of `body`: [(field, expression)]."""
    i = body.rfind(opener)
    if i < 0:
        die(f"{what}: cannot find `{opener}`")
    inner = block_at(body, body.find("{", i), what)
    out = []
    for item in split_top(inner, ","):
        if not item:
            continue
        item = re.sub(r"#\[[^\]]*\]\s*", "", item)
        if ":" in item:
            f, e = item.split(":", 1)
            out.append((f.strip(), " ".join(e.split())))
        else:
            out.append((item, item))
    if not out:
        die(f"{what}: empty initialiser")
    return out


def order_of(body, needles, what):
    """Names of `needles` (name, regex) sorted by first occurrence; every one must occur once."""
    pos = []
    for name, rx in needles:
        ms = list(re.finditer(rx, body))
        if len(ms) != 1:
            die(f"{what}: expected exactly one `{rx}`, found {len(ms)}")
        pos.append((ms[0].start(), name))
    return [n for _, n in sorted(pos)]


def lean_list(xs):
    return "[" + ", ".join('"' + x.replace('"', "'") + '"' for x in xs) + "]"


def lean_pairs(ps):
    return "[" + ", ".join(f'("{a}", "{b}")' for a, b in ps) + "]"


def main():
    keygen = strip_comments(open(os.path.join(REPO, "proofs/src/plonk/keygen.rs")).read())
    mod = strip_comments(open(os.path.join(REPO, "proofs/src/plonk/mod.rs")).read())
    params = strip_comments(open(os.path.join(REPO, "proofs/src/poly/kzg/params.rs")).read())

    # --- compute_lagrange_polys: returned array ---
    clp = fn_body(keygen, r"fn compute_lagrange_polys\s*<", "compute_lagrange_polys")
    stmts = [s for s in split_top(clp, ";") if s]
    tail = stmts[-1].strip()
    m = re.fullmatch(r"\[([^\]]*)\]", tail)
    if not m:
        die("compute_lagrange_polys no longer ends with an array expression")
    lagr_return = names(m.group(1), "compute_lagrange_polys result")
    # what each returned local is built from (the Lagrange row set to one / the closure)
    m_last = re.search(r"l_last\[(.*?)\]\s*=\s*F::ONE", clp)
    m_l0 = re.search(r"l0\[(.*?)\]\s*=\s*F::ONE", clp)
    m_blind = re.search(r"l_blind\[\.\.\]\.iter_mut\(\)\.rev\(\)\.take\((.*?)\)\s*\{", clp)
    m_act = re.search(r"\*value\s*=\s*(.*?);", clp)
    if not (m_last and m_l0 and m_blind and m_act):
        die("compute_lagrange_polys: cannot find the defining rows of l0 / l_blind / l_last / l_active_row")
    lagr_rows = [("l0", " ".join(m_l0.group(1).split())), ("l_blind", "last " + " ".join(m_blind.group(1).split())),
                 ("l_last", " ".join(m_last.group(1).split())), ("l_active_row", " ".join(m_act.group(1).split()))]

    # --- keygen_pk ---
    kpk = fn_body(keygen, r"pub fn keygen_pk\s*<", "keygen_pk")
    m = re.search(r"let \[([^\]]*)\]\s*=\s*compute_lagrange_polys\(([^)]*)\)", kpk)
    if not m:
        die("keygen_pk no longer destructures compute_lagrange_polys(..)")
    lagr_keygen = names(m.group(1), "keygen_pk pattern")
    lagr_keygen_args = " ".join(m.group(2).split())
    pk_init_keygen = struct_init(kpk, "ProvingKey {", "keygen_pk result")

    # --- ProvingKey::{write, read} ---
    i = mod.find("pub struct ProvingKey")
    if i < 0:
        die("cannot find struct ProvingKey")
    decl = block_at(mod, mod.find("{", i), "struct ProvingKey")
    pk_fields = re.findall(r"(?<![:\w])([a-z_0-9]+)\s*:(?!:)", decl)
    pkw = fn_body(mod, r"pub fn write<W: io::Write>\(&self, writer: &mut W, format: SerdeFormat\)", "ProvingKey::write", i)
    pk_write = order_of(pkw, [("vk", r"self\.vk\.write\(writer, format\)"),
                              ("fixed_values", r"write_polynomial_slice\(&self\.fixed_values, writer\)"),
                              ("permutation", r"self\.permutation\.write\(writer\)")], "ProvingKey::write")
    pkr = fn_body(mod, r"pub fn read<R: io::Read, ConcreteCircuit: Circuit<F>>", "ProvingKey::read", i)
    pk_read = order_of(pkr, [("vk", r"let vk = VerifyingKey::<F, CS>::read::<R, ConcreteCircuit>\("),
                             ("fixed_values", r"let fixed_values = read_polynomial_vec\(reader, format\)"),
                             ("permutation", r"let permutation =\s*permutation::ProvingKey::read\(reader, format")], "ProvingKey::read")
    m = re.search(r"let \[([^\]]*)\]\s*=\s*compute_lagrange_polys\(([^)]*)\)", pkr)
    if not m:
        die("ProvingKey::read no longer destructures compute_lagrange_polys(..)")
    lagr_read = names(m.group(1), "ProvingKey::read pattern")
    lagr_read_args = " ".join(m.group(2).split())
    pk_init_read = struct_init(pkr, "Self {", "ProvingKey::read result")

    # --- ParamsKZG ---
    pw = fn_body(params, r"pub fn write_custom<W: io::Write>", "write_custom")
    params_write = order_of(pw, [("k", r"self\.g\.len\(\)\.ilog2\(\)\.to_le_bytes\(\)"),
                                 ("g", r"for el in self\.g\.iter\(\)"),
                                 ("g_lagrange", r"for el in self\.g_lagrange\.iter\(\)"),
                                 ("g2", r"self\.g2\.write\(writer, format\)"),
                                 ("s_g2", r"self\.s_g2\.write\(writer, format\)")], "write_custom")
    pr = fn_body(params, r"pub fn read_custom<R: io::Read>", "read_custom")
    m = re.search(r"let \(([^)]*)\)\s*=\s*match format\s*\{", pr)
    if not m:
        die("read_custom no longer binds a tuple to `match format`")
    params_target = names(m.group(1), "read_custom tuple pattern")
    mblock = block_at(pr, pr.find("{", m.end() - 1), "read_custom match")
    branches = []
    for fmt in ("Processed", "RawBytes", "RawBytesUnchecked"):
        mm = re.search(r"SerdeFormat::" + fmt + r"\s*=>\s*\{", mblock)
        if not mm:
            die(f"read_custom: no branch for {fmt}")
        b = block_at(mblock, mm.end() - 1, f"read_custom branch {fmt}")
        st = [s for s in split_top(b, ";") if s]
        reads = []
        for s in st[:-1]:
            ml = re.match(r"let\s+(?:mut\s+)?([A-Za-z_][A-Za-z0-9_]*)\s*(?::[^=]*)?=\s*(.*)$", s, re.S)
            if not ml:
                continue
            rhs = ml.group(2).strip()
            if rhs.startswith("|"):
                continue  # a closure definition does not read
            if re.search(r"\breader\b", rhs):
                reads.append(ml.group(1))
        mt = re.fullmatch(r"\(([^)]*)\)", st[-1].strip())
        if not mt:
            die(f"read_custom branch {fmt} no longer ends with a tuple")
        branches.append((fmt, reads, names(mt.group(1), f"read_custom branch {fmt} tuple")))
    after = pr[pr.find(mblock) + len(mblock):]
    params_read_tail = order_of(after, [("g2", r"let g2 = E::G2::read\(reader, format\)"),
                                        ("s_g2", r"let s_g2 = E::G2::read\(reader, format\)")], "read_custom tail")
    params_init_read = struct_init(pr, "Self {", "read_custom result")
    pkd = pr[:pr.find("let (")]
    if not re.search(r"let k = u32::from_le_bytes\(k\)", pkd):
        die("read_custom no longer reads k as little-endian u32 first")

    ds = fn_body(params, r"pub fn downsize\(&mut self, new_k: u32\)", "ParamsKZG::downsize")
    downsize_order = order_of(ds, [("same-k-return", r"if self\.max_k\(\) == new_k"),
                                   ("assert-smaller", r"assert!\(n < self\.g_lagrange\.len\(\)\)"),
                                   ("truncate-g", r"self\.g\.truncate\(n\)"),
                                   ("g_lagrange=g_to_lagrange(g,new_k)", r"self\.g_lagrange = g_to_lagrange\(&self\.g, new_k\)")], "downsize")
    vp = fn_body(params, r"pub fn verifier_params\(&self\)", "verifier_params")
    m1 = re.search(r"let n_g2_prepared = E::G2Prepared::from\(\((.*?)\)\.into\(\)\)", vp)
    m2 = re.search(r"let s_g2_prepared = E::G2Prepared::from\((.*?)\.into\(\)\)", vp)
    if not (m1 and m2):
        die("verifier_params: cannot find the prepared G2 elements")
    vparams = [("n_g2_prepared", m1.group(1).strip()), ("s_g2_prepared", m2.group(1).strip())] + struct_init(vp, "ParamsVerifierKZG {", "verifier_params result")
    fp = fn_body(params, r"pub fn from_parts\(", "from_parts")
    from_parts_init = struct_init(fp, "Self {", "from_parts result")
    from_parts_init = [(f, e if len(e) < 40 else ("match:" + ("g_to_lagrange(&g, k)" if "None => g_to_lagrange(&g, k)" in e and "Some(g_l) => g_l" in e else "?"))) for f, e in from_parts_init]

    out = []
    out.append("/-! GENERATED by translators/c17_sites.py from proofs/src/plonk/{keygen,mod}.rs and proofs/src/poly/kzg/params.rs of the repository — do not edit. -/")
    out.append("namespace MidnightZK.C17.Gen")
    out.append("")
    out.append("/-- `keygen.rs: compute_lagrange_polys`: the locals in the returned array, in order. -/")
    out.append(f"def lagrReturn : List String := {lean_list(lagr_return)}")
    out.append("/-- The defining row / expression of each local of `compute_lagrange_polys`. -/")
    out.append(f"def lagrRows : List (String × String) := {lean_pairs(lagr_rows)}")
    out.append("/-- `keygen.rs: keygen_pk`: `let [..] = compute_lagrange_polys(..)`. -/")
    out.append(f"def lagrDestructKeygen : List String := {lean_list(lagr_keygen)}")
    out.append(f"def lagrArgsKeygen : String := \"{lagr_keygen_args}\"")
    out.append("/-- `plonk/mod.rs: ProvingKey::read`: `let [..] = compute_lagrange_polys(..)`. -/")
    out.append(f"def lagrDestructRead : List String := {lean_list(lagr_read)}")
    out.append(f"def lagrArgsRead : String := \"{lagr_read_args}\"")
    out.append("/-- Fields of `struct ProvingKey` in declaration order. -/")
    out.append(f"def pkFields : List String := {lean_list(pk_fields)}")
    out.append("/-- `keygen_pk`: `Ok(ProvingKey { field: expression, .. })`. -/")
    out.append(f"def pkInitKeygen : List (String × String) := {lean_pairs(pk_init_keygen)}")
    out.append("/-- `ProvingKey::read`: `Ok(Self { field: expression, .. })`. -/")
    out.append(f"def pkInitRead : List (String × String) := {lean_pairs(pk_init_read)}")
    out.append("/-- Order of the parts `ProvingKey::write` writes / `ProvingKey::read` reads. -/")
    out.append(f"def pkWriteOrder : List String := {lean_list(pk_write)}")
    out.append(f"def pkReadOrder : List String := {lean_list(pk_read)}")
    out.append("/-- `params.rs: write_custom`: order of the parts written. -/")
    out.append(f"def paramsWriteOrder : List String := {lean_list(params_write)}")
    out.append("/-- `read_custom`: the pattern bound to `match format { .. }`. -/")
    out.append(f"def paramsReadTarget : List String := {lean_list(params_target)}")
    out.append("/-- `read_custom`, per format branch: the locals bound from the reader in read order, and the tuple the branch evaluates to. -/")
    out.append("def paramsReadBranches : List (String × List String × List String) := ["
               + ", ".join(f'("{f}", {lean_list(r)}, {lean_list(t)})' for f, r, t in branches) + "]")
    out.append(f"def paramsReadTail : List String := {lean_list(params_read_tail)}")
    out.append(f"def paramsInitRead : List (String × String) := {lean_pairs(params_init_read)}")
    out.append("/-- `ParamsKZG::downsize`: statement order. -/")
    out.append(f"def downsizeOrder : List String := {lean_list(downsize_order)}")
    out.append("/-- `verifier_params`: sources of the prepared elements and field initialisers. -/")
    out.append(f"def verifierParams : List (String × String) := {lean_pairs(vparams)}")
    out.append("/-- `from_parts`: field initialisers. -/")
    out.append(f"def fromPartsInit : List (String × String) := {lean_pairs(from_parts_init)}")
    out.append("")
    out.append("end MidnightZK.C17.Gen")
    text = "\n".join(out) + "\n"
    os.makedirs(os.path.dirname(OUT), exist_ok=True)
    old = open(OUT).read() if os.path.exists(OUT) else None
    if old != text:
        open(OUT, "w").write(text)


if __name__ == "__main__":
    main()
