#!/usr/bin/env python3
"""T-shape for property C10: the method bodies of the secp256k1 base-field wrapper.

Reads (never imports/executes) curves/src/k256/base_field.rs, finds every `fn` of the non-test
`impl` blocks and classifies its body into one of the expression shapes the Lean model
`MidnightZK.C10.KBody` understands (normalising binary/unary operator, predicate on the
normalised value, fold with the wrapper's own operator, raw k256 result, encoder, constructor
from a canonical value, normalising constructor from a foreign lazy value, delegation, select).  A body
that matches no shape is emitted as `unknown` with its text: the theorem
`k256_wrapper_normalisation_discipline` of Props/C10.lean (every body is safe on the values the
wrapper stores) then fails — e.g. when an arithmetic method stops normalising or `Sum` starts
accumulating on the lazy inner type.  The classification is deliberately tight (renaming closure
variables is tolerated; other rewrites of a body are flagged for review).

Writes lean/MidnightZK/Gen/C10K256Wrapper.lean.  Exit status != 0 when the file can no longer be
parsed into impl blocks / functions.  Python 3 stdlib only.
"""
import os
import re
import sys

REPO = os.environ.get("VERIF_REPO", "/repo")
OUT = os.path.join(os.path.dirname(os.path.dirname(os.path.abspath(__file__))),
                   "lean", "MidnightZK", "Gen", "C10K256Wrapper.lean")
SRC = os.path.join(REPO, "curves", "src", "k256", "base_field.rs")


class ParseError(Exception):
    pass


def strip_comments(src):
    src = re.sub(r"//[^\n]*", "", src)
    src = re.sub(r"/\*.*?\*/", "", src, flags=re.S)
    return src


def match_brace(s, i):
    """index just after the brace matching s[i] == '{'"""
    assert s[i] == "{"
    d = 0
    for j in range(i, len(s)):
        if s[j] == "{":
            d += 1
        elif s[j] == "}":
            d -= 1
            if d == 0:
                return j + 1
    raise ParseError("unbalanced braces")


def impl_blocks(src):
    out = []
    for m in re.finditer(r"(?m)^impl\b([^{]*)\{", src):
        start = m.end() - 1
        end = match_brace(src, start)
        hdr = " ".join(m.group(1).split())
        out.append((hdr, src[start + 1:end - 1]))
    return out


def functions(body):
    out = []
    for m in re.finditer(r"\bfn\s+(\w+)\b", body):
        # the opening brace of the function body is the first '{' after the name (signatures of
        # this file contain no braces)
        k = body.index("{", m.end())
        end = match_brace(body, k)
        out.append((m.group(1), " ".join(body[k + 1:end - 1].split())))
    return out


def header_name(hdr):
    """`Add<&Fp> for Fp` -> `Add<&Fp>`, `Fp` -> `Fp`, `<'a> Sum<&'a Fp> for Fp` -> `Sum<&Fp>`"""
    h = re.sub(r"^<[^>]*>\s*", "", hdr)
    h = h.replace("'a ", "")
    if " for " in h:
        tr, ty = h.split(" for ")
        return tr.strip() if ty.strip() == "Fp" else f"{tr.strip()} for {ty.strip()}"
    return h.strip()


def classify(name, body):
    b = body.rstrip(";").strip()
    # `.normalize_weak()` (magnitude 1, not canonical) is tolerated for arithmetic results: every
    # predicate / comparison / encoder of the wrapper normalises its operand itself
    wk = lambda m, i: "Weak" if m.group(i) == "normalize_weak" else ""
    m = re.fullmatch(r"(?:Self|Fp)\(\(self\.0 ([+\-*]) rhs\.0\)\.(normalize|normalize_weak)\(\)\)", b)
    if m:
        return ("normBin" + wk(m, 2), m.group(1))
    m = re.fullmatch(r"self\.0 = \(self\.0 ([+\-*]) rhs\.0\)\.(normalize|normalize_weak)\(\)", b)
    if m:
        return ("normBin" + wk(m, 2), m.group(1))
    m = re.fullmatch(r"(?:Self|Fp)\(\(-self\.0\)\.(normalize|normalize_weak)\(\)\)", b)
    if m:
        return ("normUn" + wk(m, 1), "neg")
    m = re.fullmatch(r"Self\(self\.0\.(square|double)\(\)\.(normalize|normalize_weak)\(\)\)", b)
    if m:
        return ("normUn" + wk(m, 2), m.group(1))
    if re.fullmatch(r"Self\(self\.0\.normalize\(\)\)", b) or re.fullmatch(r"self\.0 = self\.0\.normalize\(\)", b):
        return ("normUn", "id")
    m = re.fullmatch(r"self\.0\.normalize\(\)\.(is_zero|is_odd|is_even)\(\)", b)
    if m:
        return ("normPred", m.group(1))
    if re.fullmatch(r"self\.0\.normalize\(\)\.ct_eq\(&other\.0\.normalize\(\)\)(\.into\(\))?", b):
        return ("normEq", "")
    m = re.fullmatch(r"iter\.fold\(Self::(ZERO|ONE), \|(\w+), (\w+)\| (\w+) ([+*]) (\w+)\)", b)
    if m and m.group(2) == m.group(4) and m.group(3) == m.group(6) and \
            (m.group(1), m.group(5)) in (("ZERO", "+"), ("ONE", "*")):
        return ("foldOp", m.group(5))
    m = re.fullmatch(r"self\.0\.(invert|sqrt)\(\)\.map\(Self\)", b)
    if m:
        return ("rawUn", m.group(1))
    if re.fullmatch(r"let \((\w+), (\w+)\) = k256::FieldElement::sqrt_ratio\(&num\.0, &div\.0\); \(\1, Self\(\2\)\)", b):
        return ("rawUn", "sqrt_ratio")
    if re.fullmatch(r"self\.0\.(to_repr|to_bytes)\(\)", b):
        return ("rawEnc", "")
    if re.fullmatch(r"Self\(k256::FieldElement::conditional_select\(&a\.0, &b\.0, choice\)\)", b):
        return ("select", "")
    if re.fullmatch(r"Self\(fe\.normalize\(\)\)", b):
        return ("foreignNorm", "")
    if re.fullmatch(r"Self\(fe\)", b):
        # the pinned (defective) body: a caller-supplied lazy element stored as is
        return ("foreign", "")
    if re.fullmatch(r"iter\.copied\(\)\.(sum|product)\(\)", b):
        return ("delegate", m_name(b))
    if re.fullmatch(r"Fp::is_odd\(self\)", b):
        return ("delegate", "is_odd")
    canon = [
        r"&self\.0", r"self\.0", r"fp\.0",
        r"Self\(k256::FieldElement::from\(val\)\)", r"Self\(k256::FieldElement::from_u64\(val\)\)",
        r"k256::FieldElement::from_repr\(repr\)\.map\(Self\)", r"k256::FieldElement::from_bytes\(bytes\)\.map\(Self\)",
        r"Self\(k256::FieldElement::random\(rng\)\)",
    ]
    for c in canon:
        if re.fullmatch(c, b):
            return ("passThrough", "")
    return ("unknown", b)


def m_name(b):
    return "sum" if ".sum()" in b else "product"


def lean_str(s):
    return '"' + s.replace("\\", "\\\\").replace('"', '\\"') + '"'


def main():
    try:
        if not os.path.exists(SRC):
            raise ParseError(f"missing source file {SRC}")
        src = strip_comments(open(SRC).read())
        # drop the test module
        t = re.search(r"#\[cfg\(test\)\]\s*mod\s+tests\s*\{", src)
        if t:
            src = src[:t.start()]
        rows = []
        for hdr, body in impl_blocks(src):
            for name, fbody in functions(body):
                kind, arg = classify(name, fbody)
                rows.append((f"{header_name(hdr)}::{name}", kind, arg))
        if len(rows) < 30:
            raise ParseError(f"only {len(rows)} functions found in {SRC}")
        for need in ("Sum::sum", "Sum<&Fp>::sum", "Product::product", "Add::add", "Mul::mul", "Neg::neg"):
            if not any(r[0] == need for r in rows):
                raise ParseError(f"{SRC}: method {need} not found")
    except ParseError as e:
        print(f"c10_k256_wrapper: {e}", file=sys.stderr)
        return 1
    lines = [
        "/-!",
        "GENERATED by /verif/translators/c10_k256_wrapper.py from /repo/curves/src/k256/base_field.rs — do not edit.",
        "Every method of the non-test impl blocks: (impl::method, expression shape of its body, operator / text).",
        "-/",
        "namespace MidnightZK.C10.Gen.K256Wrapper",
        "",
        "/-- k256/base_field.rs: method bodies, classified -/",
        "def bodies : List (String × String × String) := [",
    ]
    lines += [f"  ({lean_str(n)}, {lean_str(k)}, {lean_str(a)})," for (n, k, a) in rows[:-1]]
    n, k, a = rows[-1]
    lines += [f"  ({lean_str(n)}, {lean_str(k)}, {lean_str(a)})]", "", "end MidnightZK.C10.Gen.K256Wrapper", ""]
    text = "\n".join(lines)
    os.makedirs(os.path.dirname(OUT), exist_ok=True)
    old = open(OUT).read() if os.path.exists(OUT) else None
    if old != text:
        open(OUT, "w").write(text)
    return 0


if __name__ == "__main__":
    sys.exit(main())
