#!/usr/bin/env python3
"""Translator of property C09: inventory of VALUE -> STRUCTURE channels of the CURRENT Rust sources.

A `Value<V>` (proofs/src/circuit/value.rs) is opaque on purpose: gadget code can only transform it
into other `Value`s (`map`, `and_then`, `zip`, arithmetic), so what a gadget lays out cannot depend on
the witness -- EXCEPT through the few places where a value escapes into ordinary Rust control flow or
data. This program finds every such place syntactically, on every run, in

  circuits/src, zk_stdlib/src, zk_stdlib/examples, zkir/src, aggregator/src   (gadget / relation code)
  proofs/src                                                                (the same kinds, plus the users
                                                                             of the crate-private
                                                                             `Value::into_option`/`assign`;
                                                                             value.rs itself excluded)

Channel kinds (the `kind` field):

  error_if_known_and   `v.error_if_known_and(|x| ..)?`  -- a witness value decides whether synthesis
                       returns an error (the keygen run never errs there)
  assert_if_known      `v.assert_if_known(|x| ..)`      -- same, by panic
  map_with_result      `v.map_with_result(|x| ..)?`     -- same, the closure's `Err` aborts synthesis
  effect:<what>        a closure given to `.map(..)` / `.and_then(..)` / `.map_with_result(..)` (whatever
                       the receiver: the receiver's type is not known syntactically, iterator/Option
                       closures that match are listed too and reviewed as such) whose body
                         assign  writes to a variable it did not declare (`x = ..`, `x[i] = ..`, `x += ..`)
                         mutate  calls a mutating method (`push`, `insert`, `extend`, `replace`, `set`,
                                 `borrow_mut`, ...) on a variable it did not declare
                         mutborrow  lends a variable it did not declare mutably (`helper(&mut state, x)`)
                         layout  touches the layouter / a region (`layouter`, `region`, `assign_*`,
                                 `constrain_*`, `copy_advice`, `.enable(`)
                         abort   contains `return`, `panic!`, `assert!`, `assert_eq!`, `assert_ne!`,
                                 `unreachable!`, `unimplemented!`, `todo!` or `debug_assert*!`
                       (`.unwrap()` / `.expect(..)` inside value closures are NOT listed: they are
                       everywhere -- `invert().unwrap()` -- and abort the prover, they do not change the
                       structure)
  discarded-map        `<expr>.map(|..| ..);` as a statement: the resulting Value is thrown away, so the
                       closure can only be there for its side effect
  assign-closure       the value closure of `assign_advice` / `assign_fixed` / `assign_advice_from_*`
                       has one of the effects above (the closure runs in the prover and in MockProver
                       only, never at keygen)
  into_option          `Value::into_option` / `Value::assign` used inside midnight-proofs outside
                       value.rs and outside the Assignment backends (crate-private escape hatch)

Every site has the stable key  (file, enclosing fn, kind, normalised source text of the site)  -- line
numbers are reported but are not part of the key, so edits elsewhere in a file do not matter, while
ANY edit of a listed site (or a new site) changes the key. The reviewed allow-list is
`translators/c09_value_channels.allow.json` (one entry per key with the review note and the harness
operation that steers the channel to different outcomes).

Output: `lean/MidnightZK/Gen/C09ValueChannels.lean` (`found`, `allowed` as lists of key digests; the
theorem `value_channels_all_reviewed : found ⊆ allowed` of Props/C09.lean is re-proved by `decide` on
every run) and `translators/c09_value_channels.found.json` (the listing with file:line that
checks/c09.py shows).

Exit status: 0 if every found site is allow-listed, 1 if a NEW channel appeared (the sites are printed),
2 if a source no longer parses (unbalanced brackets). Python 3 stdlib only.
"""
import hashlib
import json
import os
import re
import sys

REPO = os.environ.get("VERIF_REPO", "/repo")
HERE = os.path.dirname(os.path.abspath(__file__))
OUT = os.path.join(HERE, "..", "lean", "MidnightZK", "Gen", "C09ValueChannels.lean")
ALLOW = os.path.join(HERE, "c09_value_channels.allow.json")
FOUND = os.path.join(HERE, "c09_value_channels.found.json")

GADGET_DIRS = ["circuits/src", "zk_stdlib/src", "zk_stdlib/examples", "zkir/src", "aggregator/src"]
PROOFS_DIR = "proofs/src"
# the Assignment backends and the layouters are the legitimate consumers of `Value::assign`
PROOFS_BACKENDS = {
    "proofs/src/circuit/value.rs",
}


class ParseError(Exception):
    pass


def blank_comments_and_strings(src):
    """Replace comments, string and char literals by spaces (newlines kept: offsets stay valid)."""
    out = list(src)
    i, n = 0, len(src)

    def blank(a, b):
        for k in range(a, b):
            if out[k] != "\n":
                out[k] = " "

    while i < n:
        c = src[i]
        if src.startswith("//", i):
            j = src.find("\n", i)
            j = n if j < 0 else j
            blank(i, j)
            i = j
        elif src.startswith("/*", i):
            depth, j = 1, i + 2
            while j < n and depth:
                if src.startswith("/*", j):
                    depth += 1
                    j += 2
                elif src.startswith("*/", j):
                    depth -= 1
                    j += 2
                else:
                    j += 1
            blank(i, j)
            i = j
        elif c == '"' or (c == "r" and re.match(r'r#*"', src[i:i + 8]) and (i == 0 or not (src[i - 1].isalnum() or src[i - 1] == "_"))) \
                or (c == "b" and src[i + 1:i + 2] == '"' and (i == 0 or not (src[i - 1].isalnum() or src[i - 1] == "_"))):
            if c == "b":
                i += 1
                c = '"'
            if c == "r":
                m = re.match(r'r(#*)"', src[i:])
                hashes = m.group(1)
                end = src.find('"' + hashes, i + len(m.group(0)))
                if end < 0:
                    raise ParseError("unterminated raw string")
                j = end + 1 + len(hashes)
                blank(i, j)
                i = j
            else:
                j = i + 1
                while j < n and src[j] != '"':
                    j += 2 if src[j] == "\\" else 1
                blank(i + 1, j)
                i = j + 1
        elif c == "'":
            # char literal or lifetime
            m = re.match(r"'(\\.[^']*|[^\\'])'", src[i:i + 12])
            if m:
                blank(i + 1, i + len(m.group(0)) - 1)
                i += len(m.group(0))
            else:
                i += 1
        else:
            i += 1
    return "".join(out)


OPEN, CLOSE = "([{", ")]}"


def match_close(s, i):
    """Offset of the bracket closing the one at s[i]."""
    depth = 0
    for j in range(i, len(s)):
        ch = s[j]
        if ch in OPEN:
            depth += 1
        elif ch in CLOSE:
            depth -= 1
            if depth == 0:
                return j
    raise ParseError("unbalanced bracket")


def blank_test_modules(s):
    out = s
    for m in re.finditer(r"#\[cfg\(test\)\]\s*(?:#\[[^\]]*\]\s*)*(?:pub(?:\([^)]*\))?\s+)?mod\s+\w+\s*\{", s):
        a = m.end() - 1
        b = match_close(out, a)
        out = out[:a + 1] + re.sub(r"[^\n]", " ", out[a + 1:b]) + out[b:]
    return out


def fn_bodies(s):
    """[(body_start, body_end, name)] of every fn with a body."""
    res = []
    for m in re.finditer(r"\bfn\s+([A-Za-z_]\w*)", s):
        # find the body's opening brace: first `{` or `;` at bracket depth 0 after the signature
        j, depth = m.end(), 0
        while j < len(s):
            ch = s[j]
            if ch in "([":
                depth += 1
            elif ch in ")]":
                depth -= 1
            elif ch == "<" or ch == ">":
                pass
            elif depth == 0 and ch == ";":
                j = -1
                break
            elif depth == 0 and ch == "{":
                break
            j += 1
        if j < 0 or j >= len(s):
            continue
        res.append((j, match_close(s, j), m.group(1)))
    return res


def enclosing_fn(bodies, off):
    best = None
    for a, b, name in bodies:
        if a <= off <= b and (best is None or a > best[0]):
            best = (a, name)
    return best[1] if best else "<top>"


def norm(txt):
    return re.sub(r"\s+", " ", txt).strip()


MUTATORS = ("push", "push_str", "push_back", "push_front", "insert", "extend", "extend_from_slice", "replace",
            "set", "borrow_mut", "append", "remove", "pop", "clear", "truncate", "swap", "resize", "retain",
            "drain", "entry", "get_mut", "iter_mut", "as_mut", "fill", "sort", "sort_by", "sort_by_key",
            "reverse", "dedup", "take", "update", "lock", "write")
ABORTS = re.compile(r"\breturn\b|\b(?:panic|assert|assert_eq|assert_ne|unreachable|unimplemented|todo|"
                    r"debug_assert|debug_assert_eq|debug_assert_ne)\s*!")
LAYOUT = re.compile(r"\blayouter\b|\bregion\b|\bassign_\w+\s*\(|\.assign\s*\(|\bconstrain_\w+\s*\(|"
                    r"\bcopy_advice\s*\(|\.enable\s*\(")


def split_closure(arg):
    """arg = text of a call argument; returns (params, body) if it is a closure."""
    m = re.match(r"\s*(?:move\s+)?\|", arg)
    if not m:
        return None
    i = m.end()
    # closure params end at the next `|` at bracket depth 0
    depth = 0
    j = i
    while j < len(arg):
        ch = arg[j]
        if ch in OPEN:
            depth += 1
        elif ch in CLOSE:
            depth -= 1
        elif ch == "|" and depth == 0:
            break
        j += 1
    if j >= len(arg):
        return None
    return arg[i:j], arg[j + 1:]


def declared_names(params, body):
    names = set(re.findall(r"[A-Za-z_]\w*", params))
    for m in re.finditer(r"\blet\s+(?:mut\s+)?(\([^)]*\)|[A-Za-z_]\w*)", body):
        names.update(re.findall(r"[A-Za-z_]\w*", m.group(1)))
    for m in re.finditer(r"\bfor\s+(\([^)]*\)|[A-Za-z_]\w*)\s+in\b", body):
        names.update(re.findall(r"[A-Za-z_]\w*", m.group(1)))
    # parameters of nested closures
    for m in re.finditer(r"\|([^|]*)\|", body):
        names.update(re.findall(r"[A-Za-z_]\w*", m.group(1)))
    names.discard("mut")
    return names


ASSIGN = re.compile(r"(?:^|[;{}(,|]|\belse\b)\s*(\*?\s*[A-Za-z_][\w\.]*(?:\s*\[[^\]]*\])*)\s*"
                    r"(?:[+\-*/%|&^]|<<|>>)?=(?![=>])")


def effects(params, body):
    eff = set()
    decl = declared_names(params, body)
    for m in ASSIGN.finditer(body):
        lhs = m.group(1).lstrip("* ")
        # `let x = ..` is matched by `x = ..` only if `let` is not right before: check the text before
        pre = body[:m.start(1)]
        if re.search(r"\blet\s+(?:mut\s+)?$", pre) or re.search(r"\blet\s+(?:mut\s+)?\([^)]*$", pre):
            continue
        root = re.match(r"[A-Za-z_]\w*", lhs).group(0)
        if root in decl and root != "self":
            continue
        eff.add("assign")
    for m in re.finditer(r"\b([A-Za-z_]\w*)((?:\s*\.\s*[A-Za-z_]\w*|\s*\[[^\]]*\])*)\s*\.\s*(" + "|".join(MUTATORS) + r")\s*\(", body):
        root = m.group(1)
        if root in decl and root != "self":
            continue
        # a method chain on a call result (`foo().push`) has no root variable: skip keywords
        if root in ("Some", "Ok", "Err", "Vec", "vec", "Value", "String"):
            continue
        eff.add("mutate")
    # a captured variable lent mutably to a helper: `helper(&mut state, x)`
    for m in re.finditer(r"&\s*mut\s+([A-Za-z_]\w*)", body):
        if m.group(1) not in decl or m.group(1) == "self":
            eff.add("mutborrow")
    if LAYOUT.search(body):
        eff.add("layout")
    if ABORTS.search(body):
        eff.add("abort")
    return eff


def skeleton(txt):
    """Top-level shape of an expression: the content of every bracket pair removed."""
    prev = None
    while prev != txt:
        prev = txt
        txt = re.sub(r"\([^()\[\]{}]*\)", "()", txt)
        txt = re.sub(r"\[[^()\[\]{}]*\]", "[]", txt)
        txt = re.sub(r"\{[^()\[\]{}]*\}", "{}", txt)
        txt = re.sub(r"\(\)\(\)", "()", txt)
    return txt


ITER_ADAPTERS = (r"iter|into_iter|iter_mut|par_iter|into_par_iter|chunks|chunks_exact|windows|enumerate|rev|skip|take|"
                 r"step_by|zip_eq|drain|lines|bytes|chars|keys|values|into_values|split|filter|filter_map|flat_map|"
                 r"flatten|peekable|by_ref|tuples|chain|cycle|map_err|ok_or|ok_or_else|ok|err|get|first|last|find|"
                 r"position|pop|next")
ITER_CONSUMERS = (r"collect|try_for_each|for_each|fold|try_fold|sum|product|count|all|any|max|min|max_by_key|"
                  r"min_by_key|rev|enumerate|chain|filter|filter_map|flat_map|flatten|take|skip|peekable|last|next|"
                  r"find|position|unwrap_or|unwrap_or_else|unwrap_or_default|unwrap|expect|ok_or|ok_or_else|"
                  r"map_err|is_some|is_none|is_ok|is_err|try_into|reduce|partition|step_by|into_iter")


def receiver_is_iterator(s, off, close):
    """Is the receiver of the method call at `off` (closing paren at `close`) visibly an iterator / Option /
    Result and not a Value? Decided on the top-level method chain of the enclosing statement: an iterator
    adapter before the call, a range `(a..b)` as receiver, or an iterator/Option/Result consumer after it
    (`Value` has none of these methods)."""
    st = statement_start(s, off)
    head = s[st:off]
    # a parenthesised range as receiver
    h = head.rstrip()
    if h.endswith(")"):
        depth = 0
        for j in range(len(h) - 1, -1, -1):
            if h[j] in CLOSE:
                depth += 1
            elif h[j] in OPEN:
                depth -= 1
                if depth == 0:
                    inner = skeleton(h[j + 1:-1])
                    if ".." in inner and (j == 0 or not (h[j - 1].isalnum() or h[j - 1] == "_")):
                        return True
                    break
    sk = skeleton(head)
    m = re.search(r"([A-Za-z_][\w:]*(?:\s*(?:\.\s*\w+(?:\s*::\s*<[^()]*>)?|\(\)|\[\]|\?))*)\s*$", sk)
    chain = m.group(1) if m else sk
    if re.search(r"\.\s*(?:" + ITER_ADAPTERS + r")\s*(?:::\s*<[^()]*>\s*)?\(\)", chain):
        return True
    # what is done with the result
    tail = s[close + 1:close + 2000]
    k = 0
    while True:
        m = re.match(r"\s*\.\s*([A-Za-z_]\w*)\s*(?:::\s*<)?", tail[k:])
        if not m:
            return False
        if re.fullmatch(ITER_CONSUMERS, m.group(1)):
            return True
        # skip the turbofish and the call's argument list
        k += m.end()
        if tail[k - 1:k] == "<":
            depth = 1
            while k < len(tail) and depth:
                depth += {"<": 1, ">": -1}.get(tail[k], 0)
                k += 1
        mm = re.match(r"\s*\(", tail[k:])
        if mm:
            o = k + mm.end() - 1
            try:
                k = match_close(tail, o) + 1
            except ParseError:
                return False
        mm = re.match(r"\s*\?", tail[k:])
        if mm:
            k += mm.end()


def call_arg(s, open_paren):
    close = match_close(s, open_paren)
    return s[open_paren + 1:close], close


def statement_start(s, off):
    """Start of the expression statement containing offset `off` (scan back to `;`, `{` or `}` at depth 0)."""
    depth = 0
    j = off - 1
    while j >= 0:
        ch = s[j]
        if ch in CLOSE:
            depth += 1
        elif ch in OPEN:
            if depth == 0:
                return j + 1
            depth -= 1
        elif ch == ";" and depth == 0:
            return j + 1
        j -= 1
    return 0


def scan_file(rel, in_proofs):
    raw = open(os.path.join(REPO, rel)).read()
    s = blank_test_modules(blank_comments_and_strings(raw))
    bodies = fn_bodies(s)
    sites = []

    def add(off, kind, text):
        line = s.count("\n", 0, off) + 1
        t = norm(text)
        if len(t) > 160:
            # long sites: a readable prefix and a digest of the whole text (any edit changes the key)
            t = t[:160] + " #" + hashlib.sha256(t.encode()).hexdigest()[:10]
        sites.append({"file": rel, "line": line, "fn": enclosing_fn(bodies, off), "kind": kind, "text": t})

    if in_proofs:
        if rel in PROOFS_BACKENDS:
            return sites
        for m in re.finditer(r"\.\s*(into_option|assign)\s*\(\s*\)", s):
            # `.assign()` without argument is Value::assign; `.into_option()` also exists on CtOption:
            # keep those whose receiver text mentions a value
            st = statement_start(s, m.start())
            recv = s[st:m.start()]
            if m.group(1) == "into_option" and not re.search(r"value|Value", recv):
                continue
            # key text: the source line of the call only (the statement may start far above)
            ls = s.rfind("\n", 0, m.start()) + 1
            le = s.find("\n", m.end())
            add(m.start(), "into_option", s[ls:le if le >= 0 else len(s)])

    for m in re.finditer(r"\.\s*(error_if_known_and|assert_if_known|map_with_result)\s*\(", s):
        arg, _ = call_arg(s, m.end() - 1)
        st = statement_start(s, m.start())
        add(m.start(), m.group(1), s[st:m.start()].split("=")[-1] + "." + m.group(1) + "(" + arg + ")")
    for m in re.finditer(r"\.\s*(map|and_then|map_with_result)\s*\(", s):
        arg, close = call_arg(s, m.end() - 1)
        cl = split_closure(arg)
        if not cl:
            continue
        if receiver_is_iterator(s, m.start(), close):
            continue
        eff = effects(*cl)
        if eff:
            add(m.start(), "effect:" + "+".join(sorted(eff)), "." + m.group(1) + "(" + arg + ")")
        if m.group(1) == "map":
            # discarded result: `<recv>.map(..);` as a whole statement
            k = close + 1
            while k < len(s) and s[k] in " \n\t":
                k += 1
            if k < len(s) and s[k] == ";":
                st = statement_start(s, m.start())
                head = s[st:m.start()]
                if not re.match(r"\s*(let|return|break|continue|if|match|while|for|Ok|Some|Err)\b", head) \
                        and not re.search(r"(?<![=!<>+\-*/%|&^])=(?![=>])", re.sub(r"\([^()]*\)", "", head)):
                    add(m.start(), "discarded-map", head + ".map(" + arg + ");")
    for m in re.finditer(r"\b(assign_advice|assign_fixed|assign_advice_from_constant|assign_advice_from_instance)\s*\(", s):
        try:
            arg, _ = call_arg(s, m.end() - 1)
        except ParseError:
            continue
        # split the top-level arguments
        parts, depth, cur = [], 0, ""
        for ch in arg:
            if ch in OPEN:
                depth += 1
            elif ch in CLOSE:
                depth -= 1
            if ch == "," and depth == 0:
                parts.append(cur)
                cur = ""
            else:
                cur += ch
        parts.append(cur)
        for p in parts:
            cl = split_closure(p)
            if cl:
                eff = effects(*cl)
                if eff:
                    add(m.start(), "assign-closure:" + "+".join(sorted(eff)), m.group(1) + "(" + arg + ")")
                    break
    return sites


def rust_files(d):
    root = os.path.join(REPO, d)
    if not os.path.isdir(root):
        raise ParseError(f"missing source directory {root}")
    res = []
    for base, dirs, files in os.walk(root):
        dirs.sort()
        if os.path.basename(base) in ("tests", "benches"):
            continue
        for f in sorted(files):
            if f.endswith(".rs") and f not in ("tests.rs",):
                res.append(os.path.relpath(os.path.join(base, f), REPO))
    return res


def key_of(site):
    return "|".join([site["file"], site["fn"], site["kind"], site["text"]])


def digest(k):
    return int.from_bytes(hashlib.sha256(k.encode()).digest()[:8], "big")


def scan_all():
    sites = []
    for d in GADGET_DIRS:
        for rel in rust_files(d):
            sites.extend(scan_file(rel, False))
    for rel in rust_files(PROOFS_DIR):
        sites.extend(scan_file(rel, True))
    sites.sort(key=lambda x: (x["file"], x["line"], x["kind"]))
    return sites


def lean_list(xs, per_line=4):
    if not xs:
        return "[]"
    rows = [", ".join(str(x) for x in xs[i:i + per_line]) for i in range(0, len(xs), per_line)]
    return "[\n  " + ",\n  ".join(rows) + "]"


def main():
    dump = "--dump" in sys.argv
    try:
        sites = scan_all()
    except (ParseError, OSError) as e:
        print(f"c09_value_channels: cannot parse the sources: {e}")
        return 2
    if dump:
        for x in sites:
            print(f"{x['file']}:{x['line']} fn {x['fn']} [{x['kind']}] {x['text'][:160]}")
        print(len(sites), "sites")
    allow = json.load(open(ALLOW))["allowed"] if os.path.exists(ALLOW) else []
    if "--init" in sys.argv:
        # (re)write the allow-list skeleton keeping the notes of the entries that still exist
        old = {a["key"]: a for a in allow}
        new = []
        for x in sites:
            k = key_of(x)
            if any(n["key"] == k for n in new):
                continue
            o = old.get(k, {})
            new.append({"key": k, "class": o.get("class", "TODO"), "note": o.get("note", "TODO"),
                        "exercised_by": o.get("exercised_by", "")})
        json.dump({"allowed": new}, open(ALLOW, "w"), indent=1)
        allow = new
    # an entry still marked TODO (written by --init) is not a reviewed entry
    allowed_keys = [a["key"] for a in allow if a.get("class", "TODO") != "TODO"]
    aset = set(allowed_keys)
    new_sites = [x for x in sites if key_of(x) not in aset]
    found_keys = sorted(set(key_of(x) for x in sites))
    stale = sorted(aset - set(found_keys))
    # listing for checks/c09.py
    by_key = {a["key"]: a for a in allow}
    listing = []
    for x in sites:
        a = by_key.get(key_of(x), {})
        listing.append({"where": f"{x['file']}:{x['line']}", "fn": x["fn"], "kind": x["kind"],
                        "class": a.get("class", "NEW"), "exercised_by": a.get("exercised_by", ""),
                        "note": a.get("note", "NOT REVIEWED")})
    with open(FOUND, "w") as fh:
        json.dump({"sites": listing, "stale_allow_entries": stale}, fh, indent=1)
        fh.write("\n")
    ad = sorted(digest(k) for k in aset)
    seen, rows = set(), []
    for x in sites:
        k = key_of(x)
        if k in seen:
            continue
        seen.add(k)
        rows.append(f'("{x["file"]}", "{x["fn"]}", "{x["kind"]}", {digest(k)})')
    classes = {}
    for x in sites:
        c = by_key.get(key_of(x), {}).get("class", "NEW")
        classes[c] = classes.get(c, 0) + 1
    index_fns = sorted({x["fn"] for x in sites if by_key.get(key_of(x), {}).get("class") == "index"})
    with open(OUT, "w") as fh:
        fh.write("/-! GENERATED by translators/c09_value_channels.py from the current Rust sources - do not edit.\n\n")
        fh.write("Value -> structure channels: `found` = (file, enclosing fn, kind, digest) of the sites found now,\n")
        fh.write("the digest being the first 8 bytes of SHA-256 of `file|fn|kind|normalised text`; `allowed` = digests\n")
        fh.write("of the reviewed allow-list `translators/c09_value_channels.allow.json`. -/\n")
        fh.write("namespace MidnightZK.C09.Gen\n\n")
        fh.write(f"/-- {len(rows)} distinct sites ({len(sites)} occurrences). -/\n")
        fh.write("def found : List (String × String × String × Nat) := [\n  " + ",\n  ".join(rows) + "]\n\n")
        fh.write(f"def allowed : List Nat := {lean_list(ad)}\n\n")
        fh.write("/-- Number of occurrences per review class. -/\n")
        fh.write("def classCounts : List (String × Nat) := ["
                 + ", ".join(f'("{c}", {n})' for c, n in sorted(classes.items())) + "]\n\n")
        fh.write("/-- Functions containing a channel of class `index` (a witness value picks a Rust index / a cell). -/\n")
        fh.write("def indexChannelFns : List String := [" + ", ".join(f'"{f}"' for f in index_fns) + "]\n\n")
        fh.write("end MidnightZK.C09.Gen\n")
    if new_sites:
        print("c09_value_channels: NEW value->structure channel(s), not in the reviewed allow-list:")
        for x in new_sites:
            print(f"  {x['file']}:{x['line']} fn {x['fn']} [{x['kind']}] {x['text'][:300]}")
        return 1
    return 0


if __name__ == "__main__":
    sys.exit(main())
