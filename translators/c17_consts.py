#!/usr/bin/env python3
"""Translator for C17: parse what the key (de)serialisers and the transcript identity read from
the sources and write `lean/MidnightZK/Gen/C17Consts.lean`:

* `proofs/src/plonk/mod.rs`: the VK `VERSION` byte, the BLAKE2b personalisation and digest
  length of `VerifyingKey::from_parts`, the header constant of `bytes_length`;
* `curves/src/bls12_381/fq.rs`: MODULUS, S, ROOT_OF_UNITY, ROOT_OF_UNITY_INV, TWO_INV, DELTA, R, ZETA
  (Montgomery limbs as written in the source);
* `curves/src/bls12_381/g1.rs` / `g2.rs`: compressed sizes;
* `zk_stdlib/src/lib.rs`: `ZKSTD_VERSION`, the field order of `ZkStdLibArch` (= its bincode
  layout), the field order of `MidnightVK::write`; `NB_ARITH_COLS` of the native chip.

Python 3 stdlib only. Exits non-zero if a source no longer parses."""
import os
import re
import sys

REPO = os.environ.get("VERIF_REPO", "/repo")
OUT = os.path.normpath(os.path.join(os.path.dirname(os.path.abspath(__file__)), "..", "lean", "MidnightZK", "Gen", "C17Consts.lean"))


def die(msg):
    print("c17_consts: " + msg, file=sys.stderr)
    sys.exit(1)


def limbs_after(src, pattern, n, what):
    m = re.search(pattern, src)
    if not m:
        die(f"cannot find {what}")
    tail = src[m.end():m.end() + 600]
    end = tail.find(";")
    lits = re.findall(r"0x[0-9a-fA-F_]+", tail[: end if end >= 0 else len(tail)])
    if len(lits) < n:
        die(f"{what}: expected {n} limbs, found {len(lits)}")
    return sum(int(x.replace("_", ""), 16) << (64 * i) for i, x in enumerate(lits[:n]))


def main():
    mod = open(os.path.join(REPO, "proofs/src/plonk/mod.rs")).read()
    fq = open(os.path.join(REPO, "curves/src/bls12_381/fq.rs")).read()
    g1 = open(os.path.join(REPO, "curves/src/bls12_381/g1.rs")).read()
    g2 = open(os.path.join(REPO, "curves/src/bls12_381/g2.rs")).read()
    std = open(os.path.join(REPO, "zk_stdlib/src/lib.rs")).read()
    nat = open(os.path.join(REPO, "circuits/src/field/native/native_chip.rs")).read()

    m = re.search(r"const ZKSTD_VERSION: u32 = (\d+);", std)
    if not m:
        die("cannot find ZKSTD_VERSION")
    zkstd_version = int(m.group(1))
    m = re.search(r"pub struct ZkStdLibArch \{(.*?)\n\}", std, re.S)
    if not m:
        die("cannot find ZkStdLibArch")
    arch_fields = re.findall(r"pub (\w+): (\w+),", m.group(1))
    if not arch_fields or any(t not in ("bool", "u8") for _, t in arch_fields):
        die("ZkStdLibArch has a field that is neither bool nor u8")
    m = re.search(r"pub const NB_ARITH_COLS: usize = (\d+);", nat)
    if not m:
        die("cannot find NB_ARITH_COLS")
    nb_arith = int(m.group(1))
    # MidnightVK::write order: architecture, max_bit_len, nb_public_inputs (u32 LE), vk
    w = re.search(r"impl MidnightVK \{.*?pub fn write<W: io::Write>\(&self, writer: &mut W, format: SerdeFormat\) -> io::Result<\(\)> \{(.*?)\n    \}", std, re.S)
    if not w:
        die("cannot find MidnightVK::write")
    body = w.group(1)
    order = [body.find("self.architecture.write(writer)"), body.find("&[self.max_bit_len]"),
             body.find("(self.nb_public_inputs as u32).to_le_bytes()"), body.find("self.vk.write(writer, format)")]
    if -1 in order or order != sorted(order):
        die("MidnightVK::write no longer writes architecture, max_bit_len, nb_public_inputs (LE u32), vk in this order")

    m = re.search(r"const VERSION: u8 = (0x[0-9a-fA-F]+|\d+);", mod)
    if not m:
        die("cannot find VERSION")
    version = int(m.group(1), 0)
    m = re.search(r"Blake2bParams::new\(\)\s*\.hash_length\((\d+)\)\s*\.personal\(b\"([^\"]*)\"\)", mod)
    if not m:
        die("cannot find the BLAKE2b parameters of from_parts")
    hash_len, personal = int(m.group(1)), m.group(2)
    if len(personal) > 16:
        die("personalisation longer than 16 bytes")
    m = re.search(r"pub fn bytes_length\(&self, format: SerdeFormat\) -> usize \{\s*(\d+) \+ \(self\.fixed_commitments", mod)
    if not m:
        die("cannot find VerifyingKey::bytes_length")
    vk_len_header = int(m.group(1))
    # order of the fields written by VerifyingKey::write
    w = re.search(r"pub fn write<W: io::Write>\(&self, writer: &mut W, format: SerdeFormat\) -> io::Result<\(\)> \{(.*?)\n    \}", mod, re.S)
    if not w:
        die("cannot find VerifyingKey::write")
    body = w.group(1)
    order = [body.find("&[VERSION]"), body.find("&[*k as u8]"), body.find("fixed_commitments.len() as u32).to_le_bytes()"),
             body.find("for commitment in &self.fixed_commitments"), body.find("self.permutation.write(writer, format)")]
    if -1 in order or order != sorted(order):
        die("VerifyingKey::write no longer writes version, k, count (LE), fixed commitments, permutation in this order")

    r = limbs_after(fq, r"const MODULUS: \[u64; 4\] = \[", 4, "Fq MODULUS")
    m = re.search(r"pub const S: u32 = (\d+);", fq)
    if not m:
        die("cannot find S")
    s = int(m.group(1))
    mont = {
        "rootOfUnity": limbs_after(fq, r"const ROOT_OF_UNITY: Fq = Fq\(blst_fr \{", 4, "ROOT_OF_UNITY"),
        "rootOfUnityInv": limbs_after(fq, r"const ROOT_OF_UNITY_INV: Fq = Fq\(blst_fr \{", 4, "ROOT_OF_UNITY_INV"),
        "twoInv": limbs_after(fq, r"const TWO_INV: Fq = Fq\(blst_fr \{", 4, "TWO_INV"),
        "delta": limbs_after(fq, r"const DELTA: Fq = Fq\(blst_fr \{", 4, "DELTA"),
        "montR": limbs_after(fq, r"const R: Fq = Fq\(blst_fr \{", 4, "R"),
        "zeta": limbs_after(fq, r"const ZETA: Self = Fq\(blst_fr \{", 4, "ZETA"),
    }
    if r % 2 == 0:
        die("even modulus")

    def size_of(src, what):
        m = re.search(r"pub const COMPRESSED_SIZE: usize = (\d+);", src) or re.search(r"const COMPRESSED_SIZE: usize = (\d+);", src)
        if m:
            return int(m.group(1))
        m = re.search(r"fn to_compressed\(&self\) -> \[u8; (\d+)\]", src)
        if m:
            return int(m.group(1))
        die(f"cannot find the compressed size of {what}")

    g1c, g2c = size_of(g1, "G1"), size_of(g2, "G2")

    out = []
    out.append("/-! GENERATED by translators/c17_consts.py from proofs/src/plonk/mod.rs and curves/src/bls12_381/{fq,g1,g2}.rs of the repository — do not edit. -/")
    out.append("namespace MidnightZK.C17.Gen")
    out.append("")
    out.append("/-- `plonk/mod.rs: const VERSION` -/")
    out.append(f"def vkVersion : Nat := {version}")
    out.append("/-- The constant header length `VerifyingKey::bytes_length` adds. -/")
    out.append(f"def vkBytesLengthHeader : Nat := {vk_len_header}")
    out.append("/-- `from_parts`: `Blake2bParams::new().hash_length(..).personal(..)` -/")
    out.append(f"def treprHashLen : Nat := {hash_len}")
    out.append(f"def treprPersonal : List Nat := [{', '.join(str(b) for b in personal.encode())}]")
    out.append("/-- `Fq::MODULUS` (scalar field of BLS12-381). -/")
    out.append(f"def frModulus : Nat := 0x{r:x}")
    out.append("/-- `Fq::S` (two-adicity). -/")
    out.append(f"def frS : Nat := {s}")
    for name, mv in mont.items():
        out.append(f"/-- Montgomery limbs of `{name}` as written in the source. -/")
        out.append(f"def {name}Mont : Nat := 0x{mv:x}")
    out.append("/-- `zk_stdlib/src/lib.rs: ZKSTD_VERSION` -/")
    out.append(f"def zkstdVersion : Nat := {zkstd_version}")
    out.append("/-- Fields of `ZkStdLibArch` in declaration (= bincode) order, with `true` for `bool`, `false` for `u8`. -/")
    out.append("def archFields : List (String × Bool) := [" + ", ".join(f'("{n}", {"true" if t == "bool" else "false"})' for n, t in arch_fields) + "]")
    out.append("/-- `circuits/src/field/native/native_chip.rs: NB_ARITH_COLS` -/")
    out.append(f"def nbArithCols : Nat := {nb_arith}")
    out.append("/-- Compressed sizes of G1 / G2 elements. -/")
    out.append(f"def g1Compressed : Nat := {g1c}")
    out.append(f"def g2Compressed : Nat := {g2c}")
    out.append("")
    out.append("end MidnightZK.C17.Gen")
    text = "\n".join(out) + "\n"
    os.makedirs(os.path.dirname(OUT), exist_ok=True)
    old = open(OUT).read() if os.path.exists(OUT) else None
    if old != text:
        open(OUT, "w").write(text)


if __name__ == "__main__":
    main()
