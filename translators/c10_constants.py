#!/usr/bin/env python3
"""T-const for property C10: field constants parsed from the Rust sources of /repo/curves.

Reads (never imports/executes) the sources
  curves/src/bls12_381/{fq,fp,fp12}.rs, curves/src/jubjub/fr.rs, curves/src/curve25519/fp.rs,
  curves/src/bn256/{fq,fr,fq2,fq6,fq12}.rs
and writes /verif/lean/MidnightZK/Gen/C10Constants.lean: one Lean `def` per published constant
(limb vectors little-endian, exactly the literals of the source), plus the straight-line program of
the addition chain of `jubjub::Fr::invert`.  Theorems of Props/C10.lean state the defining
equation of every constant over these definitions, so a changed literal breaks a theorem.

Exit status != 0 when a constant can no longer be found / parsed (the source moved away from
the shape this extractor understands): the check then reports a broken translator.
Python 3 stdlib only.
"""
import os
import re
import sys

REPO = os.environ.get("VERIF_REPO", "/repo")
OUT = os.path.join(os.path.dirname(os.path.dirname(os.path.abspath(__file__))),
                   "lean", "MidnightZK", "Gen", "C10Constants.lean")
SRC = os.path.join(REPO, "curves", "src")


class ParseError(Exception):
    pass


def read(rel):
    p = os.path.join(SRC, rel)
    if not os.path.exists(p):
        raise ParseError(f"missing source file {p}")
    return open(p).read()


def strip_comments(src):
    """Remove // line comments and /* */ block comments (string literals in these files never
    contain comment markers except `http://` inside comments, which are removed first)."""
    out, i, n = [], 0, len(src)
    in_str = False
    while i < n:
        c = src[i]
        if in_str:
            out.append(c)
            if c == "\\" and i + 1 < n:
                out.append(src[i + 1])
                i += 2
                continue
            if c == '"':
                in_str = False
            i += 1
        elif c == '"':
            in_str = True
            out.append(c)
            i += 1
        elif src.startswith("//", i):
            while i < n and src[i] != "\n":
                i += 1
        elif src.startswith("/*", i):
            j = src.find("*/", i + 2)
            i = n if j < 0 else j + 2
        else:
            out.append(c)
            i += 1
    return "".join(out)


def cut_tests(src):
    """Drop the trailing `#[cfg(test)] mod …` of a file."""
    m = re.search(r"#\[cfg\(test\)\]\s*(pub(\(crate\))?\s+)?mod\s+\w+\s*\{", src)
    return src[: m.start()] if m else src


NUM = re.compile(r"\b(0x[0-9a-fA-F_]+|[0-9][0-9_]*)(u8|u16|u32|u64|u128|usize|i8|i64)?\b")


def numbers(expr):
    res = []
    for m in NUM.finditer(expr):
        t = m.group(1).replace("_", "")
        res.append(int(t, 16) if t.startswith("0x") else int(t))
    return res


def const_expr(src, name, what):
    """Right-hand side of `const NAME: TYPE = <expr>;` (first occurrence)."""
    m = re.search(r"\bconst\s+" + re.escape(name) + r"\s*:\s*([^=]+?)=\s*", src)
    if not m:
        raise ParseError(f"{what}: const {name} not found")
    i = m.end()
    depth = 0
    j = i
    while j < len(src):
        c = src[j]
        if c in "([{":
            depth += 1
        elif c in ")]}":
            depth -= 1
        elif c == ";" and depth == 0:
            break
        j += 1
    return m.group(1).strip(), src[i:j].strip()


def all_const_exprs(src, name):
    res = []
    for m in re.finditer(r"\bconst\s+" + re.escape(name) + r"\s*:\s*([^=]+?)=\s*", src):
        i = m.end()
        depth, j = 0, i
        while j < len(src):
            c = src[j]
            if c in "([{":
                depth += 1
            elif c in ")]}":
                depth -= 1
            elif c == ";" and depth == 0:
                break
            j += 1
        res.append((m.group(1).strip(), src[i:j].strip()))
    return res


def resolve_limbs(src, name, nlimbs, what, depth=0):
    """Limb vector of a field-element constant, following aliases (`= R`, `= Fp::ONE`,
    `= Self::zero()`, `Fq(blst_fr { l: R2_LIMBS })`)."""
    if depth > 6:
        raise ParseError(f"{what}: alias chain too long at {name}")
    cands = all_const_exprs(src, name)
    if not cands:
        # associated fn `zero()` / `one()`
        raise ParseError(f"{what}: const {name} not found")
    for ty, expr in cands:
        nums = numbers(expr)
        # strip array-length forms such as `[0; 4]`
        if len(nums) == nlimbs and not re.search(r"\[\s*0\s*;", expr):
            return nums
    for ty, expr in cands:
        m = re.fullmatch(r"(?:Self::|F[pqr]::|\w+::)?(\w+)(?:\(\))?", expr)
        if m:
            target = m.group(1)
            alias = {"zero": "ZERO", "one": "ONE"}.get(target, target)
            if alias == name and len(cands) > 1:
                continue
            if alias == "ZERO" and not all_const_exprs(src, "ZERO"):
                return [0] * nlimbs
            if alias == "ONE" and not [c for c in all_const_exprs(src, "ONE") if c[1] != expr]:
                return resolve_limbs(src, "R", nlimbs, what, depth + 1)
            if alias != name:
                try:
                    return resolve_limbs(src, alias, nlimbs, what, depth + 1)
                except ParseError:
                    pass
        m = re.search(r"\b([A-Z][A-Z0-9_]*)\b\s*\}?\s*\)?\s*$", expr)
        if m and m.group(1) != name:
            try:
                return resolve_limbs(src, m.group(1), nlimbs, what, depth + 1)
            except ParseError:
                pass
        if re.search(r"zero\(\)|\[\s*0\s*;", expr):
            return [0] * nlimbs
        if re.search(r"one\(\)", expr):
            return resolve_limbs(src, "R", nlimbs, what, depth + 1)
    raise ParseError(f"{what}: cannot resolve const {name} to {nlimbs} limbs (candidates: {cands})")


def scalar(src, name, what):
    for ty, expr in all_const_exprs(src, name):
        nums = numbers(expr)
        if len(nums) == 1 and re.fullmatch(r"[0-9a-fA-Fx_]+(u8|u16|u32|u64|u128|usize)?", expr):
            return nums[0]
    # alias such as `const S: u32 = S;`
    raise ParseError(f"{what}: scalar const {name} not found")


def modulus_str(src, what):
    m = re.search(r'const\s+MODULUS\s*:\s*&(?:\'static\s+)?str\s*=\s*"(0x[0-9a-fA-F]+)"', src)
    if not m:
        raise ParseError(f"{what}: MODULUS string not found")
    return m.group(1)


def fn_body(src, signature_re, what):
    m = re.search(signature_re, src)
    if not m:
        raise ParseError(f"{what}: fn matching /{signature_re}/ not found")
    i = src.find("{", m.end() - 1)
    depth, j = 0, i
    while j < len(src):
        if src[j] == "{":
            depth += 1
        elif src[j] == "}":
            depth -= 1
            if depth == 0:
                return src[i + 1: j]
        j += 1
    raise ParseError(f"{what}: unbalanced braces")


def first_array(body, what, n):
    for m in re.finditer(r"\[([^\[\]]*)\]", body):
        nums = numbers(m.group(1))
        if len(nums) == n and "0x" in m.group(1):
            return nums
    raise ParseError(f"{what}: no array of {n} hex literals")


def chunks(l, n, what):
    if len(l) % n:
        raise ParseError(f"{what}: {len(l)} literals is not a multiple of {n}")
    return [l[i:i + n] for i in range(0, len(l), n)]


# ---------------------------------------------------------------------------------------------
def lean_list(l):
    return "[" + ", ".join(hex(x) for x in l) + "]"


def lean_list2(ll):
    return "[" + ",\n   ".join(lean_list(l) for l in ll) + "]"


class Out:
    def __init__(self):
        self.lines = []

    def ns(self, name):
        self.lines.append(f"\nnamespace {name}")
        self.cur = name

    def end(self):
        self.lines.append(f"end {self.cur}")

    def limbs(self, name, l, doc):
        self.lines.append(f"/-- {doc} -/\ndef {name} : List Nat := {lean_list(l)}")

    def table(self, name, ll, doc):
        self.lines.append(f"/-- {doc} -/\ndef {name} : List (List Nat) :=\n  {lean_list2(ll)}")

    def nat(self, name, v, doc, hexa=True):
        self.lines.append(f"/-- {doc} -/\ndef {name} : Nat := {hex(v) if hexa else v}")


def bls_fq(o):
    w = "bls12_381/fq.rs"
    s = cut_tests(strip_comments(read(w)))
    o.ns("BlsFq")
    o.limbs("MODULUS", resolve_limbs(s, "MODULUS", 4, w), f"{w}: const MODULUS (little-endian u64 limbs, non-Montgomery)")
    _, e = const_expr(s, "MODULUS_REPR", w)
    rep = numbers(e)
    if len(rep) != 32:
        raise ParseError(f"{w}: MODULUS_REPR has {len(rep)} bytes")
    o.limbs("MODULUS_REPR", rep, f"{w}: const MODULUS_REPR (little-endian bytes)")
    o.nat("MODULUS_STR", int(modulus_str(s, w), 16), f"{w}: PrimeField::MODULUS string")
    o.nat("INV", scalar(s, "INV", w), f"{w}: const INV")
    o.nat("S", scalar(s, "S", w), f"{w}: const S", hexa=False)
    o.nat("NUM_BITS", scalar(s, "NUM_BITS", w), f"{w}: const NUM_BITS", hexa=False)
    for n in ["R", "R2", "R3", "GENERATOR", "ROOT_OF_UNITY", "ROOT_OF_UNITY_INV", "DELTA", "TWO_INV", "ZETA"]:
        o.limbs(n, resolve_limbs(s, n, 4, w), f"{w}: const {n} (Montgomery limbs)")
    body = fn_body(s, r"fn\s+sqrt\s*\(\s*&self\s*\)[^{]*\{", w)
    o.limbs("SQRT_T_MINUS1_OVER2", first_array(body, w + " fn sqrt", 4), f"{w}: fn sqrt, the Tonelli–Shanks exponent (t-1)/2")
    o.end()


def bls_fp(o):
    w = "bls12_381/fp.rs"
    s = cut_tests(strip_comments(read(w)))
    o.ns("BlsFp")
    o.limbs("MODULUS", resolve_limbs(s, "MODULUS", 6, w), f"{w}: const MODULUS")
    _, e = const_expr(s, "MODULUS_REPR", w)
    rep = numbers(e)
    if len(rep) != 48:
        raise ParseError(f"{w}: MODULUS_REPR has {len(rep)} bytes")
    o.limbs("MODULUS_REPR", rep, f"{w}: const MODULUS_REPR (little-endian bytes)")
    o.nat("MODULUS_STR", int(modulus_str(s, w), 16), f"{w}: PrimeField::MODULUS string")
    o.nat("NUM_BITS", scalar(s, "NUM_BITS", w), f"{w}: const NUM_BITS", hexa=False)
    o.nat("S", scalar(s, "S", w), f"{w}: PrimeField::S", hexa=False)
    for n in ["R", "GENERATOR", "TWO_INV", "ZETA_BASE", "ROOT_OF_UNITY", "ROOT_OF_UNITY_INV", "DELTA"]:
        o.limbs(n, resolve_limbs(s, n, 6, w), f"{w}: const {n} (Montgomery limbs)")
    for n, cnt in [("FROBENIUS_COEFF_FP2_C1", 2), ("FROBENIUS_COEFF_FP6_C1", 12), ("FROBENIUS_COEFF_FP6_C2", 12)]:
        _, e = const_expr(s, n, w)
        # drop the `[Fp2; 6]`-style type is not part of expr; literals only
        t = chunks(numbers(e), 6, f"{w}: {n}")
        if len(t) != cnt:
            raise ParseError(f"{w}: {n} has {len(t)} Fp elements, expected {cnt}")
        o.table(n, t, f"{w}: const {n}, flattened to Fp elements (c0, c1 of each Fp2 in order), Montgomery limbs")
    w2 = "bls12_381/fp12.rs"
    s2 = cut_tests(strip_comments(read(w2)))
    _, e = const_expr(s2, "FROBENIUS_COEFF_FP12_C1", w2)
    t = chunks(numbers(e), 6, f"{w2}: FROBENIUS_COEFF_FP12_C1")
    if len(t) != 24:
        raise ParseError(f"{w2}: FROBENIUS_COEFF_FP12_C1 has {len(t)} Fp elements")
    o.table("FROBENIUS_COEFF_FP12_C1", t, f"{w2}: const FROBENIUS_COEFF_FP12_C1, flattened to Fp elements")
    o.end()


def parse_chain(body, what):
    """Straight-line program of `jubjub::Fr::invert`: list of (dst, op, a, b).
    ops: sq dst a | mul dst a b | sqn dst n (n squarings in place)."""
    prog = []
    body = re.sub(r"#\[inline\(always\)\]\s*fn\s+square_assign_multi[^}]*\}[^}]*\}", "", body, flags=re.S)
    stmts = [x.strip() for x in body.split(";") if x.strip()]
    for st in stmts:
        m = re.fullmatch(r"(?:let\s+(?:mut\s+)?)?(\w+)\s*=\s*(\w+)\.square\(\)", st)
        if m:
            prog.append(("sq", m.group(1), m.group(2), ""))
            continue
        m = re.fullmatch(r"(?:let\s+(?:mut\s+)?)?(\w+)\s*=\s*(\w+)\s*\*\s*(\w+)", st)
        if m:
            prog.append(("mul", m.group(1), m.group(2), m.group(3)))
            continue
        m = re.fullmatch(r"square_assign_multi\(\s*&mut\s+(\w+)\s*,\s*(\d+)\s*\)", st)
        if m:
            prog.append(("sqn", m.group(1), m.group(2), ""))
            continue
        m = re.fullmatch(r"(\w+)\.mul_assign\(\s*&?(\w+)\s*\)", st)
        if m:
            prog.append(("mul", m.group(1), m.group(1), m.group(2)))
            continue
        m = re.fullmatch(r"CtOption::new\(\s*(\w+)\s*,.*\)", st, flags=re.S)
        if m:
            prog.append(("ret", m.group(1), "", ""))
            continue
        raise ParseError(f"{what}: statement of the addition chain not understood: {st[:80]!r}")
    if not prog or prog[-1][0] != "ret":
        raise ParseError(f"{what}: addition chain does not end in CtOption::new(result, …)")
    return prog


def jubjub_fr(o):
    w = "jubjub/fr.rs"
    s = cut_tests(strip_comments(read(w)))
    o.ns("JubjubFr")
    o.limbs("MODULUS", resolve_limbs(s, "MODULUS_LIMBS", 4, w), f"{w}: const MODULUS_LIMBS")
    o.nat("MODULUS_STR", int(modulus_str(s, w), 16), f"{w}: PrimeField::MODULUS string")
    o.nat("INV", scalar(s, "INV", w), f"{w}: const INV")
    o.nat("S", scalar(s, "S", w), f"{w}: const S", hexa=False)
    o.nat("NUM_BITS", scalar(s, "MODULUS_BITS", w), f"{w}: const MODULUS_BITS", hexa=False)
    for n in ["R", "R2", "R3", "GENERATOR", "ROOT_OF_UNITY", "ROOT_OF_UNITY_INV", "DELTA", "TWO_INV"]:
        o.limbs(n, resolve_limbs(s, n, 4, w), f"{w}: const {n} (Montgomery limbs)")
    body = fn_body(s, r"pub\s+fn\s+sqrt\s*\(\s*&self\s*\)[^{]*\{", w)
    o.limbs("SQRT_EXP", first_array(body, w + " fn sqrt", 4), f"{w}: fn sqrt, exponent (r+1)/4")
    body = fn_body(s, r"pub\s+fn\s+invert\s*\(\s*&self\s*\)[^{]*\{", w)
    prog = parse_chain(body, w + " fn invert")
    regs = []
    for op, d, a, b in prog:
        for r in (d, a, b):
            if r and not r.isdigit() and r not in regs:
                regs.append(r)
    if "self" not in regs:
        raise ParseError(f"{w}: invert chain never uses self")
    regs.remove("self")
    regs = ["self"] + sorted(regs, key=lambda r: int(r[1:]) if r[1:].isdigit() else 10 ** 6)
    idx = {r: i for i, r in enumerate(regs)}
    ins = []
    for op, d, a, b in prog:
        if op == "sq":
            ins.append(f".sq {idx[d]} {idx[a]}")
        elif op == "mul":
            ins.append(f".mul {idx[d]} {idx[a]} {idx[b]}")
        elif op == "sqn":
            ins.append(f".sqn {idx[d]} {int(a)}")
        elif op == "ret":
            ret = idx[d]
    o.lines.append("/-- One instruction of the addition chain (register indices; register 0 holds `self`). -/\n"
                   "inductive ChainInstr where\n  | sq (dst a : Nat)\n  | mul (dst a b : Nat)\n  | sqn (dst n : Nat)\n  deriving Repr, DecidableEq")
    o.lines.append(f"/-- {w}: fn invert, number of registers (self, t0 … t19). -/\ndef INVERT_NREGS : Nat := {len(regs)}")
    o.lines.append(f"/-- {w}: fn invert, the register returned. -/\ndef INVERT_RET : Nat := {ret}")
    o.lines.append(f"/-- {w}: fn invert, the addition chain as a straight-line program. -/\n"
                   "def INVERT_CHAIN : List ChainInstr :=\n  [" + ",\n   ".join(ins) + "]")
    o.end()


def c25519_fp(o):
    w = "curve25519/fp.rs"
    s = cut_tests(strip_comments(read(w)))
    o.ns("C25519Fp")
    o.limbs("MODULUS", resolve_limbs(s, "MODULUS_LIMBS", 4, w), f"{w}: const MODULUS_LIMBS")
    o.nat("MODULUS_STR", int(modulus_str(s, w), 16), f"{w}: PrimeField::MODULUS string")
    o.nat("INV", scalar(s, "INV", w), f"{w}: const INV")
    o.nat("S", scalar(s, "S", w), f"{w}: const S", hexa=False)
    o.nat("NUM_BITS", scalar(s, "NUM_BITS", w), f"{w}: const NUM_BITS", hexa=False)
    for n in ["R", "R2", "R3", "MULTIPLICATIVE_GENERATOR", "ROOT_OF_UNITY", "ROOT_OF_UNITY_INV", "DELTA", "TWO_INV", "ZETA"]:
        o.limbs(n, resolve_limbs(s, n, 4, w), f"{w}: const {n} (Montgomery limbs)")
    _, e = const_expr(s, "T_SQRT", w)
    if "from_raw" not in e:
        raise ParseError(f"{w}: T_SQRT is no longer built by from_raw")
    o.limbs("T_SQRT_RAW", numbers(e), f"{w}: const T_SQRT = from_raw(…): the canonical (non-Montgomery) limbs")
    o.limbs("SQRT_EXP", resolve_limbs(s, "EXP", 4, w), f"{w}: fn sqrt, const EXP = (p-5)/8")
    o.limbs("HALF_MODULUS", resolve_limbs(s, "HALF_MODULUS", 4, w), f"{w}: fn lexicographically_largest, const HALF_MODULUS")
    o.end()


def bn256(o):
    for fld, ns in [("fq", "Bn256Fq"), ("fr", "Bn256Fr")]:
        w = f"bn256/{fld}.rs"
        s = cut_tests(strip_comments(read(w)))
        m = re.search(r"impl_field!\s*\((.*?)\)\s*;", s, flags=re.S)
        if not m:
            raise ParseError(f"{w}: impl_field! invocation not found")
        args = m.group(1)

        def arg(k):
            mm = re.search(k + r'\s*=\s*"([0-9a-fA-F]+)"', args)
            if not mm:
                raise ParseError(f"{w}: impl_field! argument {k} not found")
            return int(mm.group(1), 16)
        o.ns(ns)
        o.nat("MODULUS", arg("modulus"), f"{w}: impl_field!(modulus = …)")
        o.nat("MUL_GEN", arg("mul_gen"), f"{w}: impl_field!(mul_gen = …)")
        o.nat("ZETA", arg("zeta"), f"{w}: impl_field!(zeta = …) (canonical value)")
        mm = re.search(r"from_uniform\s*=\s*\[([^\]]*)\]", args)
        if not mm:
            raise ParseError(f"{w}: from_uniform not found")
        o.limbs("FROM_UNIFORM", numbers(mm.group(1)), f"{w}: impl_field!(from_uniform = …)")
        o.end()
    o.ns("Bn256Tower")
    w = "bn256/fq2.rs"
    s = cut_tests(strip_comments(read(w)))
    for key, name in [("q_minus_3_over_4", "Q_MINUS_3_OVER_4"), ("q_minus_1_over_2", "Q_MINUS_1_OVER_2")]:
        m = re.search(key + r"\s*:\s*&\[([^\]]*)\]", s)
        if not m or len(numbers(m.group(1))) != 4:
            raise ParseError(f"{w}: {key} not found")
        o.limbs(name, numbers(m.group(1)), f"{w}: QuadExtFieldArith::SQRT, {key}")
    m = re.search(r"NON_RESIDUE\s*:\s*Self\s*=\s*Fq2::new\(\s*Fq::from_raw\(\[([^\]]*)\]\)\s*,\s*Fq::ONE\s*\)", s)
    if not m:
        raise ParseError(f"{w}: NON_RESIDUE = Fq2::new(Fq::from_raw([..]), Fq::ONE) not found")
    o.limbs("FQ2_NON_RESIDUE_C0_RAW", numbers(m.group(1)), f"{w}: ExtField::NON_RESIDUE.c0 (canonical limbs); c1 = 1")
    for fname, n, cnt in [("bn256/fq6.rs", "FROBENIUS_COEFF_FQ6_C1", 12), ("bn256/fq6.rs", "FROBENIUS_COEFF_FQ6_C2", 12),
                          ("bn256/fq12.rs", "FROBENIUS_COEFF_FQ12_C1", 24)]:
        s = cut_tests(strip_comments(read(fname)))
        _, e = const_expr(s, n, fname)
        t = chunks(numbers(e), 4, f"{fname}: {n}")
        if len(t) != cnt:
            raise ParseError(f"{fname}: {n} has {len(t)} Fq elements, expected {cnt}")
        o.table(n, t, f"{fname}: const {n}, flattened to Fq elements (Montgomery limbs, R = 2^256)")
    o.end()


def main():
    o = Out()
    try:
        bls_fq(o)
        bls_fp(o)
        jubjub_fr(o)
        c25519_fp(o)
        bn256(o)
    except ParseError as e:
        print(f"c10_constants: {e}", file=sys.stderr)
        return 1
    hdr = ("/-!\nGENERATED by /verif/translators/c10_constants.py from /repo/curves/src — do not edit.\n"
           "Field constants exactly as written in the Rust sources (limb vectors are little-endian u64).\n-/\n"
           "namespace MidnightZK.C10.Gen")
    text = hdr + "\n" + "\n".join(o.lines) + "\n\nend MidnightZK.C10.Gen\n"
    os.makedirs(os.path.dirname(OUT), exist_ok=True)
    old = open(OUT).read() if os.path.exists(OUT) else None
    if old != text:
        open(OUT, "w").write(text)
    return 0


if __name__ == "__main__":
    sys.exit(main())
