#!/usr/bin/env python3
"""Translator for C03: extract from the repository's CURRENT sources everything the binding model
hand-copies otherwise, and write `lean/MidnightZK/Gen/C03Consts.lean`:

* `proofs/src/transcript/mod.rs`            BLAKE2B_PREFIX_CHALLENGE / BLAKE2B_PREFIX_COMMON;
* `proofs/src/transcript/implementors.rs`   key and digest length of the transcript BLAKE2b state, the order of
                                            `update` calls in `absorb` / `squeeze`;
* `proofs/src/plonk/mod.rs`                 `VERSION`, personalisation and the ORDER in which `from_parts` pushes the
                                            components of a verifying key into the buffer hashed into `transcript_repr`;
                                            the fields of `VerifyingKey`;
* `proofs/src/plonk/circuit.rs`             fields of `ConstraintSystem`, fields printed by
                                            `Debug for PinnedConstraintSystem` (unconditionally / only with challenges);
* `proofs/src/poly/domain.rs`               fields of `PinnedEvaluationDomain`;
* `circuits/src/hash/poseidon/constants/mod.rs`  WIDTH, RATE;
* `circuits/src/field/foreign/params.rs`    LOG2_BASE / NB_LIMBS of BLS12-381's base field emulated over its scalar
                                            field (the Poseidon-transcript input of a G1 point);
* `curves/src/bls12_381/{fq,fp}.rs`         the two moduli.

Python 3 stdlib only. Exits non-zero if a source no longer parses."""
import os
import re
import sys

REPO = os.environ.get("VERIF_REPO", "/repo")
OUT = os.path.normpath(os.path.join(os.path.dirname(os.path.abspath(__file__)), "..", "lean", "MidnightZK", "Gen", "C03Consts.lean"))


def die(msg):
    print("c03_consts: " + msg, file=sys.stderr)
    sys.exit(1)


def rd(rel):
    try:
        return open(os.path.join(REPO, rel)).read()
    except OSError as e:
        die(f"cannot read {rel}: {e}")


def strip_comments(s):
    return re.sub(r"//[^\n]*", "", s)


def body_after(src, start_pat, what):
    """Text of the brace-delimited block that starts at the first `{` after `start_pat`."""
    m = re.search(start_pat, src)
    if not m:
        die(f"cannot find {what}")
    i = src.find("{", m.end() - 1)
    if i < 0:
        die(f"{what}: no block")
    depth = 0
    for j in range(i, len(src)):
        if src[j] == "{":
            depth += 1
        elif src[j] == "}":
            depth -= 1
            if depth == 0:
                return src[i + 1:j]
    die(f"{what}: unbalanced block")


def limbs_after(src, pattern, n, what):
    m = re.search(pattern, src)
    if not m:
        die(f"cannot find {what}")
    tail = src[m.end():m.end() + 600]
    end = tail.find(";")
    lits = re.findall(r"0x[0-9a-fA-F_]+", tail[: end if end >= 0 else len(tail)])
    if len(lits) < n:
        die(f"{what}: expected {n} limbs, found {len(lits)}")
    return sum(int(x.replace("_", ""), 16) << (64 * i) for i, x in enumerate(lits[:n]))


def const_u(src, name, what):
    m = re.search(r"const\s+" + name + r"\s*:\s*\w+\s*=\s*(0x[0-9a-fA-F_]+|\d+)\s*;", src)
    if not m:
        die(f"cannot find const {name} in {what}")
    return int(m.group(1).replace("_", ""), 0)


def struct_fields(src, pat, what):
    b = strip_comments(body_after(src, pat, what))
    out = []
    depth = 0
    cur = ""
    for ch in b:
        if ch in "<([":
            depth += 1
        elif ch in ">)]":
            depth -= 1
        if ch == "," and depth == 0:
            out.append(cur)
            cur = ""
        else:
            cur += ch
    out.append(cur)
    names = []
    for f in out:
        f = re.sub(r"#\[[^\]]*\]", "", f).strip()
        if not f:
            continue
        m = re.match(r"(?:pub(?:\([^)]*\))?\s+)?(\w+)\s*:", f)
        if not m:
            die(f"{what}: cannot parse field {f!r}")
        names.append(m.group(1))
    return names


def lean_str_list(l):
    return "[" + ", ".join('"' + x + '"' for x in l) + "]"


def lean_nat_list(l):
    return "[" + ", ".join(str(x) for x in l) + "]"


def main():
    tmod = rd("proofs/src/transcript/mod.rs")
    timp = rd("proofs/src/transcript/implementors.rs")
    pmod = rd("proofs/src/plonk/mod.rs")
    circ = rd("proofs/src/plonk/circuit.rs")
    dom = rd("proofs/src/poly/domain.rs")
    pconst = rd("circuits/src/hash/poseidon/constants/mod.rs")
    pcpu = rd("circuits/src/hash/poseidon/poseidon_cpu.rs")
    fparams = rd("circuits/src/field/foreign/params.rs")
    fq = rd("curves/src/bls12_381/fq.rs")
    fp = rd("curves/src/bls12_381/fp.rs")

    pre_chal = const_u(tmod, "BLAKE2B_PREFIX_CHALLENGE", "transcript/mod.rs")
    pre_common = const_u(tmod, "BLAKE2B_PREFIX_COMMON", "transcript/mod.rs")

    # --- BLAKE2b transcript state: init / absorb / squeeze
    blk = body_after(timp, r"impl\s+TranscriptHash\s+for\s+Blake2bState\s*", "impl TranscriptHash for Blake2bState")
    init = body_after(blk, r"fn\s+init\s*\(\s*\)\s*->\s*Self\s*", "Blake2bState::init")
    m = re.search(r"hash_length\((\d+)\)", init)
    k = re.search(r'\.key\(b"([^"]*)"\)', init)
    if not m or not k or ".personal(" in init or ".salt(" in init:
        die("Blake2bState::init: expected Params::new().hash_length(N).key(b\"..\").to_state()")
    digest_len = int(m.group(1))
    key = list(k.group(1).encode())
    absorb = strip_comments(body_after(blk, r"fn\s+absorb\s*\([^)]*\)\s*", "Blake2bState::absorb"))
    squeeze = strip_comments(body_after(blk, r"fn\s+squeeze\s*\([^)]*\)\s*->\s*Self::Output\s*", "Blake2bState::squeeze"))

    def updates(body, what):
        ups = re.findall(r"self\.update\(\s*([^;]*?)\s*\)\s*;", body)
        out = []
        for u in ups:
            if re.fullmatch(r"&\[\s*BLAKE2B_PREFIX_COMMON\s*\]", u):
                out.append("prefix_common")
            elif re.fullmatch(r"&\[\s*BLAKE2B_PREFIX_CHALLENGE\s*\]", u):
                out.append("prefix_challenge")
            elif u == "input":
                out.append("input")
            else:
                die(f"{what}: unexpected update argument {u!r}")
        return out

    absorb_ops = updates(absorb, "absorb")
    squeeze_ops = updates(squeeze, "squeeze")
    if "self.finalize()" not in squeeze:
        die("Blake2bState::squeeze: no finalize()")
    squeeze_ops.append("finalize")

    # --- transcript_repr of the verifying key
    version = const_u(pmod, "VERSION", "plonk/mod.rs")
    fp_body = body_after(pmod, r"fn\s+from_parts\s*\(", "VerifyingKey::from_parts")
    # body_after found the argument list's following block? make sure we have the function body
    if "transcript_repr" not in fp_body:
        # the first `{` after `fn from_parts(` is the function body only if the signature has no braces
        die("from_parts: body not found")
    fpb = strip_comments(fp_body)
    pers = re.search(r'\.personal\(b"([^"]*)"\)', fpb)
    hl = re.search(r"hash_length\((\d+)\)", fpb)
    if not pers or not hl or ".key(" in fpb:
        die("from_parts: expected Blake2bParams::new().hash_length(N).personal(b\"..\")")
    # order of buffer writes
    order = []
    pos = []
    pats = [
        (r"buffer\.push\(\s*VERSION\s*\)", "version"),
        (r"buffer\.push\(\s*\*k\s+as\s+u8\s*\)", "k"),
        (r"buffer\.extend_from_slice\(\s*&\(\s*vk\.fixed_commitments\.len\(\)\s+as\s+u32\s*\)\.to_le_bytes\(\)\s*\)", "nfixed"),
        (r"for\s+commitment\s+in\s+&vk\.fixed_commitments\s*\{\s*commitment\s*\.write\(\s*&mut\s+buffer\s*,\s*SerdeFormat::RawBytesUnchecked\s*\)", "fixed"),
        (r"buffer\.extend_from_slice\(\s*&\(\s*vk\.permutation\.commitments\(\)\.len\(\)\s+as\s+u32\s*\)\.to_le_bytes\(\)\s*\)", "nperm"),
        (r"for\s+commitment\s+in\s+vk\.permutation\.commitments\(\)\s*\{\s*commitment\s*\.write\(\s*&mut\s+buffer\s*,\s*SerdeFormat::RawBytesUnchecked\s*\)", "perm"),
        (r'buffer\.extend_from_slice\(\s*format!\(\s*"\{:\?\}"\s*,\s*vk\.get_domain\(\)\.pinned\(\)\s*\)\.as_bytes\(\)\s*\)', "domain"),
        (r'buffer\.extend_from_slice\(\s*format!\(\s*"\{:\?\}"\s*,\s*vk\.cs\(\)\.pinned\(\)\s*\)\.as_bytes\(\)\s*\)', "cs"),
    ]
    for pat, name in pats:
        ms = list(re.finditer(pat, fpb))
        if len(ms) != 1:
            die(f"from_parts: component {name}: {len(ms)} matches")
        pos.append((ms[0].start(), name))
    # every statement touching `buffer` must be one of the above
    n_buf = len(re.findall(r"buffer\s*\.\s*(?:push|extend_from_slice|extend|insert|append|truncate|clear)\b", fpb)) + len(re.findall(r"&mut\s+buffer", fpb))
    if n_buf != len(pats):
        die(f"from_parts: {n_buf} writes to the buffer, {len(pats)} recognised")
    order = [n for _, n in sorted(pos)]
    upd = re.findall(r"hasher\.update\(\s*([^;]*?)\s*\)\s*;", fpb)
    if upd != ["&buffer"]:
        die(f"from_parts: hasher.update calls {upd}")
    if not re.search(r"vk\.transcript_repr\s*=\s*F::from_uniform_bytes\(\s*hasher\.finalize\(\)\.as_array\(\)\s*\)", fpb):
        die("from_parts: transcript_repr assignment not recognised")
    hi = strip_comments(body_after(pmod, r"pub\s+fn\s+hash_into\s*<", "VerifyingKey::hash_into"))
    hash_into = re.findall(r"transcript\.common\(\s*&self\.(\w+)\s*\)", hi)

    vk_fields = struct_fields(pmod, r"pub\s+struct\s+VerifyingKey\s*<[^{]*", "struct VerifyingKey")
    cs_fields = struct_fields(circ, r"pub\s+struct\s+ConstraintSystem\s*<[^{]*", "struct ConstraintSystem")
    pinned_fields = struct_fields(circ, r"pub\s+struct\s+PinnedConstraintSystem\s*<[^{]*", "struct PinnedConstraintSystem")
    dbg = strip_comments(body_after(circ, r"impl\s*<\s*F\s*:\s*Field\s*>\s*std::fmt::Debug\s+for\s+PinnedConstraintSystem", "Debug for PinnedConstraintSystem"))
    # exactly one `if <condition> { ...fields... }` block; the condition is a disjunction of recognised tests
    conds = list(re.finditer(r"\bif\s+([^{}]*?)\{(.*?)\}", dbg, re.S))
    if len(conds) != 1:
        die(f"Debug for PinnedConstraintSystem: expected exactly one conditional block, found {len(conds)}")
    cond = conds[0]
    cond_fields = re.findall(r'\.field\(\s*"(\w+)"', cond.group(2))
    phase_cond = []
    for d in cond.group(1).split("||"):
        d = re.sub(r"\s+", " ", d).strip()
        if re.fullmatch(r"\*num_challenges > &0", d):
            phase_cond.append("num_challenges>0")
        elif re.fullmatch(r"advice_column_phase\.iter\(\)\.any\(\|(\w+)\| \*\1 != FirstPhase\.to_sealed\(\)\)", d):
            phase_cond.append("advice_phase_not_first")
        else:
            die(f"Debug for PinnedConstraintSystem: unrecognised test {d!r} in the condition of the multi-phase fields")
    all_dbg = re.findall(r'\.field\(\s*"(\w+)"', dbg)
    uncond_fields = [f for f in all_dbg if f not in cond_fields]
    if not all_dbg:
        die("Debug for PinnedConstraintSystem: no fields")
    # each printed field must print the pinned member of the same name
    for f in all_dbg:
        if not re.search(r'\.field\(\s*"' + f + r'"\s*,\s*&?' + f + r"\s*\)", dbg):
            die(f"Debug for PinnedConstraintSystem: field {f} does not print the member of the same name")
    nm = re.search(r'f\.debug_struct\(\s*"(\w+)"\s*\)', dbg)
    if not nm:
        die("Debug for PinnedConstraintSystem: debug_struct name not found")
    json_name = '"' + nm.group(1) + '"'
    advd = strip_comments(body_after(circ, r"impl\s+std::fmt::Debug\s+for\s+Advice\s*", "Debug for Advice"))
    adv_cond = bool(re.search(r'if\s+self\.phase\s*!=\s*FirstPhase\.to_sealed\(\)\s*\{\s*debug_struct\.field\(\s*"phase"\s*,\s*&self\.phase\s*\)\s*;\s*\}', advd))
    if len(re.findall(r'\.field\(', advd)) != 1:
        die("Debug for Advice: expected exactly one (conditional) field")
    pin = strip_comments(body_after(circ, r"pub\s+fn\s+pinned\s*\(\s*&self\s*\)\s*->\s*PinnedConstraintSystem", "ConstraintSystem::pinned"))
    for f in pinned_fields:
        if not re.search(r"\b" + f + r"\s*:\s*(?:&self\." + f + r"\b|PinnedGates\(\s*&self\." + f + r"\s*\))", pin):
            die(f"ConstraintSystem::pinned: member {f} is not taken from self.{f}")
    dom_fields = struct_fields(dom, r"pub\s+struct\s+PinnedEvaluationDomain\s*<[^{]*", "struct PinnedEvaluationDomain")
    dpin = strip_comments(body_after(dom, r"pub\s+fn\s+pinned\s*\(\s*&self\s*\)\s*->\s*PinnedEvaluationDomain", "EvaluationDomain::pinned"))
    for f in dom_fields:
        if not re.search(r"\b" + f + r"\s*:\s*&self\." + f + r"\b", dpin):
            die(f"EvaluationDomain::pinned: member {f} is not taken from self.{f}")
    if not re.search(r"#\[derive\([^\]]*Debug[^\]]*\)\]\s*pub\s+struct\s+PinnedEvaluationDomain", dom):
        die("PinnedEvaluationDomain: Debug is not derived")

    # --- Poseidon sponge / emulation parameters
    width = const_u(pconst, "WIDTH", "poseidon constants")
    rate = const_u(pconst, "RATE", "poseidon constants")
    ini = strip_comments(body_after(pcpu, r"fn\s+init\s*\(\s*input_len\s*:\s*Option<usize>\s*\)\s*->\s*Self::StateCPU\s*", "SpongeCPU::init"))
    cap = re.search(r"register\[RATE\]\s*=\s*F::from_u128\(\s*input_len\.map\(\|l\|\s*l\s+as\s+u128\)\.unwrap_or\(\s*1\s*<<\s*(\d+)\s*\)\s*\)", ini)
    if not cap:
        die("SpongeCPU::init: capacity initialisation not recognised")
    thi = strip_comments(body_after(pcpu, r"impl\s*<\s*F\s*:\s*PoseidonField\s*>\s*TranscriptHash\s+for\s+PoseidonState\s*<\s*F\s*>\s*", "TranscriptHash for PoseidonState"))
    if not re.search(r"fn\s+init\s*\(\s*\)\s*->\s*Self\s*\{\s*PoseidonChip::init\(\s*None\s*\)", thi):
        die("TranscriptHash for PoseidonState: init is not PoseidonChip::init(None)")
    em = re.search(r"impl\s+FieldEmulationParams\s*<\s*midnight_curves::Fq\s*,\s*midnight_curves::Fp\s*>\s*for\s+MultiEmulationParams\s*\{(.*?)\n\}", fparams, re.S)
    if not em:
        die("FieldEmulationParams<Fq, Fp> for MultiEmulationParams not found")
    log2_base = const_u(em.group(1), "LOG2_BASE", "emulation params")
    nb_limbs = const_u(em.group(1), "NB_LIMBS", "emulation params")

    r = limbs_after(fq, r"const MODULUS: \[u64; 4\] = \[", 4, "Fq MODULUS")
    p = limbs_after(fp, r"const MODULUS: \[u64; NUM_LIMBS\] = \[", 6, "Fp MODULUS")

    o = []
    o.append("/-! GENERATED by translators/c03_consts.py from the repository's sources (transcript/mod.rs, transcript/implementors.rs,")
    o.append("plonk/mod.rs, plonk/circuit.rs, poly/domain.rs, poseidon constants, foreign-field params, fq.rs, fp.rs) — do not edit. -/")
    o.append("namespace MidnightZK.C03.Gen")
    o.append("")
    o.append("/-- `BLAKE2B_PREFIX_CHALLENGE` (transcript/mod.rs). -/")
    o.append(f"def blakePrefixChallenge : Nat := {pre_chal}")
    o.append("/-- `BLAKE2B_PREFIX_COMMON` (transcript/mod.rs). -/")
    o.append(f"def blakePrefixCommon : Nat := {pre_common}")
    o.append("/-- `update` calls of `Blake2bState::absorb`, in order. -/")
    o.append(f"def blakeAbsorbOps : List String := {lean_str_list(absorb_ops)}")
    o.append("/-- `update` calls (then `finalize`) of `Blake2bState::squeeze`, in order. -/")
    o.append(f"def blakeSqueezeOps : List String := {lean_str_list(squeeze_ops)}")
    o.append("/-- Key of the transcript BLAKE2b state (`Blake2bState::init`). -/")
    o.append(f"def blakeKey : List Nat := {lean_nat_list(key)}")
    o.append("/-- Digest length of the transcript BLAKE2b state. -/")
    o.append(f"def blakeDigestLen : Nat := {digest_len}")
    o.append("")
    o.append("/-- `VERSION` of plonk/mod.rs (first byte of the hashed buffer). -/")
    o.append(f"def vkVersion : Nat := {version}")
    o.append("/-- Personalisation of the BLAKE2b instance deriving `transcript_repr`. -/")
    o.append(f"def vkPersonal : List Nat := {lean_nat_list(list(pers.group(1).encode()))}")
    o.append("/-- Digest length of that instance. -/")
    o.append(f"def vkDigestLen : Nat := {int(hl.group(1))}")
    o.append("/-- Components written to the hashed buffer by `VerifyingKey::from_parts`, in source order. -/")
    o.append(f"def vkInputOrder : List String := {lean_str_list(order)}")
    o.append("/-- Fields of `VerifyingKey` passed to `transcript.common` by `hash_into`. -/")
    o.append(f"def vkHashInto : List String := {lean_str_list(hash_into)}")
    o.append("/-- Fields of `struct VerifyingKey`. -/")
    o.append(f"def vkFields : List String := {lean_str_list(vk_fields)}")
    o.append("/-- Fields of `struct ConstraintSystem`. -/")
    o.append(f"def csFields : List String := {lean_str_list(cs_fields)}")
    o.append("/-- Members of `PinnedConstraintSystem` (each taken from the field of the same name by `pinned()`). -/")
    o.append(f"def csPinnedFields : List String := {lean_str_list(pinned_fields)}")
    o.append("/-- Fields always printed by `Debug for PinnedConstraintSystem`, in order. -/")
    o.append(f"def csDebugAlways : List String := {lean_str_list(uncond_fields)}")
    o.append("/-- Fields printed only when `num_challenges > 0`. -/")
    o.append(f"def csDebugWithChallenges : List String := {lean_str_list(cond_fields)}")
    o.append("/-- All fields printed by `Debug for PinnedConstraintSystem` in source order, with `true` for those inside the")
    o.append("conditional block (condition: `csDebugPhaseCondition`); the struct name given to `debug_struct`. -/")
    o.append("def csDebugOrder : List (String × Bool) := [" + ", ".join('("' + f + '", ' + ("true" if f in cond_fields else "false") + ")" for f in all_dbg) + "]")
    o.append(f"def csDebugName : String := {json_name}")
    o.append("/-- Disjuncts of the condition under which the flagged fields are printed: `num_challenges>0` = `*num_challenges > &0`,")
    o.append("`advice_phase_not_first` = `advice_column_phase.iter().any(|p| *p != FirstPhase.to_sealed())`. -/")
    o.append(f"def csDebugPhaseCondition : List String := {lean_str_list(phase_cond)}")
    o.append("/-- Fields printed by `Debug for Advice` and the condition of the `phase` field (`self.phase != FirstPhase`). -/")
    o.append(f"def advicePhaseShownOnlyIfLater : Bool := {'true' if adv_cond else 'false'}")
    o.append("/-- Members of `PinnedEvaluationDomain` (derived `Debug`). -/")
    o.append(f"def domainPinnedFields : List String := {lean_str_list(dom_fields)}")
    o.append("")
    o.append("/-- Poseidon `WIDTH` / `RATE`. -/")
    o.append(f"def poseidonWidth : Nat := {width}")
    o.append(f"def poseidonRate : Nat := {rate}")
    o.append("/-- log2 of the capacity register's initial value in the unbounded mode (`1 << 64`). -/")
    o.append(f"def poseidonCapacityLog2 : Nat := {int(cap.group(1))}")
    o.append("/-- `LOG2_BASE` / `NB_LIMBS` of `FieldEmulationParams<Fq, Fp> for MultiEmulationParams`. -/")
    o.append(f"def emLog2Base : Nat := {log2_base}")
    o.append(f"def emNbLimbs : Nat := {nb_limbs}")
    o.append("/-- `Fq::MODULUS` (scalar field) and `Fp::MODULUS` (base field). -/")
    o.append(f"def fqModulus : Nat := 0x{r:x}")
    o.append(f"def fpModulus : Nat := 0x{p:x}")
    o.append("")
    o.append("end MidnightZK.C03.Gen")
    text = "\n".join(o) + "\n"
    os.makedirs(os.path.dirname(OUT), exist_ok=True)
    old = open(OUT).read() if os.path.exists(OUT) else None
    if old != text:
        open(OUT, "w").write(text)


if __name__ == "__main__":
    main()
