#!/usr/bin/env python3
"""Translator of property C16: regenerates lean/MidnightZK/Gen/C16Consts.lean from /repo's sources.

Parsed (python3 stdlib only; exits non-zero when a source no longer has the expected form):
  * curves/src/bls12_381/fp.rs, fq.rs      MODULUS limb arrays (base prime p, scalar prime r), S
  * proofs/src/plonk/mod.rs                VERSION byte; the order and form of the header checks
                                           of VerifyingKey::read_from_cs (version, k <= S, extended
                                           domain, fixed-commitment count)
  * zk_stdlib/src/lib.rs                   ZKSTD_VERSION, the field list of ZkStdLibArch (= bincode
                                           layout), the pow2range bound of ZkStdLibArch::read, the
                                           `nb_advice_cols` / `nb_fixed_cols` lists of
                                           ZkStdLib::configure and every `advice_columns[..]` /
                                           `fixed_columns[..]` slice it takes (with its guard)
  * zkir/src/instructions/arity.rs         input/output arity tables of the IR operations
  * zkir/src/zkir.rs                       PROGRAM_DECODING_LIMIT of read_relation
  * zkir/src/instructions/operations/mod.rs, zkir/src/types.rs   variant order (bincode tags)
"""
import os
import re
import sys

REPO = os.environ.get("VERIF_REPO", "/repo")
OUT = os.path.join(os.path.dirname(os.path.dirname(os.path.abspath(__file__))),
                   "lean", "MidnightZK", "Gen", "C16Consts.lean")


def die(msg):
    print("c16_consts: " + msg, file=sys.stderr)
    sys.exit(1)


def read(rel):
    p = os.path.join(REPO, rel)
    if not os.path.exists(p):
        die(f"missing source {rel}")
    return open(p).read()


def strip_comments(s):
    s = re.sub(r"/\*.*?\*/", "", s, flags=re.S)
    return re.sub(r"//[^\n]*", "", s)


def limbs(src, rel, name="MODULUS"):
    m = re.search(r"const\s+" + name + r"\s*:\s*\[u64;[^\]]*\]\s*=\s*\[(.*?)\];", src, re.S)
    if not m:
        die(f"{rel}: const {name} limb array not found")
    ls = [int(x.replace("_", ""), 16) for x in re.findall(r"0x[0-9a-fA-F_]+", m.group(1))]
    return sum(l << (64 * i) for i, l in enumerate(ls)), len(ls)


def split_top(s):
    """split at top-level commas (parentheses, brackets and generic angle brackets nest)"""
    out, depth, cur = [], 0, ""
    i = 0
    while i < len(s):
        c = s[i]
        if c in "([{<":
            depth += 1
        elif c in ")]}>":
            depth -= 1
        if c == "," and depth == 0:
            out.append(cur)
            cur = ""
        else:
            cur += c
        i += 1
    if cur.strip():
        out.append(cur)
    return [x.strip() for x in out if x.strip()]


def body_of(src, header_re, rel):
    """text of the brace block that follows the first match of header_re"""
    m = re.search(header_re, src)
    if not m:
        die(f"{rel}: `{header_re}` not found")
    i = src.index("{", m.end() - 1)
    depth, j = 0, i
    while j < len(src):
        if src[j] == "{":
            depth += 1
        elif src[j] == "}":
            depth -= 1
            if depth == 0:
                return src[i + 1:j]
        j += 1
    die(f"{rel}: unbalanced braces after `{header_re}`")


# ---------------------------------------------------------------------------------------------
fp_src = read("curves/src/bls12_381/fp.rs")
fq_src = read("curves/src/bls12_381/fq.rs")
P, nlp = limbs(fp_src, "fp.rs")
R, nlr = limbs(fq_src, "fq.rs")
if nlp != 6 or nlr != 4:
    die("unexpected limb counts")
m = re.search(r"pub const S: u32 = (\d+);", fq_src)
if not m:
    die("fq.rs: S not found")
S = int(m.group(1))

# --- VerifyingKey::read_from_cs -------------------------------------------------------------
plonk = strip_comments(read("proofs/src/plonk/mod.rs"))
m = re.search(r"const VERSION: u8 = (0x[0-9a-fA-F]+|\d+);", plonk)
if not m:
    die("plonk/mod.rs: VERSION not found")
VK_VERSION = int(m.group(1), 0)
rf = body_of(plonk, r"pub fn read_from_cs<[^{]*", "plonk/mod.rs")
steps = []
for pat, tag in [
    (r"if VERSION != version_byte\[0\]", "version"),
    (r"if k as u32 > F::S\b", "kRange"),
    (r"if extended_k > F::S\b", "kExtended"),
    (r"EvaluationDomain::new\(", "domain"),
    (r"if num_fixed_columns as usize != cs\.num_fixed_columns \+ cs\.num_selectors", "nFixed"),
    (r"CS::Commitment::read\(reader, format\)", "fixedCommitments"),
    (r"permutation::VerifyingKey::read\(reader, &cs\.permutation, format\)", "permCommitments"),
]:
    mm = re.search(pat, rf)
    if not mm:
        die(f"plonk/mod.rs read_from_cs: step `{tag}` ({pat}) not found")
    steps.append((mm.start(), tag))
order = [t for _, t in sorted(steps)]
if order != ["version", "kRange", "kExtended", "domain", "nFixed", "fixedCommitments", "permCommitments"]:
    die(f"plonk/mod.rs read_from_cs: unexpected order of header steps {order}")
if not re.search(r"while \(1u64 << extended_k\) < \(1u64 << k\) \* quotient_poly_degree", rf) or \
        not re.search(r"quotient_poly_degree = \(cs\.degree\(\) as u64\)\.saturating_sub\(1\)", rf):
    die("plonk/mod.rs read_from_cs: extended-domain computation has an unexpected form")
if not re.search(r"u32::from_le_bytes\(num_fixed_columns\)", rf):
    die("plonk/mod.rs read_from_cs: fixed-commitment count is no longer a little-endian u32")

# --- ZkStdLibArch / ZkStdLib::configure -------------------------------------------------------
std = strip_comments(read("zk_stdlib/src/lib.rs"))
m = re.search(r"const ZKSTD_VERSION: u32 = (\d+);", std)
if not m:
    die("zk_stdlib: ZKSTD_VERSION not found")
ZKSTD_VERSION = int(m.group(1))
sb = body_of(std, r"pub struct ZkStdLibArch\s*", "zk_stdlib/src/lib.rs")
fields = re.findall(r"pub\s+(\w+)\s*:\s*(\w+)\s*,", sb)
if [t for _, t in fields] != ["bool"] * 11 + ["u8"] or fields[-1][0] != "nr_pow2range_cols":
    die(f"zk_stdlib: ZkStdLibArch has an unexpected field list {fields}")
bool_fields = [n for n, t in fields if t == "bool"]
rd = body_of(std, r"pub fn read<R: io::Read>\(reader: &mut R\) -> io::Result<Self>\s*", "zk_stdlib/src/lib.rs")
if "u32::from_le_bytes(version)" not in rd or not re.search(r"\b1 =>", rd):
    die("zk_stdlib: ZkStdLibArch::read version handling has an unexpected form")
m = re.search(r"if arch\.nr_pow2range_cols as usize >= (\w+)", rd)
if not m:
    die("zk_stdlib: ZkStdLibArch::read no longer bounds nr_pow2range_cols")
POW2_BOUND = m.group(1)

cfg = body_of(std, r"pub fn configure\(meta: &mut ConstraintSystem<F>, arch: ZkStdLibArch\) -> ZkStdLibConfig\s*",
              "zk_stdlib/src/lib.rs")
consts = []  # names of the column-count constants, in order of first appearance


def cname(n):
    if n not in consts:
        consts.append(n)
    return "c." + n


def guard_expr(g):
    """`arch.x` / `(arch.a || arch.b)` / `arch.a || arch.b || arch.c` -> Lean Bool expression"""
    g = g.strip()
    if g.startswith("(") and g.endswith(")"):
        g = g[1:-1]
    parts = [p.strip() for p in g.split("||")]
    out = []
    for p in parts:
        mm = re.fullmatch(r"arch\.(\w+)", p)
        if not mm or mm.group(1) not in bool_fields:
            die(f"zk_stdlib configure: unexpected guard `{g}`")
        out.append("a." + lean_field(mm.group(1)))
    return " || ".join(out) if len(out) > 1 else out[0]


def lean_field(n):
    parts = n.split("_")
    return parts[0] + "".join(p[:1].upper() + p[1:] for p in parts[1:])


def entry_expr(e, which):
    e = " ".join(e.split())
    mm = re.fullmatch(r"(\w+)", e)
    if mm:
        return "true", cname(e)
    if e == "arch.nr_pow2range_cols as usize + 1":
        return "true", "a.nrPow2rangeCols + 1"
    mm = re.fullmatch(r"(\(?arch\.[\w .|()]*?\)?) as usize \* (\w+)", e)
    if mm:
        return guard_expr(mm.group(1)), cname(mm.group(2))
    mm = re.fullmatch(r"arch\.(\w+) as usize \* max\((.*)\)", e)
    if mm:
        # opaque value computed by generic functions of the circuits crate
        return guard_expr("arch." + mm.group(1)), cname("NB_" + mm.group(1).upper() + "_COLS")
    die(f"zk_stdlib configure: unexpected entry `{e}` in {which}")


def list_entries(name):
    mm = re.search(r"let " + name + r" = \[(.*?)\]\s*\.into_iter\(\)\s*\.max\(\)\s*\.unwrap_or\(0\);", cfg, re.S)
    if not mm:
        die(f"zk_stdlib configure: `{name}` max-list not found")
    return [entry_expr(e, name) for e in split_top(mm.group(1))]


adv_list = list_entries("nb_advice_cols")
fix_list = list_entries("nb_fixed_cols")
if not re.search(r"let advice_columns = \(0\.\.nb_advice_cols\)\.map\(\|_\| meta\.advice_column\(\)\)", cfg) or \
        not re.search(r"let fixed_columns = \(0\.\.nb_fixed_cols\)\.map\(\|_\| meta\.fixed_column\(\)\)", cfg):
    die("zk_stdlib configure: column vectors are no longer created from nb_advice_cols / nb_fixed_cols")

# every slice / index taken from the two column vectors, with the guard of its statement
uses = {"advice_columns": [], "fixed_columns": []}
stmts = re.split(r"\n {8}let\s+", cfg)  # top-level statements of the body
for st in stmts:
    mg = re.match(r"\w+\s*=\s*(.*?)\.then\(", st, re.S)
    guard = guard_expr(mg.group(1)) if mg and "arch." in mg.group(1) and len(mg.group(1)) < 80 else "true"
    for vec in uses:
        for mm in re.finditer(vec + r"\[([^\]]*)\]", st):
            ix = " ".join(mm.group(1).split())
            if re.fullmatch(r"\.\.(\w+)", ix):
                need = cname(ix[2:])
            elif re.fullmatch(r"(\d+)\.\.(\w+)", ix):
                need = cname(ix.split("..")[1])
            elif ix == "1..=arch.nr_pow2range_cols as usize":
                need = "a.nrPow2rangeCols + 1"
            elif re.fullmatch(r"\d+", ix):
                need = str(int(ix) + 1)
            else:
                die(f"zk_stdlib configure: unexpected index `{vec}[{ix}]`")
            uses[vec].append((guard, need))
        # whole-vector hand-over to a chip that sizes itself with an opaque column count
        for mm in re.finditer(r"(\w+)::configure\(meta,(?: &base_config,)? &" + vec + r"\)", st):
            chip = mm.group(1)
            if guard == "true":
                die(f"zk_stdlib configure: unguarded whole-vector use by {chip}")
            mf = re.fullmatch(r"arch\.(\w+)", mg.group(1).strip())
            if not mf:
                die(f"zk_stdlib configure: whole-vector use by {chip} under a compound guard")
            # the chip sizes itself with the generic column-count functions that the matching
            # `max(..)` entry of the list evaluates: same opaque constant (assumption, see Props)
            uses[vec].append((guard, cname("NB_" + mf.group(1).upper() + "_COLS")))
if len(uses["advice_columns"]) < 10 or len(uses["fixed_columns"]) < 4:
    die("zk_stdlib configure: too few column-slice uses found (parser out of date)")

# --- ZKIR ---------------------------------------------------------------------------------------
ar = strip_comments(read("zkir/src/instructions/arity.rs"))
ops_src = strip_comments(read("zkir/src/instructions/operations/mod.rs"))
ob = body_of(ops_src, r"pub enum Operation\s*", "zkir operations/mod.rs")
op_variants = re.findall(r"^\s*(\w+)(\([\w]+\))?,", ob, re.M)
op_names = [n for n, _ in op_variants]
op_payload = {n: p.strip("()") for n, p in op_variants}
ty_src = strip_comments(read("zkir/src/types.rs"))
tb = body_of(ty_src, r"pub enum IrType\s*", "zkir types.rs")
ty_variants = re.findall(r"^\s*(\w+)(\([\w]+\))?,", tb, re.M)
if [n for n, _ in ty_variants] != ["Bool", "Bytes", "Native", "BigUint", "JubjubPoint", "JubjubScalar"]:
    die(f"zkir: unexpected IrType variants {ty_variants}")
if dict(ty_variants) != {"Bool": "", "Bytes": "(usize)", "Native": "", "BigUint": "(u32)", "JubjubPoint": "",
                         "JubjubScalar": ""}:
    die(f"zkir: unexpected IrType payloads {ty_variants}")
for n, p in op_payload.items():
    if p not in ("", "IrType", "u64", "usize"):
        die(f"zkir: unexpected payload of Operation::{n}: {p}")


def arity_table(fn):
    b = body_of(ar, r"fn " + fn + r"\(&self\) -> Arity\s*", "zkir arity.rs")
    tab = {}
    for mm in re.finditer(r"(\w+)(?:\(_\))?\s*=>\s*(Fixed\((\d+)\)|Some|SomeEven)\s*,", b):
        tab[mm.group(1)] = ("fixed " + mm.group(3)) if mm.group(3) is not None else \
            ("some" if mm.group(2) == "Some" else "someEven")
    if sorted(tab) != sorted(op_names):
        die(f"zkir arity.rs: {fn} does not cover the operations {sorted(set(op_names) ^ set(tab))}")
    return tab


in_ar, out_ar = arity_table("input_arity"), arity_table("output_arity")
chk = body_of(ar, r"fn check\(self, len: usize, op: &Operation\) -> Result<\(\), Error>\s*", "zkir arity.rs")
for pat in [r"Arity::Fixed\(n\) if n != len", r"Arity::Some if len == 0", r"Arity::SomeEven if len % 2 != 0 \|\| len == 0"]:
    if not re.search(pat, chk):
        die(f"zkir arity.rs: Arity::check no longer contains `{pat}`")
zk = strip_comments(read("zkir/src/zkir.rs"))
m = re.search(r"const PROGRAM_DECODING_LIMIT: usize = 1 << (\d+);", zk)
if not m or "with_limit::<PROGRAM_DECODING_LIMIT>()" not in zk:
    die("zkir.rs: read_relation no longer decodes with PROGRAM_DECODING_LIMIT")
IR_LIMIT_LOG2 = int(m.group(1))

# --- emit ----------------------------------------------------------------------------------------
L = []
w = L.append
w("/-! GENERATED by translators/c16_consts.py from /repo's sources — do not edit. -/")
w("namespace MidnightZK.C16.Gen")
w("")
w("/-- BLS12-381 base-field modulus (`curves/src/bls12_381/fp.rs: MODULUS`). -/")
w(f"def fpModulus : Nat := 0x{P:x}")
w("/-- BLS12-381 scalar-field modulus (`curves/src/bls12_381/fq.rs: MODULUS`). -/")
w(f"def fqModulus : Nat := 0x{R:x}")
w("/-- Two-adicity of the scalar field (`fq.rs: S`). -/")
w(f"def fqS : Nat := {S}")
w("/-- `proofs/src/plonk/mod.rs: VERSION`. -/")
w(f"def vkVersion : Nat := {VK_VERSION}")
w("/-- `zk_stdlib/src/lib.rs: ZKSTD_VERSION`. -/")
w(f"def zkStdVersion : Nat := {ZKSTD_VERSION}")
w("/-- `zkir/src/zkir.rs: PROGRAM_DECODING_LIMIT` (bytes). -/")
w(f"def irDecodingLimit : Nat := 2 ^ {IR_LIMIT_LOG2}")
w("")
w("/-- `ZkStdLibArch` (field order = bincode layout). -/")
w("structure Arch where")
for n in bool_fields:
    w(f"  {lean_field(n)} : Bool")
w("  nrPow2rangeCols : Nat")
w("  deriving Repr, DecidableEq, Inhabited")
w("")
w("/-- Names of the Boolean fields, in layout order. -/")
w("def archBoolFields : List String := [" + ", ".join(f'"{n}"' for n in bool_fields) + "]")
w("")
w("/-- Build an `Arch` from its Booleans in layout order (missing entries are `false`). -/")
w("def Arch.ofBools (bs : List Bool) (nr : Nat) : Arch :=")
w("  { " + ", ".join(f"{lean_field(n)} := bs.getD {i} false" for i, n in enumerate(bool_fields)) + ", nrPow2rangeCols := nr }")
w("")
w("def Arch.bools (a : Arch) : List Bool := [" + ", ".join("a." + lean_field(n) for n in bool_fields) + "]")
w("")
w("/-- Column-count constants of the chips (values are supplied by the running code). -/")
w("structure ColConsts where")
for n in consts:
    w(f"  {n} : Nat")
w("  deriving Repr, Inhabited")
w("")
w("def colConstNames : List String := [" + ", ".join(f'"{n}"' for n in consts) + "]")
w("")
w("def ColConsts.ofList (l : List Nat) : ColConsts :=")
w("  { " + ", ".join(f"{n} := l.getD {i} 0" for i, n in enumerate(consts)) + " }")
w("")
w("/-- The bound of `ZkStdLibArch::read` on `nr_pow2range_cols` (rejects `>=`). -/")
w(f"def pow2Bound (c : ColConsts) : Nat := c.{POW2_BOUND}")
w("")
for nm, lst, doc in [("adviceEntries", adv_list, "nb_advice_cols"), ("fixedEntries", fix_list, "nb_fixed_cols")]:
    w(f"/-- Entries `(guard, count)` of the `{doc}` list of `ZkStdLib::configure` (an entry counts `0` when its guard is false). -/")
    w(f"def {nm} (c : ColConsts) (a : Arch) : List (Bool × Nat) := [")
    w(",\n".join(f"  ({g}, {e})" for g, e in lst))
    w("]")
    w("")
for nm, vec in [("adviceUses", "advice_columns"), ("fixedUses", "fixed_columns")]:
    w(f"/-- Every slice/index `ZkStdLib::configure` takes from `{vec}`: `(guard, columns needed)`. -/")
    w(f"def {nm} (c : ColConsts) (a : Arch) : List (Bool × Nat) := [")
    w(",\n".join(f"  ({g}, {e})" for g, e in uses[vec]))
    w("]")
    w("")
w("/-- Arity classes of `zkir/src/instructions/arity.rs`. -/")
w("inductive Arity where")
w("  | fixed (n : Nat) | some | someEven")
w("  deriving Repr, DecidableEq")
w("")
w("/-- IR operations in declaration order (= bincode variant index), with payload kind")
w("(`0` none, `1` IrType, `2` u64, `3` usize). -/")
w("def irOps : List (String × Nat) := [" + ", ".join(
    f'("{n}", {dict([("", 0), ("IrType", 1), ("u64", 2), ("usize", 3)])[op_payload[n]]})' for n in op_names) + "]")
w("")
w("open Arity in")
w("def irInputArity : List Arity := [" + ", ".join(in_ar[n] if in_ar[n].startswith("some") else f"fixed {in_ar[n].split()[1]}" for n in op_names) + "]")
w("open Arity in")
w("def irOutputArity : List Arity := [" + ", ".join(out_ar[n] if out_ar[n].startswith("some") else f"fixed {out_ar[n].split()[1]}" for n in op_names) + "]")
w("")
w("/-- IrType variants in declaration order with payload kind (`0` none, `3` usize, `4` u32). -/")
w('def irTypes : List (String × Nat) := [("Bool", 0), ("Bytes", 3), ("Native", 0), ("BigUint", 4), ("JubjubPoint", 0), ("JubjubScalar", 0)]')
w("")
w("end MidnightZK.C16.Gen")
os.makedirs(os.path.dirname(OUT), exist_ok=True)
new = "\n".join(L) + "\n"
old = open(OUT).read() if os.path.exists(OUT) else None
if old != new:
    open(OUT, "w").write(new)
print(f"c16_consts: wrote {OUT} ({len(consts)} column constants, {len(uses['advice_columns'])}+{len(uses['fixed_columns'])} slice uses, {len(op_names)} IR ops)")
