#!/usr/bin/env python3
"""Translator for C03 (verification entry points): re-read from the repository's CURRENT sources where the
"no trailing bytes" check (`Transcript::assert_empty`) is applied and to WHICH transcript variable, and write
`lean/MidnightZK/Gen/C03Sites.lean`.

For every function of `zk_stdlib/src/lib.rs` and `zk_stdlib/src/utils/plonk_api.rs` (the verification entry points
of the property's anchors) that calls `prepare::<..>(.., &mut T)`:

* the variable `T` handed to `prepare` (the transcript the proof is read from);
* the variable initialised by `CircuitTranscript::init_from_bytes(<proof>)`, and the name of `<proof>`;
* every call `<recv>.assert_empty()` of that function: its receiver, whether it comes textually after the
  `prepare` call, whether it is followed by `?` (its error is propagated), and its nesting depth relative to the
  `prepare` statement (`0` = same block; anything else means it sits inside an `if`/`match`/loop, i.e. it is
  conditional);
* for `batch_verify`: the ordered list of statements of the per-member closure (length check, init_from_bytes,
  prepare, squeeze, common into the batching transcript, assert_empty, result).

Also: the body of `CircuitTranscript::assert_empty` (transcript/mod.rs) must still compare the buffer's length with
the cursor position, and `init()` must still start from an empty buffer (what makes `assert_empty` on a transcript
that never got bytes vacuous).

Python 3 stdlib only. Exits non-zero if a source no longer parses."""
import os
import re
import sys

REPO = os.environ.get("VERIF_REPO", "/repo")
OUT = os.path.normpath(os.path.join(os.path.dirname(os.path.abspath(__file__)), "..", "lean", "MidnightZK", "Gen", "C03Sites.lean"))

FILES = ["zk_stdlib/src/lib.rs", "zk_stdlib/src/utils/plonk_api.rs"]


def die(msg):
    print("c03_sites: " + msg, file=sys.stderr)
    sys.exit(1)


def rd(rel):
    try:
        return open(os.path.join(REPO, rel)).read()
    except OSError as e:
        die(f"cannot read {rel}: {e}")


def strip_comments(s):
    s = re.sub(r"/\*.*?\*/", lambda m: " " * len(m.group(0)), s, flags=re.S)
    return re.sub(r"//[^\n]*", lambda m: " " * len(m.group(0)), s)


def block_end(src, i):
    """Index of the `}` matching the `{` at `i`."""
    depth = 0
    for j in range(i, len(src)):
        if src[j] == "{":
            depth += 1
        elif src[j] == "}":
            depth -= 1
            if depth == 0:
                return j
    die("unbalanced block")


def functions(src):
    """(name, body_start, body_end) of every `fn name` with a body."""
    out = []
    for m in re.finditer(r"\bfn\s+(\w+)\s*(?:<|\()", src):
        # the body is the first `{` after the signature that is not inside the generics/arguments/where clause
        j = m.end() - 1
        depth = 0
        k = j
        body = None
        while k < len(src):
            ch = src[k]
            if ch in "(<[":
                depth += 1
            elif ch in ")>]":
                # `->` is not a closing bracket
                if ch == ">" and src[k - 1] == "-":
                    pass
                else:
                    depth -= 1
            elif ch == ";" and depth <= 0:
                break
            elif ch == "{" and depth <= 0:
                body = k
                break
            k += 1
        if body is None:
            continue
        out.append((m.group(1), body, block_end(src, body)))
    return out


def depth_at(src, start, pos):
    """Brace depth of position `pos` relative to `start`."""
    d = 0
    for ch in src[start:pos]:
        if ch == "{":
            d += 1
        elif ch == "}":
            d -= 1
    return d


def lean_str(s):
    return '"' + s.replace("\\", "\\\\").replace('"', '\\"') + '"'


def lean_str_list(l):
    return "[" + ", ".join(lean_str(x) for x in l) + "]"


def main():
    sites = []   # (file, fn, prepared, init_var, init_arg, recv, after_prepare, propagated, rel_depth)
    entry = []   # (file, fn, prepared, init_var, init_arg)  for every fn that calls prepare
    batch_ops = None
    for rel in FILES:
        src = strip_comments(rd(rel))
        fns = functions(src)
        # innermost function containing a position
        def owner(pos):
            best = None
            for (n, a, b) in fns:
                if a <= pos <= b and (best is None or a > best[1]):
                    best = (n, a, b)
            return best
        prepares = list(re.finditer(r"\bprepare\s*::\s*<", src))
        seen_fns = {}
        for pm in prepares:
            o = owner(pm.start())
            if o is None:
                die(f"{rel}: a prepare call outside any function")
            name, a, b = o
            # argument list of the call: first `(` after the turbofish
            i = pm.end() - 1
            d = 0
            while i < b:
                if src[i] == "<":
                    d += 1
                elif src[i] == ">":
                    d -= 1
                    if d == 0:
                        break
                i += 1
            i = src.find("(", i)
            d = 0
            j = i
            while j < b:
                if src[j] == "(":
                    d += 1
                elif src[j] == ")":
                    d -= 1
                    if d == 0:
                        break
                j += 1
            args = src[i + 1:j]
            muts = re.findall(r"&mut\s+(\w+)", args)
            if len(muts) != 1:
                die(f"{rel}: {name}: expected exactly one `&mut <transcript>` argument of prepare, found {muts}")
            prepared = muts[0]
            body = src[a:b + 1]
            inits = re.findall(r"let\s+mut\s+(\w+)\s*=\s*CircuitTranscript\s*::\s*init_from_bytes\(\s*&?(\w+)\s*\)", body)
            if len(inits) != 1:
                die(f"{rel}: {name}: expected exactly one CircuitTranscript::init_from_bytes, found {inits}")
            if name in seen_fns:
                die(f"{rel}: {name}: two prepare calls in one function")
            seen_fns[name] = True
            entry.append((rel, name, prepared, inits[0][0], inits[0][1]))
            pdepth = depth_at(src, a, pm.start())
            for am in re.finditer(r"(\w+)\s*\.\s*assert_empty\s*\(\s*\)", src[a:b + 1]):
                pos = a + am.start()
                if owner(pos)[0] != name:
                    continue
                tail = src[a + am.end():a + am.end() + 200]
                stmt_end = tail.find(";")
                stmt_tail = tail[:stmt_end if stmt_end >= 0 else len(tail)]
                propagated = stmt_tail.rstrip().endswith("?")
                # the statement must start with the receiver (not `let _ = ...` / `if ... .is_ok()`)
                line_start = src.rfind("\n", 0, pos) + 1
                starts_stmt = src[line_start:pos].strip() == ""
                sites.append((rel, name, prepared, inits[0][0], inits[0][1], am.group(1), pos > pm.start(),
                              propagated and starts_stmt, depth_at(src, a, pos) - pdepth))
            if name == "batch_verify":
                # ordered statements of the per-member closure
                pats = [
                    (r"if\s+pi\.len\(\)\s*!=\s*vk\.nb_public_inputs\s*\{\s*return\s+Err\(", "check_nb_public_inputs"),
                    (r"let\s+mut\s+(\w+)\s*=\s*CircuitTranscript\s*::\s*init_from_bytes\(\s*&?(\w+)\s*\)", "init_from_bytes:{0}:{1}"),
                    (r"\bprepare\s*::\s*<", "prepare:" + prepared),
                    (r"let\s+summary\s*:\s*F\s*=\s*(\w+)\.squeeze_challenge\(\)", "squeeze_summary:{0}"),
                    (r"(\w+)\.common\(\s*&summary\s*\)\s*\?", "common_summary:{0}"),
                    (r"(\w+)\s*\.\s*assert_empty\s*\(\s*\)", "assert_empty:{0}"),
                    (r"Ok\(\s*dual_msm\s*\)", "ok_guard"),
                ]
                found = []
                for pat, label in pats:
                    for mm in re.finditer(pat, body):
                        found.append((mm.start(), label.format(*mm.groups()) if mm.groups() else label))
                batch_ops = [l for _, l in sorted(found)]
                rinit = re.findall(r"let\s+mut\s+(\w+)\s*=\s*CircuitTranscript\s*::\s*init\(\s*\)", body)
                if len(rinit) != 1:
                    die(f"batch_verify: expected exactly one CircuitTranscript::init(), found {rinit}")
                batch_r = rinit[0]
    if batch_ops is None:
        die("batch_verify with a prepare call not found in zk_stdlib/src/lib.rs")
    if not entry:
        die("no verification entry point found")

    # transcript/mod.rs: assert_empty compares buffer length and position; init starts with an empty buffer
    tmod = strip_comments(rd("proofs/src/transcript/mod.rs"))
    m = re.search(r"impl\s*<\s*H\s*:\s*TranscriptHash\s*>\s*Transcript\s+for\s+CircuitTranscript\s*<\s*H\s*>\s*\{", tmod)
    if not m:
        die("impl Transcript for CircuitTranscript not found")
    ib = tmod[m.end() - 1:block_end(tmod, m.end() - 1) + 1]
    ae = None
    init_empty = False
    for (n, a, b) in functions(ib):
        if n == "assert_empty":
            ae = re.sub(r"\s+", " ", ib[a:b + 1])
        if n == "init":
            init_empty = bool(re.search(r"buffer\s*:\s*Cursor::new\(\s*vec!\[\s*\]\s*\)", ib[a:b + 1]))
    if ae is None:
        die("CircuitTranscript::assert_empty not found")
    ae_ok = bool(re.match(r"\{ if self\.buffer\.get_ref\(\)\.len\(\) == self\.buffer\.position\(\) as usize \{ return Ok\(\(\)\); \} Err\(", ae))

    o = []
    o.append("/-! GENERATED by translators/c03_sites.py from zk_stdlib/src/lib.rs, zk_stdlib/src/utils/plonk_api.rs and")
    o.append("proofs/src/transcript/mod.rs — do not edit. -/")
    o.append("namespace MidnightZK.C03.Gen")
    o.append("")
    o.append("/-- One `assert_empty` call of a verification entry point. -/")
    o.append("structure AssertSite where")
    o.append("  file : String")
    o.append("  fn : String")
    o.append("  /-- the transcript handed to `prepare` (`&mut _`) in that function -/")
    o.append("  prepared : String")
    o.append("  /-- the variable initialised by `CircuitTranscript::init_from_bytes(proof)` -/")
    o.append("  initVar : String")
    o.append("  /-- the receiver of `.assert_empty()` -/")
    o.append("  receiver : String")
    o.append("  /-- the call comes after the `prepare` call -/")
    o.append("  afterPrepare : Bool")
    o.append("  /-- the call is a statement of its own whose error is propagated with `?` -/")
    o.append("  propagated : Bool")
    o.append("  /-- brace depth relative to the `prepare` statement (0 = unconditional in the same block) -/")
    o.append("  relDepth : Int")
    o.append("deriving DecidableEq, Repr")
    o.append("")
    o.append("/-- Every `assert_empty` call inside a function that calls `prepare`, in source order. -/")
    o.append("def assertSites : List AssertSite := [")
    o.append(",\n".join(
        f"  ⟨{lean_str(f)}, {lean_str(n)}, {lean_str(p)}, {lean_str(iv)}, {lean_str(r)}, {'true' if ap else 'false'}, {'true' if pr else 'false'}, {d}⟩"
        for (f, n, p, iv, ia, r, ap, pr, d) in sites))
    o.append("]")
    o.append("")
    o.append("/-- Every function of the two files that calls `prepare`: (file, fn, prepared transcript, init_from_bytes variable, its argument). -/")
    o.append("def prepareCallers : List (String × String × String × String × String) := [")
    o.append(",\n".join(f"  ({lean_str(f)}, {lean_str(n)}, {lean_str(p)}, {lean_str(iv)}, {lean_str(ia)})" for (f, n, p, iv, ia) in entry))
    o.append("]")
    o.append("")
    # other callers of the off-circuit `prepare` (aggregator): which of them check for trailing bytes themselves
    others = []
    for rel in ["aggregator/src/light_aggregator.rs", "circuits/src/verifier/verifier_gadget.rs"]:
        osrc = strip_comments(rd(rel))
        ofns = functions(osrc)
        for pm in re.finditer(r"\bprepare\s*::\s*<", osrc):
            best = None
            for (n, a, b) in ofns:
                if a <= pm.start() <= b and (best is None or a > best[1]):
                    best = (n, a, b)
            if best is None:
                die(f"{rel}: a prepare call outside any function")
            n, a, b = best
            in_test = bool(re.search(r"#\[cfg\(test\)\]\s*mod\s+\w+\s*\{", osrc[:a])) or bool(re.search(r"#\[test\]\s*$", osrc[:osrc.rfind("fn", 0, a)].rstrip()[-12:]))
            others.append((rel, n, "assert_empty" in osrc[a:b + 1], in_test))
    o.append("/-- Other callers of the off-circuit `prepare` (file, fn, calls assert_empty itself, inside a test module). -/")
    o.append("def otherPrepareCallers : List (String × String × Bool × Bool) := [")
    o.append(",\n".join(f"  ({lean_str(f)}, {lean_str(n)}, {'true' if ae_ else 'false'}, {'true' if t else 'false'})" for (f, n, ae_, t) in others))
    o.append("]")
    o.append("")
    o.append("/-- Statements of the per-member closure of `zk_stdlib::batch_verify`, in source order. -/")
    o.append(f"def batchMemberOps : List String := {lean_str_list(batch_ops)}")
    o.append("/-- The auxiliary transcript of `batch_verify` created by `CircuitTranscript::init()` (never given bytes). -/")
    o.append(f"def batchAuxTranscript : String := {lean_str(batch_r)}")
    o.append("/-- `CircuitTranscript::init()` starts from an empty buffer. -/")
    o.append(f"def initBufferEmpty : Bool := {'true' if init_empty else 'false'}")
    o.append("/-- `CircuitTranscript::assert_empty` is `buffer.len() == position → Ok, else Err`. -/")
    o.append(f"def assertEmptyComparesLenPos : Bool := {'true' if ae_ok else 'false'}")
    o.append("")
    o.append("end MidnightZK.C03.Gen")
    text = "\n".join(o) + "\n"
    os.makedirs(os.path.dirname(OUT), exist_ok=True)
    old = open(OUT).read() if os.path.exists(OUT) else None
    if old != text:
        open(OUT, "w").write(text)


if __name__ == "__main__":
    main()
