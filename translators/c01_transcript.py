#!/usr/bin/env python3
"""Translator for C01: the ORDER of Fiat-Shamir transcript operations in the prover and the verifier, re-read from
the repository's CURRENT sources, written to `lean/MidnightZK/Gen/C01Transcript.lean`.

For every function of `proofs/src/plonk/prover.rs` and `proofs/src/plonk/verifier.rs` (test code excluded) that
touches the variable `transcript`, the call sites in TEXTUAL order, one token each:

* `squeeze:<name>`  for `let <name>[: T] = transcript.squeeze_challenge()` / `*<name> = transcript.squeeze_challenge()`,
  `squeeze`         for any other `transcript.squeeze_challenge()`;
* `write` / `read` / `common` for `transcript.write(..)` / `transcript.read()` / `transcript.common(..)`;
* `call:<path>`     for a call that receives `transcript` as an argument: `<path>` is the callee as written, white
  space and turbofish generics removed, (`lookup.commit_permuted`, `vanishing::Argument::commit`, `read_n`, `CS::multi_open`, ...); when two call sites
  of one function read the same, `/<number of arguments>` is appended (it separates the two `p.evaluate` of
  `finalise_proof`: lookups take `(pk, x, transcript)`, trash arguments `(x, transcript)`).

For the argument files (`lookup/`, `permutation/`, `trash/`, `vanishing/` x `prover.rs`, `verifier.rs`) the `write` /
`read` tokens also carry the written argument / the variable bound (`write:permuted_input_commitment`,
`read:product_next_eval`): there the ORDER of otherwise identical reads is the content (table `argFns`, pinned by
`Props/C01.lean: argument_transcript_sites`).

The Lean side (`Props/C01.lean: transcript_order_is_schedule_skeleton`) proves that these lists are the token lists
whose segments, in this order, make up `proverSchedule` / `verifierSchedule` for EVERY shape: a reordering of two
transcript operations in the source is caught at build time even for shapes the circuit family does not sample.
Deliberately tight: renaming a challenge variable or a callee also changes a token (it is then the model's table in
`Model/C01/Skeleton.lean` that has to follow).

Python 3 stdlib only. Exits non-zero if a source no longer parses."""
import os
import re
import sys

REPO = os.environ.get("VERIF_REPO", "/repo")
OUT = os.path.normpath(os.path.join(os.path.dirname(os.path.abspath(__file__)), "..", "lean", "MidnightZK", "Gen",
                                    "C01Transcript.lean"))
FILES = [("prover", "proofs/src/plonk/prover.rs"), ("verifier", "proofs/src/plonk/verifier.rs")]
ARG_FILES = ["lookup/prover.rs", "lookup/verifier.rs", "permutation/prover.rs", "permutation/verifier.rs",
             "trash/prover.rs", "trash/verifier.rs", "vanishing/prover.rs", "vanishing/verifier.rs"]


def die(msg):
    print("c01_transcript: " + msg, file=sys.stderr)
    sys.exit(1)


def strip_comments(src):
    out = []
    i = 0
    n = len(src)
    while i < n:
        if src.startswith("//", i):
            j = src.find("\n", i)
            i = n if j < 0 else j
        elif src.startswith("/*", i):
            j = src.find("*/", i)
            i = n if j < 0 else j + 2
        elif src[i] == '"':
            j = i + 1
            while j < n and src[j] != '"':
                j += 2 if src[j] == "\\" else 1
            out.append('""')
            i = j + 1
        else:
            out.append(src[i])
            i += 1
    return "".join(out)


def functions(src):
    """(name, body) of every `fn` item, in textual order."""
    res = []
    for m in re.finditer(r"\bfn\s+([A-Za-z_]\w*)", src):
        # the body starts at the first `{` at parenthesis/angle depth 0 after the signature
        i = m.end()
        depth = 0
        while i < len(src):
            c = src[i]
            if c in "([":
                depth += 1
            elif c in ")]":
                depth -= 1
            elif c == ";" and depth == 0:
                i = -1
                break
            elif c == "{" and depth == 0:
                break
            i += 1
        if i < 0 or i >= len(src):
            continue
        j = i
        d = 0
        while j < len(src):
            if src[j] == "{":
                d += 1
            elif src[j] == "}":
                d -= 1
                if d == 0:
                    break
            j += 1
        if j >= len(src):
            die("unbalanced braces in fn " + m.group(1))
        res.append((m.group(1), src[i:j + 1]))
    return res


def callee(body, pos):
    """The callee path of the innermost call whose argument list contains position `pos`."""
    depth = 0
    i = pos - 1
    while i >= 0:
        c = body[i]
        if c in ")]}":
            depth += 1
        elif c in "([{":
            if depth == 0:
                if c != "(":
                    return None
                break
            depth -= 1
        i -= 1
    if i < 0:
        return None
    # arity: top-level commas of the argument list
    j = i + 1
    d = 0
    commas = 0
    nonempty = False
    while j < len(body):
        ch = body[j]
        if ch in "([{":
            d += 1
        elif ch in ")]}":
            if d == 0:
                break
            d -= 1
        elif ch == "," and d == 0:
            commas += 1
        elif ch == "|" and d == 0:
            pass
        if not ch.isspace():
            nonempty = True if ch not in ")" else nonempty
        j += 1
    trailing = re.search(r",\s*$", body[i + 1:j]) is not None
    arity = (commas + (0 if trailing else 1)) if nonempty else 0
    head = body[:i]
    head = re.sub(r"::<[^<>]*(?:<[^<>]*>[^<>]*)*>", "", head[-400:])
    head = re.sub(r"\s+", "", head)
    m = re.search(r"([A-Za-z_]\w*(?:(?:\.|::)[A-Za-z_]\w*)*)$", head)
    if not m:
        return None
    return "%s/%d" % (m.group(1), arity)


def tokens(body, named=False):
    toks = []
    for m in re.finditer(r"\btranscript\b", body):
        rest = body[m.end():]
        before = body[:m.start()]
        if re.match(r"\s*:", rest):
            continue  # a parameter declaration
        mm = re.match(r"\s*\.\s*(\w+)\s*\(", rest)
        if mm:
            op = mm.group(1)
            if op == "squeeze_challenge":
                lhs = re.search(r"(?:let\s+(?:mut\s+)?)?(\*?[A-Za-z_]\w*)\s*(?::\s*[\w<>:, ]+?)?\s*=\s*$", before)
                toks.append("squeeze:" + lhs.group(1).lstrip("*") if lhs else "squeeze")
            elif op in ("write", "read", "common"):
                name = None
                if named and op == "read":
                    lhs = re.search(r"let\s+(?:mut\s+)?([A-Za-z_]\w*)\s*(?::\s*[\w<>:, ]+?)?\s*=\s*$", before)
                    name = lhs.group(1) if lhs else None
                elif named:
                    a = re.match(r"\s*\.\s*\w+\s*\(\s*&?\s*([A-Za-z_]\w*)\s*\)", rest)
                    name = a.group(1) if a else None
                    if name:
                        # `for <name> in iter::empty().chain(Some(a)).chain(Some(b)) { transcript.write(<name>) }`
                        loops = list(re.finditer(r"\bfor\s+" + re.escape(name) + r"\s+in\b([^{;]*)\{", before))
                        if loops:
                            items = re.findall(r"Some\(\s*&?\s*([A-Za-z_]\w*)\s*\)", loops[-1].group(1))
                            if items:
                                name = "+".join(items)
                toks.append(op + ":" + name if name else op)
            else:
                toks.append("method:" + op)
            continue
        c = callee(body, m.start())
        if c is None:
            die("cannot find the call that receives `transcript` near: " + body[max(0, m.start() - 60):m.end() + 20].replace("\n", " "))
        toks.append("call:" + c)
    # the arity is kept only where two call sites of the same function would otherwise read the same
    bare = [t.split("/")[0] if t.startswith("call:") else t for t in toks]
    return [t if (t.startswith("call:") and bare.count(b) > 1) else b for t, b in zip(toks, bare)]


def lean_list(xs):
    return "[" + ", ".join('"%s"' % x for x in xs) + "]"


def main():
    out = ["/- GENERATED by translators/c01_transcript.py from proofs/src/plonk/{prover,verifier}.rs — do not edit. -/",
           "namespace MidnightZK.Gen.C01Transcript", ""]
    for side, rel in FILES:
        try:
            src = open(os.path.join(REPO, rel)).read()
        except OSError as e:
            die("cannot read %s: %s" % (rel, e))
        k = src.find("#[cfg(test)]")
        k2 = src.find("#[test]")
        cut = min([x for x in (k, k2) if x >= 0] or [len(src)])
        src = strip_comments(src[:cut])
        fns = [(name, tokens(body)) for name, body in functions(src)]
        fns = [(name, t) for name, t in fns if t]
        if not fns:
            die("no function of %s touches `transcript`" % rel)
        out.append("/-- `%s`: per function, the transcript call sites in textual order. -/" % rel)
        out.append("def %sFns : List (String × List String) := [" % side)
        out.append(",\n".join('  ("%s", %s)' % (name, lean_list(t)) for name, t in fns))
        out.append("]")
        out.append("")
    rows = []
    for rel in ARG_FILES:
        full = "proofs/src/plonk/" + rel
        try:
            src = open(os.path.join(REPO, full)).read()
        except OSError as e:
            die("cannot read %s: %s" % (full, e))
        k = src.find("#[cfg(test)]")
        src = strip_comments(src if k < 0 else src[:k])
        seen = {}
        found = False
        for name, body in functions(src):
            seen[name] = seen.get(name, 0) + 1
            t = tokens(body, named=True)
            if t:
                found = True
                label = name if seen[name] == 1 else "%s#%d" % (name, seen[name])
                def pair(tok):
                    op, _, names = tok.partition(":")
                    if op == "call":
                        return '("%s", [])' % tok
                    return '("%s", %s)' % (op, lean_list(names.split("+")) if names else "[]")
                rows.append('  ("%s", "%s", [%s])' % (rel, label, ", ".join(pair(x) for x in t)))
        if not found:
            die("no function of %s touches `transcript`" % full)
    out.append("/-- The argument files `proofs/src/plonk/{lookup,permutation,trash,vanishing}/{prover,verifier}.rs`: (file, function —")
    out.append("`name#k` for the k-th function of that name in the file —, transcript call sites in textual order as (operation, names):")
    out.append("a `write` carries its argument (for a loop variable: the items chained into the loop), a `read` the variable bound by `let`). -/")
    out.append("def argFns : List (String × String × List (String × List String)) := [")
    out.append(",\n".join(rows))
    out.append("]")
    out.append("")
    out.append("end MidnightZK.Gen.C01Transcript")
    text = "\n".join(out) + "\n"
    os.makedirs(os.path.dirname(OUT), exist_ok=True)
    old = None
    try:
        old = open(OUT).read()
    except OSError:
        pass
    if old != text:
        open(OUT, "w").write(text)
    print("c01_transcript: wrote %s" % OUT)


if __name__ == "__main__":
    main()
