#!/usr/bin/env python3
"""C18 translator: serde / bincode surface of the ZKIR program types, parsed from the Rust sources.

Reads (from $VERIF_REPO, default /repo):
  zkir/src/instructions/operations/mod.rs   enum Operation: serde container + variant attributes
  zkir/src/types.rs                         enum IrType:    serde container + variant attributes
  zkir/src/instructions/mod.rs              struct Instruction: fields, serde rename / default
  zkir/src/zkir.rs                          struct Program, PROGRAM_DECODING_LIMIT, bincode configuration
Writes lean/MidnightZK/Gen/C18Serde.lean (relative to this file). Exits non-zero when a source no
longer has the expected form or uses a serde / bincode feature the model does not cover.
"""
import os
import re
import sys

REPO = os.environ.get("VERIF_REPO", "/repo")
OUT = os.path.join(os.path.dirname(os.path.abspath(__file__)), "..", "lean", "MidnightZK", "Gen", "C18Serde.lean")


def die(msg):
    print("c18_serde: " + msg, file=sys.stderr)
    sys.exit(1)


def read(rel):
    p = os.path.join(REPO, rel)
    if not os.path.exists(p):
        die("missing " + p)
    return open(p).read()


def strip_comments(src):
    src = re.sub(r"/\*.*?\*/", "", src, flags=re.S)
    return "\n".join(l.split("//")[0] for l in src.split("\n"))


def serde_attrs(attr_text, where):
    """All `key` or `key = "value"` items of the #[serde(...)] attributes in attr_text."""
    out = {}
    for m in re.finditer(r"#\[serde\((.*?)\)\]", attr_text, flags=re.S):
        for item in m.group(1).split(","):
            item = item.strip()
            if not item:
                continue
            mm = re.match(r'^([a-z_]+)(?:\s*=\s*"([^"]*)")?$', item)
            if not mm:
                die("cannot parse serde attribute %r on %s" % (item, where))
            out[mm.group(1)] = mm.group(2)
    return out


def snake_case(name):
    # serde_derive::internals::case::RenameRule::SnakeCase on a variant
    out = ""
    for i, ch in enumerate(name):
        if i > 0 and ch.isupper():
            out += "_"
        out += ch.lower()
    return out


def item(src, kind, name):
    """(attribute text before the item, body) of `pub enum X {..}` / `struct X {..}`."""
    m = re.search(r"((?:[ \t]*#\[[^\n]*\]\s*\n|[ \t]*///[^\n]*\n)*)[ \t]*(?:pub )?" + kind + " " + name + r"\s*\{(.*?)\n\}", src, flags=re.S)
    if not m:
        die("%s %s not found" % (kind, name))
    return m.group(1), m.group(2)


def split_members(body):
    """Members of an enum / struct body with the attribute text that precedes each."""
    body = strip_comments(body)
    out = []
    for part in re.split(r",\s*\n", body + "\n"):
        part = part.strip().rstrip(",").strip()
        if not part:
            continue
        attrs = "".join(re.findall(r"#\[[^\]]*\]", part))
        rest = re.sub(r"#\[[^\]]*\]", "", part).strip()
        out.append((attrs, rest))
    return out


def enum_names(rel, name):
    attrs, body = item(read(rel), "enum", name)
    cont = serde_attrs(attrs, "enum " + name)
    for k in cont:
        if k != "rename_all":
            die("enum %s: serde container attribute %r is not modelled" % (name, k))
    rule = cont.get("rename_all")
    if rule not in (None, "snake_case"):
        die("enum %s: rename_all = %r is not modelled" % (name, rule))
    if "Deserialize" not in attrs or "Serialize" not in attrs or "Encode" not in attrs or "Decode" not in attrs:
        die("enum %s: expected derive(Encode, Decode, Serialize, Deserialize)" % name)
    out = []
    for a, rest in split_members(body):
        mm = re.match(r"^([A-Z][A-Za-z0-9]*)\s*(?:\((.*)\))?$", rest, flags=re.S)
        if not mm:
            die("cannot parse variant %r of %s" % (rest, name))
        va = serde_attrs(a, "%s::%s" % (name, mm.group(1)))
        for k in va:
            if k != "rename":
                die("%s::%s: serde attribute %r is not modelled" % (name, mm.group(1), k))
        rust = mm.group(1)
        serde = va.get("rename") or (snake_case(rust) if rule == "snake_case" else rust)
        out.append((rust, serde))
    return out


def struct_fields(rel, name):
    attrs, body = item(read(rel), "struct", name)
    cont = serde_attrs(attrs, "struct " + name)
    if cont:
        die("struct %s: serde container attributes %r are not modelled" % (name, sorted(cont)))
    out = []
    for a, rest in split_members(body):
        mm = re.match(r"^(?:pub(?:\([a-z]+\))? )?([a-z_][a-z0-9_]*)\s*:\s*(.+)$", rest, flags=re.S)
        if not mm:
            die("cannot parse field %r of %s" % (rest, name))
        fa = serde_attrs(a, "%s.%s" % (name, mm.group(1)))
        for k in fa:
            if k not in ("rename", "default"):
                die("%s.%s: serde attribute %r is not modelled" % (name, mm.group(1), k))
        if "default" in fa and fa["default"] is not None:
            die("%s.%s: default = path is not modelled" % (name, mm.group(1)))
        out.append((mm.group(1), fa.get("rename") or mm.group(1), "default" in fa, re.sub(r"\s+", "", mm.group(2))))
    return out


ops = enum_names("zkir/src/instructions/operations/mod.rs", "Operation")
tys = enum_names("zkir/src/types.rs", "IrType")
instr = struct_fields("zkir/src/instructions/mod.rs", "Instruction")
prog = struct_fields("zkir/src/zkir.rs", "Program")

zk = strip_comments(read("zkir/src/zkir.rs"))
m = re.search(r"const PROGRAM_DECODING_LIMIT: usize = ([^;]+);", zk)
if not m:
    die("PROGRAM_DECODING_LIMIT not found")
expr = m.group(1).strip().replace("_", "")
mm = re.match(r"^(\d+)\s*<<\s*(\d+)$", expr)
if mm:
    limit = int(mm.group(1)) << int(mm.group(2))
elif re.match(r"^\d+$", expr):
    limit = int(expr)
else:
    die("cannot evaluate PROGRAM_DECODING_LIMIT = %r" % expr)

wr = re.search(r"fn write_relation.*?\n    \}", zk, flags=re.S)
rd = re.search(r"fn read_relation.*?\n    \}", zk, flags=re.S)
if not wr or not rd:
    die("write_relation / read_relation not found")
if not re.search(r"bincode::encode_into_std_write\(\s*self\.program\.clone\(\),\s*writer,\s*bincode::config::standard\(\)\s*\)", wr.group(0)):
    die("write_relation: expected bincode::encode_into_std_write(self.program.clone(), writer, bincode::config::standard())")
if not re.search(r"bincode::config::standard\(\)\.with_limit::<PROGRAM_DECODING_LIMIT>\(\)", rd.group(0)):
    die("read_relation: expected bincode::config::standard().with_limit::<PROGRAM_DECODING_LIMIT>()")
cfg = re.search(r"let (\w+) = bincode::config::standard\(\)\.with_limit::<PROGRAM_DECODING_LIMIT>\(\);", rd.group(0))
dec = re.search(r"let (\w+): Program =\s*bincode::decode_from_std_read\((\w+), (\w+)\)", rd.group(0))
if not cfg or not dec or dec.group(3) != cfg.group(1):
    die("read_relation: expected `let <p>: Program = bincode::decode_from_std_read(<reader>, <the limited standard config>)`")
if not re.search(r"Self::from_instructions\(&%s\.instructions\)" % dec.group(1), rd.group(0)):
    die("read_relation: expected the arity check Self::from_instructions(&<p>.instructions)")
rj = re.search(r"pub fn read\(raw: &'static str\).*?\n    \}", zk, flags=re.S)
if not rj or not re.search(r"serde_json::from_str\(raw\)", rj.group(0)) or "Self::from_instructions(&p.instructions)" not in rj.group(0):
    die("ZkirRelation::read: expected serde_json::from_str(raw) followed by Self::from_instructions(&p.instructions)")


def lean_list(items):
    return "[" + ", ".join(items) + "]"


def b(x):
    return "true" if x else "false"


lines = [
    "/-! GENERATED by translators/c18_serde.py from the Rust sources of /repo — do not edit. -/",
    "namespace MidnightZK.C18.Gen",
    "",
    "/-- `enum Operation`: (Rust variant, serde name) in declaration order. -/",
    "def serdeOperations : List (String × String) := " + lean_list('("%s", "%s")' % v for v in ops),
    "",
    "/-- `enum IrType`: (Rust variant, serde name) in declaration order. -/",
    "def serdeIrTypes : List (String × String) := " + lean_list('("%s", "%s")' % v for v in tys),
    "",
    "/-- `struct Instruction`: (Rust field, serde name, has `#[serde(default)]`, type) in declaration order. -/",
    "def serdeInstrFields : List (String × String × Bool × String) := "
    + lean_list('("%s", "%s", %s, "%s")' % (f[0], f[1], b(f[2]), f[3]) for f in instr),
    "",
    "/-- `struct Program`: same. -/",
    "def serdeProgramFields : List (String × String × Bool × String) := "
    + lean_list('("%s", "%s", %s, "%s")' % (f[0], f[1], b(f[2]), f[3]) for f in prog),
    "",
    "/-- `zkir.rs: PROGRAM_DECODING_LIMIT`. -/",
    "def programDecodingLimit : Nat := %d" % limit,
    "",
    "end MidnightZK.C18.Gen",
    "",
]
os.makedirs(os.path.dirname(OUT), exist_ok=True)
open(OUT, "w").write("\n".join(lines))
