#!/usr/bin/env python3
"""Translator of property C08: the shape of `NativeChip` that makes all its clones share the two
instance-row counters, parsed from the CURRENT Rust source.

Reads (never executes) circuits/src/field/native/native_chip.rs:
  * `#[derive(..)] pub struct NativeChip<..> { .. }` : derive list, (field, type) list;
  * whether a hand-written `impl .. Clone for NativeChip` exists;
  * `fn constrain_as_public_input` / `fn constrain_as_committed_public_input` of the
    `AssignedNative` impls: the counter field they `borrow_mut()`, the column of `self.config` they
    pass to `constrain_instance`, the increment;
  * `fn nb_public_inputs`: the counter it reads.
and writes lean/MidnightZK/Gen/C08Chip.lean. `Model/C08/Handles.lean: codeEnv` derives the handle
environment of the model from these definitions and `Props/C08.lean: code_env_shared` re-proves that
it is the shared one, so turning a counter into a by-value `RefCell<usize>` (seeded defect C08-4),
deriving something else than `Clone`, or counting in the wrong field breaks a theorem.

Exit status != 0 when the source no longer has the shape this extractor understands.
Python 3 stdlib only.
"""
import os
import re
import sys

REPO = os.environ.get("VERIF_REPO", "/repo")
HERE = os.path.dirname(os.path.abspath(__file__))
OUT = os.path.join(HERE, "..", "lean", "MidnightZK", "Gen", "C08Chip.lean")
SRC = "circuits/src/field/native/native_chip.rs"


class ParseError(Exception):
    pass


def strip_comments(src):
    src = re.sub(r"/\*.*?\*/", "", src, flags=re.S)
    return re.sub(r"//[^\n]*", "", src)


def body_after(src, start):
    """Text of the brace block opening at or after `start` (balanced)."""
    i = src.index("{", start)
    depth = 0
    for j in range(i, len(src)):
        if src[j] == "{":
            depth += 1
        elif src[j] == "}":
            depth -= 1
            if depth == 0:
                return src[i + 1 : j]
    raise ParseError("unbalanced braces")


def split_fields(block):
    out, depth, cur = [], 0, ""
    for ch in block:
        if ch in "<([":
            depth += 1
        elif ch in ">)]":
            depth -= 1
        if ch == "," and depth == 0:
            out.append(cur)
            cur = ""
        else:
            cur += ch
    if cur.strip():
        out.append(cur)
    fields = []
    for f in out:
        f = " ".join(f.split())
        if not f:
            continue
        m = re.match(r"(?:pub(?:\([^)]*\))?\s+)?(\w+)\s*:\s*(.+)$", f)
        if not m:
            raise ParseError(f"field not understood: {f!r}")
        fields.append((m.group(1), m.group(2).replace(" ", "")))
    return fields


def fn_in_impl(src, impl_re, fn_name):
    m = re.search(impl_re, src)
    if not m:
        raise ParseError(f"impl not found: {impl_re}")
    impl_body = body_after(src, m.end() - 1)
    f = re.search(r"fn\s+" + fn_name + r"\s*\(", impl_body)
    if not f:
        raise ParseError(f"fn {fn_name} not found in {impl_re}")
    return body_after(impl_body, f.end())


def counter_use(body, what):
    m = re.search(r"let\s+mut\s+(\w+)\s*=\s*self\s*\.\s*(\w+)\s*\.\s*borrow_mut\s*\(\s*\)", body)
    if not m:
        raise ParseError(f"{what}: no `let mut _ = self.<counter>.borrow_mut()`")
    var, field = m.group(1), m.group(2)
    c = re.search(r"constrain_instance\s*\(\s*[^,]+,\s*self\s*\.\s*config\s*\.\s*(\w+)\s*,\s*\*\s*" + var + r"\s*,?\s*\)", body)
    if not c:
        raise ParseError(f"{what}: no `constrain_instance(cell, self.config.<col>, *{var})`")
    inc = re.search(r"\*\s*" + var + r"\s*\+=\s*(\d+)\s*;", body)
    if not inc:
        raise ParseError(f"{what}: no `*{var} += <n>;`")
    if body.index("constrain_instance") > inc.start():
        raise ParseError(f"{what}: the counter is incremented before it is used")
    return field, c.group(1), int(inc.group(1))


def main():
    p = os.path.join(REPO, SRC)
    if not os.path.exists(p):
        print(f"c08_chip: missing {p}", file=sys.stderr)
        return 1
    try:
        src = strip_comments(open(p).read())
        m = re.search(r"((?:#\[[^\]]*\]\s*)*)pub\s+struct\s+NativeChip\s*<[^>]*>\s*\{", src)
        if not m:
            raise ParseError("struct NativeChip not found")
        derives = []
        for d in re.findall(r"#\[\s*derive\s*\(([^)]*)\)\s*\]", m.group(1)):
            derives += [x.strip() for x in d.split(",") if x.strip()]
        fields = split_fields(body_after(src, m.end() - 1))
        manual_clone = re.search(r"impl\s*<[^>]*>\s*Clone\s+for\s+NativeChip", src) is not None
        plain = counter_use(
            fn_in_impl(src, r"impl\s*<F>\s*PublicInputInstructions\s*<\s*F\s*,\s*AssignedNative\s*<\s*F\s*>\s*>\s*for\s+NativeChip\s*<\s*F\s*>[^{]*\{", "constrain_as_public_input"),
            "constrain_as_public_input",
        )
        com = counter_use(
            fn_in_impl(src, r"impl\s*<F>\s*CommittedInstanceInstructions\s*<\s*F\s*,\s*AssignedNative\s*<\s*F\s*>\s*>\s*for\s+NativeChip\s*<\s*F\s*>[^{]*\{", "constrain_as_committed_public_input"),
            "constrain_as_committed_public_input",
        )
        nb = re.search(r"fn\s+nb_public_inputs\s*\(\s*&self\s*\)\s*->\s*usize\s*\{\s*\*\s*self\s*\.\s*(\w+)\s*\.\s*borrow\s*\(\s*\)\s*\}", src)
        if not nb:
            raise ParseError("nb_public_inputs not understood")
    except (ParseError, ValueError) as e:
        print(f"c08_chip: {e}", file=sys.stderr)
        return 1
    L = []
    L.append("/-! GENERATED by translators/c08_chip.py from /repo sources. Do not edit. -/")
    L.append("namespace MidnightZK.C08.Gen")
    L.append("")
    L.append("/-- `#[derive(..)]` of `native_chip.rs: struct NativeChip`. -/")
    L.append("def nativeChipDerives : List String := [" + ", ".join(f'"{d}"' for d in derives) + "]")
    L.append("/-- A hand-written `impl Clone for NativeChip` exists. -/")
    L.append(f"def nativeChipManualClone : Bool := {'true' if manual_clone else 'false'}")
    L.append("/-- Fields of `struct NativeChip`: (name, type without spaces), in source order. -/")
    L.append("def nativeChipFields : List (String × String) := [")
    L.append(",\n".join(f'  ("{a}", "{b}")' for a, b in fields))
    L.append("]")
    L.append("/-- `constrain_as_public_input` (AssignedNative): (counter field, column of the config, increment). -/")
    L.append(f'def plainExposure : String × String × Nat := ("{plain[0]}", "{plain[1]}", {plain[2]})')
    L.append("/-- `constrain_as_committed_public_input` (AssignedNative): the same. -/")
    L.append(f'def committedExposure : String × String × Nat := ("{com[0]}", "{com[1]}", {com[2]})')
    L.append("/-- The counter `nb_public_inputs` reads. -/")
    L.append(f'def nbPublicInputsField : String := "{nb.group(1)}"')
    L.append("")
    L.append("end MidnightZK.C08.Gen")
    text = "\n".join(L) + "\n"
    out = os.path.normpath(OUT)
    os.makedirs(os.path.dirname(out), exist_ok=True)
    old = open(out).read() if os.path.exists(out) else None
    if old != text:
        open(out, "w").write(text)
    return 0


if __name__ == "__main__":
    sys.exit(main())
