#!/usr/bin/env python3
"""Translator of property C06 (hash-to-curve part): parses the map-to-curve parameters of Jubjub
from the CURRENT sources of the repository (`circuits/src/ecc/hash_to_curve/mtc_params.rs`:
`SVDW_Z`, `A`, `B`, `MONT_J`, `MONT_K` as `from_raw` limbs, and the bodies of the derived constants
`c1()` … `c4()`, which must still have the shape this translator understands) and writes
lean/MidnightZK/Gen/C06Htc.lean.

The derived constants are NOT copied from anywhere: `c3` (a square root) and `c4` (a quotient) and a
square root of `c1` are computed here from the parsed `Z`, `A`, `B` and the native modulus found in
Gen/C06Gates.lean (written by c06_gates.py, which must run first); their defining equations are
re-checked by the Lean kernel (`svdw_constants_spec` in Props/C06.lean) and the values are
compared with `C::c1()` … `C::c4()` of the running code by the harness on every run.
Must run after c06_gates. Exits non-zero if the source no longer parses."""
import os
import re
import sys

HERE = os.path.dirname(os.path.abspath(__file__))
VERIF = os.path.dirname(HERE)
REPO = os.environ.get("VERIF_REPO", "/repo")
SRC = os.path.join(REPO, "circuits", "src", "ecc", "hash_to_curve", "mtc_params.rs")
CPU = os.path.join(REPO, "circuits", "src", "ecc", "hash_to_curve", "mtc_cpu.rs")
CIRC = os.path.join(REPO, "circuits", "src", "ecc", "hash_to_curve", "mtc.rs")
GATES = os.path.join(VERIF, "lean", "MidnightZK", "Gen", "C06Gates.lean")
OUT = os.path.join(VERIF, "lean", "MidnightZK", "Gen", "C06Htc.lean")


def die(msg):
    raise SystemExit("c06_htc: " + msg)


def strip_comments(s):
    s = re.sub(r"/\*.*?\*/", "", s, flags=re.S)
    return "\n".join(l.split("//")[0] for l in s.splitlines())


def from_raw(text, name):
    m = re.search(r"const\s+" + name + r"\s*:\s*JubjubBase\s*=\s*JubjubBase::from_raw\(\s*\[(.*?)\]\s*\)", text, re.S)
    if not m:
        die(f"constant {name} not found as JubjubBase::from_raw([..])")
    limbs = [w.strip().replace("_", "") for w in m.group(1).split(",") if w.strip()]
    if len(limbs) != 4:
        die(f"constant {name}: expected 4 limbs, got {len(limbs)}")
    v = 0
    for i, l in enumerate(limbs):
        v += int(l, 0) << (64 * i)
    return v


def norm(s):
    return re.sub(r"\s+", "", s)


def fn_body(text, name):
    m = re.search(r"fn\s+" + name + r"\s*\([^)]*\)\s*->\s*BaseField\s*\{", text)
    if not m:
        die(f"fn {name} not found")
    i = m.end()
    depth = 1
    j = i
    while depth and j < len(text):
        if text[j] == "{":
            depth += 1
        elif text[j] == "}":
            depth -= 1
        j += 1
    return norm(text[i:j - 1])


def sqrt_mod(a, p):
    a %= p
    if a == 0:
        return 0
    if pow(a, (p - 1) // 2, p) != 1:
        return None
    q, s = p - 1, 0
    while q % 2 == 0:
        q //= 2
        s += 1
    z = 2
    while pow(z, (p - 1) // 2, p) != p - 1:
        z += 1
    m, c, t, r = s, pow(z, q, p), pow(a, q, p), pow(a, (q + 1) // 2, p)
    while t != 1:
        i, t2 = 0, t
        while t2 != 1:
            t2 = t2 * t2 % p
            i += 1
        b = pow(c, 1 << (m - i - 1), p)
        m, c = i, b * b % p
        t, r = t * c % p, r * b % p
    return r


def step_kinds(text, fn, table):
    """Kinds of the numbered steps `// N. …` of `fn`: for each step the first pattern of `table`
    matching the statement that follows the comment."""
    m = re.search(r"fn\s+" + fn + r"\b", text)
    if not m:
        die(f"fn {fn} not found")
    body = text[m.end():]
    nxt = re.search(r"\n(?:pub\s+)?fn\s+\w+|\n/// ", body)
    if nxt:
        body = body[:nxt.start()]
    parts = re.split(r"//\s*(\d+)\.\s", body)
    out = {}
    for k in range(1, len(parts) - 1, 2):
        n = int(parts[k])
        stmt = norm("\n".join(l.split("//")[0] for l in parts[k + 1].splitlines()[1:]))
        kind = None
        for name, pat in table:
            if re.search(pat, stmt):
                kind = name
                break
        out[n] = kind or "other"
    return out


def main():
    raw = open(SRC).read()
    text = strip_comments(raw)
    try:
        gates = open(GATES).read()
    except OSError:
        die("Gen/C06Gates.lean missing (c06_gates must run first)")
    m = re.search(r"def nativeModulus : Nat := (\d+)", gates)
    if not m:
        die("nativeModulus not found in Gen/C06Gates.lean")
    p = int(m.group(1))

    Z = from_raw(text, "SVDW_Z")
    A = from_raw(text, "A")
    B = from_raw(text, "B")
    J = from_raw(text, "MONT_J")
    K = from_raw(text, "MONT_K")

    # the derived constants must still be defined the way this translator mirrors them
    expect = {
        "g": "x*x*x+Self::A*x+Self::B",
        "c1": "Self::g(Self::SVDW_Z)",
        "c2": "-Self::SVDW_Z*BaseField::TWO_INV",
    }
    for name, body in expect.items():
        got = fn_body(text, name) if name != "g" else None
        if name == "g":
            mg = re.search(r"fn\s+g\s*\(\s*x\s*:\s*BaseField\s*\)\s*->\s*BaseField\s*\{(.*?)\}", text, re.S)
            if not mg:
                die("fn g not found")
            got = norm(mg.group(1))
        if got != body:
            die(f"fn {name} changed: `{got}` (expected `{body}`)")
    c3_body = fn_body(text, "c3")
    for frag in ["BaseField::from(3u64)*Self::SVDW_Z*Self::SVDW_Z+BaseField::from(4u64)*Self::A",
                 "leta=-Self::c1()*den;", "a.sqrt()", "ifbool::from(sqrt.is_even()){sqrt}else{-sqrt}"]:
        if frag not in c3_body:
            die(f"fn c3 changed: fragment `{frag}` not found in `{c3_body}`")
    c4_body = fn_body(text, "c4")
    for frag in ["letfour=BaseField::from(4u64);",
                 "BaseField::from(3u64)*Self::SVDW_Z*Self::SVDW_Z+four*Self::A",
                 "-four*Self::c1()*(det.invert().unwrap())"]:
        if frag not in c4_body:
            die(f"fn c4 changed: fragment `{frag}` not found in `{c4_body}`")

    g = lambda x: (x * x * x + A * x + B) % p
    c1 = g(Z)
    c2 = (-Z * pow(2, -1, p)) % p
    den = (3 * Z * Z + 4 * A) % p
    if den == 0:
        die("3Z^2 + 4A = 0")
    c3 = sqrt_mod(-c1 * den, p)
    if c3 is None:
        die("-g(Z)(3Z^2+4A) is not a square: c3() panics")
    if c3 % 2 == 1:
        c3 = p - c3
    c4 = (-4 * c1 * pow(den, -1, p)) % p
    s1 = sqrt_mod(c1, p)
    sm1 = sqrt_mod(p - 1, p)
    # a quadratic non-residue (witness that `c1` is / is not a square is then kernel-checkable)
    L = []
    L.append("/-! GENERATED by translators/c06_htc.py from circuits/src/ecc/hash_to_curve/mtc_params.rs")
    L.append("(`impl MapToWeierstrassParams<JubjubBase> for Jubjub`, `impl MapToEdwardsParams`). `svdwZ`, `svdwA`,")
    L.append("`svdwB`, `montJ`, `montK` are the constants of the source; `svdwC1` … `svdwC4`, `svdwSqrtC1`,")
    L.append("`sqrtMinusOne`, `montJThird`, `svdwRho` are computed by the translator and re-checked against their defining equations by")
    L.append("the kernel (Props/C06.lean) and against the running code by the harness. Do not edit. -/")
    L.append("namespace MidnightZK.C06.Gen")
    L.append("")
    L.append("/-- `SVDW_Z` -/")
    L.append(f"def svdwZ : Nat := {Z}")
    L.append("/-- `MapToWeierstrassParams::A` (Weierstrass model of Jubjub) -/")
    L.append(f"def svdwA : Nat := {A}")
    L.append("/-- `MapToWeierstrassParams::B` -/")
    L.append(f"def svdwB : Nat := {B}")
    L.append("/-- `MONT_J` -/")
    L.append(f"def montJ : Nat := {J}")
    L.append("/-- `MONT_K` -/")
    L.append(f"def montK : Nat := {K}")
    L.append("/-- `c1() = g(Z)` -/")
    L.append(f"def svdwC1 : Nat := {c1}")
    L.append("/-- `c2() = -Z/2` -/")
    L.append(f"def svdwC2 : Nat := {c2}")
    L.append("/-- `c3() = sqrt(-g(Z)(3Z² + 4A))`, the even root -/")
    L.append(f"def svdwC3 : Nat := {c3}")
    L.append("/-- `c4() = -4g(Z)/(3Z² + 4A)` -/")
    L.append(f"def svdwC4 : Nat := {c4}")
    L.append("/-- a square root of `c1` (`0` if `c1` is not a square: then the SvdW map has no exceptional input with `tv1 = 0`) -/")
    L.append(f"def svdwSqrtC1 : Nat := {s1 if s1 is not None else 0}")
    L.append("/-- a square root of `-1` in the native field (`0` if none) -/")
    L.append(f"def sqrtMinusOne : Nat := {sm1 if sm1 is not None else 0}")
    L.append("/-- `J/3` (the shift of `weierstrass_to_montgomery`) -/")
    L.append(f"def montJThird : Nat := {J * pow(3, -1, p) % p}")
    L.append("/-- `J/(3K)`: the Weierstrass abscissa of the point of order two, a root of `g` -/")
    L.append(f"def svdwRho : Nat := {J * pow(3 * K, -1, p) % p}")
    L.append("")

    # step kinds of the two 36-step listings (CPU reference and in-circuit gadget)
    cpu_tab = [
        ("inv0", r"\.invert\(\)\.unwrap_or\(C::Base::ZERO\)"),
        ("inv", r"\.invert\(\)\.unwrap\(\)"),
        ("is_square", r"ct_quadratic_non_residue\(\)"),
        ("cmov", r"conditional_select\("),
        ("sqrt", r"\.sqrt\(\)"),
        ("sgn0_eq", r"is_odd\(\)\.ct_eq\("),
        ("square", r"\.square\(\)"),
        ("mul", r"=[^;]*\*"),
        ("add", r"=[^;]*\+"),
        ("sub", r"=[^;]*-"),
    ]
    circ_tab = [
        ("inv0", r"\.inv0\("),
        ("inv", r"\.inv\("),
        ("is_square", r"\.is_square\("),
        ("sgn0_eq", r"\.sgn0\("),
        ("sqrt", r"\.sqrt\(\)"),
        ("cmov", r"\.select\("),
        ("mul", r"\.mul\(|\.mul_by_constant\("),
        ("add", r"\.add_constant\("),
        ("sub", r"\.linear_combination\("),
    ]
    cpu = step_kinds(open(CPU).read(), "svdw_map_to_curve", cpu_tab)
    circ = step_kinds(open(CIRC).read(), "svdw_map_to_weierstrass", circ_tab)
    if sorted(cpu) != list(range(1, 37)) or sorted(circ) != list(range(1, 36)):
        die(f"numbered steps changed: cpu {sorted(cpu)} circuit {sorted(circ)}")

    def canon(k):  # squaring is a multiplication in the circuit
        return "mul" if k == "square" else k
    L.append("/-- kind of each numbered step (1…35) of `mtc_cpu.rs: svdw_map_to_curve` -/")
    L.append("def svdwCpuStepKinds : List String := [" + ", ".join(f'"{canon(cpu[i])}"' for i in range(1, 36)) + "]")
    L.append("/-- kind of each numbered step (1…35) of `mtc.rs: svdw_map_to_weierstrass` -/")
    L.append("def svdwCircStepKinds : List String := [" + ", ".join(f'"{canon(circ[i])}"' for i in range(1, 36)) + "]")
    L.append("")
    L.append("end MidnightZK.C06.Gen")
    out = "\n".join(L) + "\n"
    old = open(OUT).read() if os.path.exists(OUT) else None
    if old != out:
        with open(OUT, "w") as fh:
            fh.write(out)
    print(f"c06_htc: wrote {OUT}")


if __name__ == "__main__":
    main()
