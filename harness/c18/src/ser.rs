//! Serialisation round trips of a ZKIR program: the real `read_relation` on (mutated) bincode
//! bytes and the real `ZkirRelation::read` on (mutated) JSON trees, compared with the Lean
//! decoder models (`decodeBin`, `fromJson`) — verdict class, decoded program, unread bytes and
//! whether re-encoding gives the consumed bytes back.
//!
//! Request `dec <size_of Instruction> <size_of String> <hex>`  → `ok rest=.. canon=.. n=.. <prog>` | `err:<class>`
//! Request `json <tree tokens>`                                → `ok n=.. <prog>` | `err:<class>`
use midnight_zk_stdlib::Relation;
use midnight_zkir::{Instruction, IrType, Operation, ZkirRelation};
use mzkh::{catch, Ctx};
use rand::Rng;
use rand_chacha::ChaCha8Rng;
use serde_json::json;

use crate::text::{classify_msg, fmt_op, hex_bytes};

// ---------------------------------------------------------------------------------------
// canonical text of a decoded program (names as hex of their UTF-8 bytes)

fn fmt_prog_hex(prog: &[Instruction]) -> String {
    let names = |l: &[String]| l.iter().map(|n| format!("x{}", hex_bytes(n.as_bytes()))).collect::<Vec<_>>().join(",");
    let mut out = vec![format!("n={}", prog.len())];
    for i in prog {
        out.push(format!("{};{};{}", fmt_op(&i.operation), names(&i.inputs), names(&i.outputs)));
    }
    out.join(" ")
}

// ---------------------------------------------------------------------------------------
// binary: a fault-injecting encoder (input generator only: the real decoder judges its output)

/// A program whose names are raw bytes (possibly ill-formed UTF-8).
#[derive(Clone, Debug)]
pub struct RawInstr {
    pub op: Operation,
    pub ins: Vec<Vec<u8>>,
    pub outs: Vec<Vec<u8>>,
}

#[derive(Clone, Copy, Debug, PartialEq)]
pub enum Fault {
    /// write the integer with this marker (251 u16, 252 u32, 253 u64, 254 u128) even if a
    /// narrower form exists
    Widen(u8),
    /// write another value
    Replace(u64),
    /// write a single raw byte (255 = reserved marker)
    Raw(u8),
}

struct Enc {
    out: Vec<u8>,
    site: usize,
    fault_at: Option<usize>,
    fault: Fault,
}

impl Enc {
    fn varint(out: &mut Vec<u8>, v: u64) {
        if v < 251 {
            out.push(v as u8)
        } else if v < 1 << 16 {
            out.push(251);
            out.extend_from_slice(&(v as u16).to_le_bytes())
        } else if v < 1 << 32 {
            out.push(252);
            out.extend_from_slice(&(v as u32).to_le_bytes())
        } else {
            out.push(253);
            out.extend_from_slice(&v.to_le_bytes())
        }
    }
    fn int(&mut self, v: u64) {
        let here = self.site;
        self.site += 1;
        if self.fault_at != Some(here) {
            return Self::varint(&mut self.out, v);
        }
        match self.fault {
            Fault::Replace(w) => Self::varint(&mut self.out, w),
            Fault::Raw(b) => self.out.push(b),
            Fault::Widen(m) => {
                let fits = match m {
                    251 => v < 1 << 16,
                    252 => v < 1 << 32,
                    _ => true,
                };
                if !fits {
                    return Self::varint(&mut self.out, v);
                }
                self.out.push(m);
                match m {
                    251 => self.out.extend_from_slice(&(v as u16).to_le_bytes()),
                    252 => self.out.extend_from_slice(&(v as u32).to_le_bytes()),
                    253 => self.out.extend_from_slice(&v.to_le_bytes()),
                    _ => self.out.extend_from_slice(&(v as u128).to_le_bytes()),
                }
            }
        }
    }
    fn ty(&mut self, t: &IrType) {
        match t {
            IrType::Bool => self.int(0),
            IrType::Bytes(n) => {
                self.int(1);
                self.int(*n as u64)
            }
            IrType::Native => self.int(2),
            IrType::BigUint(n) => {
                self.int(3);
                self.int(*n as u64)
            }
            IrType::JubjubPoint => self.int(4),
            IrType::JubjubScalar => self.int(5),
        }
    }
    fn op(&mut self, op: &Operation) {
        use Operation::*;
        match op {
            Load(t) => {
                self.int(0);
                self.ty(t)
            }
            Publish => self.int(1),
            AssertEqual => self.int(2),
            AssertNotEqual => self.int(3),
            IsEqual => self.int(4),
            Add => self.int(5),
            Sub => self.int(6),
            Mul => self.int(7),
            Neg => self.int(8),
            ModExp(n) => {
                self.int(9);
                self.int(*n)
            }
            InnerProduct => self.int(10),
            AffineCoordinates => self.int(11),
            IntoBytes(n) => {
                self.int(12);
                self.int(*n as u64)
            }
            FromBytes(t) => {
                self.int(13);
                self.ty(t)
            }
            Poseidon => self.int(14),
            Sha256 => self.int(15),
            Sha512 => self.int(16),
        }
    }
    fn names(&mut self, l: &[Vec<u8>]) {
        self.int(l.len() as u64);
        for n in l {
            self.int(n.len() as u64);
            self.out.extend_from_slice(n);
        }
    }
}

/// Bytes of `prog` with `fault` applied to the `fault_at`-th integer; also the number of integers.
pub fn encode_raw(prog: &[RawInstr], fault_at: Option<usize>, fault: Fault) -> (Vec<u8>, usize) {
    let mut e = Enc { out: vec![], site: 0, fault_at, fault };
    e.int(prog.len() as u64);
    for i in prog {
        e.op(&i.op);
        e.names(&i.ins);
        e.names(&i.outs);
    }
    (e.out, e.site)
}

fn raw_of(prog: &[Instruction]) -> Vec<RawInstr> {
    prog.iter()
        .map(|i| RawInstr {
            op: i.operation,
            ins: i.inputs.iter().map(|s| s.as_bytes().to_vec()).collect(),
            outs: i.outputs.iter().map(|s| s.as_bytes().to_vec()).collect(),
        })
        .collect()
}

fn dec_class(e: &std::io::Error) -> String {
    let m = e.to_string();
    for (pat, cls) in [
        ("UnexpectedEnd", "eof"),
        ("UnexpectedEof", "eof"),
        ("LimitExceeded", "limit"),
        ("InvalidIntegerType", "varint"),
        ("UnexpectedVariant", "tag"),
        ("Utf8", "utf8"),
    ] {
        if m.contains(pat) {
            return cls.into();
        }
    }
    if m.starts_with("wrong arity") {
        return format!("load:{}", classify_msg(&m));
    }
    format!("other:{}", m.replace(' ', "_").chars().take(80).collect::<String>())
}

pub struct SerOutcome {
    pub op_line: String,
    pub answer: String,
    pub fails: Vec<(String, String, serde_json::Value)>,
    pub nontrivial: bool,
}

/// The real `read_relation` on one byte string.
pub fn dec_case(bytes: &[u8]) -> SerOutcome {
    let op_line = format!(
        "dec {} {} {}",
        std::mem::size_of::<Instruction>(),
        std::mem::size_of::<String>(),
        if bytes.is_empty() { "-".to_string() } else { hex_bytes(bytes) }
    );
    let mut fails = vec![];
    let detail = |obs: serde_json::Value| json!({"bytes_hex": hex_bytes(bytes), "observed": obs, "replay": "write the line `dec <hex>` to a file F, then run the harness binary h-c18 with H_C18_ADHOC=F"});
    let r = catch(|| {
        let mut rd = bytes;
        let r = ZkirRelation::read_relation(&mut rd);
        (r, rd.len())
    });
    let answer = match r {
        Err(p) => {
            fails.push(("C18:read_relation-panics".to_string(), "ZkirRelation::read_relation panics on bytes".to_string(), detail(json!(p))));
            "panic".to_string()
        }
        Ok((Err(e), _)) => format!("err:{}", dec_class(&e)),
        Ok((Ok(rel), rest)) => {
            let prog = rel.verif_instructions();
            // A relation obtained from bytes is a loaded relation: the arity check of
            // `from_instructions` is what keeps the interpreters from indexing out of range
            // (`inps[0]`, `inps[1]`), so the reader must not return a program the loader rejects,
            // and evaluating what it returned must give an error value, never a panic.
            match catch(|| ZkirRelation::from_instructions(&prog).map(|_| ())) {
                Ok(Ok(())) => {}
                Ok(Err(e)) => fails.push((
                    "C18:read_relation-accepts-a-program-that-from_instructions-rejects".to_string(),
                    "ZkirRelation::read_relation returns a relation whose program ZkirRelation::from_instructions rejects (ill-formed program accepted by the binary reader)".to_string(),
                    detail(json!(format!("{e:?}").chars().take(120).collect::<String>())),
                )),
                Err(pm) => fails.push(("C18:from_instructions-panics-on-decoded-program".to_string(), "ZkirRelation::from_instructions panics on a program returned by read_relation".to_string(), detail(json!(pm)))),
            }
            // (only for a program the loader rejects, and never with a byte length that would make
            // the interpreter allocate gigabytes)
            let small = prog.iter().all(|i| !matches!(i.operation, midnight_zkir::Operation::IntoBytes(n) if n > 1 << 16));
            let rejected = fails.iter().any(|f| f.0 == "C18:read_relation-accepts-a-program-that-from_instructions-rejects");
            if !(small && rejected) {
            } else if let Err(pm) = catch(|| rel.verif_eval_offcircuit(std::collections::HashMap::new()).map(|_| ())) {
                fails.push((
                    "C18:relation-read-from-bytes-panics-when-evaluated".to_string(),
                    "off-circuit evaluation of a relation returned by read_relation panics (an ill-formed program must be rejected with an error value)".to_string(),
                    detail(json!(pm.chars().take(120).collect::<String>())),
                ));
            }
            let consumed = &bytes[..bytes.len() - rest];
            let mut again = vec![];
            let canon = match catch(|| rel.write_relation(&mut again)) {
                Ok(Ok(())) => {
                    // what was decoded must itself survive the round trip
                    let back = catch(|| ZkirRelation::read_relation(&mut &again[..]).map(|r| r.verif_instructions()));
                    match back {
                        Ok(Ok(p2)) if p2 == prog => {}
                        other => fails.push((
                            "C18:decoded-program-does-not-survive-its-binary-round-trip".to_string(),
                            "a program returned by read_relation is not read back from its own write_relation bytes".to_string(),
                            detail(json!(format!("{:?}", other.map(|r| r.map(|p| p.len()).map_err(|e| e.to_string()))))),
                        )),
                    }
                    (again == consumed) as u8
                }
                _ => {
                    fails.push(("C18:write_relation-fails-on-decoded-program".to_string(), "write_relation fails on a program returned by read_relation".to_string(), detail(json!(null))));
                    2
                }
            };
            format!("ok rest={rest} canon={canon} {}", fmt_prog_hex(&prog))
        }
    };
    let nontrivial = !answer.ends_with("eof");
    SerOutcome { op_line, answer, fails, nontrivial }
}

fn special_names(rng: &mut ChaCha8Rng) -> Vec<u8> {
    const NAMES: &[&[u8]] = &[
        b"",
        b"x",
        "é".as_bytes(),
        "日本".as_bytes(),
        "𝔘x".as_bytes(),
        "\u{7ff}\u{800}\u{ffff}\u{10000}\u{10ffff}".as_bytes(),
        b"a b;c,d|e=f%",
        b"\x00\x01\x7f",
        // ill-formed UTF-8: lone continuation, overlong, surrogate, > U+10FFFF, truncated, 0xff
        b"\x80",
        b"\xc0\x80",
        b"\xc1\xbf",
        b"\xe0\x9f\xbf",
        b"\xed\xa0\x80",
        b"\xed\x9f\xbf",
        b"\xf0\x8f\xbf\xbf",
        b"\xf4\x90\x80\x80",
        b"\xf4\x8f\xbf\xbf",
        b"\xf5\x80\x80\x80",
        b"\xe2\x82",
        b"a\xffb",
        b"\xc2",
    ];
    NAMES[rng.gen_range(0..NAMES.len())].to_vec()
}

fn special_type(rng: &mut ChaCha8Rng) -> IrType {
    const U: [u64; 12] = [0, 1, 250, 251, 252, 65535, 65536, (1 << 32) - 1, 1 << 32, (1 << 32) + 1, u64::MAX - 1, u64::MAX];
    match rng.gen_range(0..6) {
        0 => IrType::Bool,
        1 => IrType::Bytes(U[rng.gen_range(0..U.len())] as usize),
        2 => IrType::Native,
        3 => IrType::BigUint(U[rng.gen_range(0..8)] as u32),
        4 => IrType::JubjubPoint,
        _ => IrType::JubjubScalar,
    }
}

fn special_op(rng: &mut ChaCha8Rng) -> Operation {
    use Operation::*;
    const U: [u64; 12] = [0, 1, 250, 251, 252, 65535, 65536, (1 << 32) - 1, 1 << 32, (1 << 32) + 1, u64::MAX - 1, u64::MAX];
    match rng.gen_range(0..17) {
        0 => Load(special_type(rng)),
        1 => Publish,
        2 => AssertEqual,
        3 => AssertNotEqual,
        4 => IsEqual,
        5 => Add,
        6 => Sub,
        7 => Mul,
        8 => Neg,
        9 => ModExp(U[rng.gen_range(0..U.len())]),
        10 => InnerProduct,
        11 => AffineCoordinates,
        12 => IntoBytes(U[rng.gen_range(0..U.len())] as usize),
        13 => FromBytes(special_type(rng)),
        14 => Poseidon,
        15 => Sha256,
        _ => Sha512,
    }
}

/// A program of boundary payloads and arbitrary names with the arity each operation wants
/// (`respect` = true) or any arity.
fn special_prog(rng: &mut ChaCha8Rng, respect: bool, utf8_only: bool) -> Vec<RawInstr> {
    let n = rng.gen_range(0..5);
    (0..n)
        .map(|_| {
            let op = special_op(rng);
            let (ni, no) = if respect { good_arity(&op, rng) } else { (rng.gen_range(0..4), rng.gen_range(0..3)) };
            let mut name = |rng: &mut ChaCha8Rng| loop {
                let n = special_names(rng);
                if !utf8_only || std::str::from_utf8(&n).is_ok() {
                    return n;
                }
            };
            RawInstr { op, ins: (0..ni).map(|_| name(rng)).collect(), outs: (0..no).map(|_| name(rng)).collect() }
        })
        .collect()
}

fn good_arity(op: &Operation, rng: &mut ChaCha8Rng) -> (usize, usize) {
    use Operation::*;
    match op {
        Load(_) => (0, rng.gen_range(1..4)),
        Publish => (rng.gen_range(1..4), 0),
        AssertEqual | AssertNotEqual => (2, 0),
        IsEqual | Add | Sub | Mul | ModExp(_) => (2, 1),
        Neg | IntoBytes(_) | FromBytes(_) | Sha256 | Sha512 => (1, 1),
        InnerProduct => (2 * rng.gen_range(1..3), 1),
        AffineCoordinates => (1, 2),
        Poseidon => (rng.gen_range(1..4), 1),
    }
}

pub fn dec_cases(ctx: &mut Ctx, programs: &[Vec<Instruction>]) {
    let (n_struct, n_bytes) = if ctx.quick() { (2500, 1500) } else if ctx.thorough() { (40000, 20000) } else { (8000, 5000) };
    let mut rng = ctx.rng("c18-dec");
    let mut batch: Vec<(String, Vec<u8>)> = vec![];

    // hand-written boundary inputs
    for (kind, h) in [
        ("fixed", ""),
        ("fixed", "00"),
        ("fixed", "00aa"),
        ("fixed", "0101010178 00"),
        ("fixed", "fb0100 01 01 0178 00"),
        ("fixed", "01 fc01000000 01 0178 00"),
        ("fixed", "01 01 01 fd0100000000000000 78 00"),
        ("fixed", "fe01000000000000000000000000000000"),
        ("fixed", "ff"),
        ("fixed", "fd ffffffffffffffff"),
        ("fixed", "fc 80841e00"),
        // the container claim alone exceeds the limit: 233017 instructions announced
        ("fixed", "fc 398e0300"),
        ("fixed", "fc 388e0300"),
        ("fixed", "01 11 00 00"),
        ("fixed", "01 00 06 00 00"),
        ("fixed", "01 00 03 fd0000000001000000 00 00"),
        ("fixed", "01 00 01 fd0000000001000000 00 0178"),
        ("fixed", "01 01 fc 00000001 00"),
        ("fixed", "01 01 01 fc 00000001 00"),
    ] {
        let b: Vec<u8> = crate::text::unhex_bytes(&h.replace(' ', "")).unwrap();
        batch.push((kind.into(), b));
    }

    for k in 0..n_struct {
        let base: Vec<RawInstr> = match k % 4 {
            0 => raw_of(&programs[rng.gen_range(0..programs.len())]),
            1 => special_prog(&mut rng, true, true),
            2 => special_prog(&mut rng, true, false),
            _ => special_prog(&mut rng, false, true),
        };
        let (plain, sites) = encode_raw(&base, None, Fault::Raw(0));
        let (kind, bytes): (&str, Vec<u8>) = match rng.gen_range(0..8) {
            0 => ("valid", plain),
            1 => {
                let m = [251u8, 252, 253, 254][rng.gen_range(0..4)];
                (if m == 254 { "u128-marker" } else { "widened" }, encode_raw(&base, Some(rng.gen_range(0..sites)), Fault::Widen(m)).0)
            }
            2 => {
                let v = [6u64, 17, 18, 250, 251, 255, 65536, u32::MAX as u64, 1 << 32][rng.gen_range(0..9)];
                ("replaced-small", encode_raw(&base, Some(rng.gen_range(0..sites)), Fault::Replace(v)).0)
            }
            3 => {
                let v = [1u64 << 16, 233016, 233017, 699050, 699051, 1 << 24, (1 << 24) - 8, 1 << 40, u64::MAX][rng.gen_range(0..9)];
                ("over-long-length", encode_raw(&base, Some(rng.gen_range(0..sites)), Fault::Replace(v)).0)
            }
            4 => ("reserved-marker", encode_raw(&base, Some(rng.gen_range(0..sites)), Fault::Raw([254u8, 255][rng.gen_range(0..2)])).0),
            5 => {
                let mut b = plain;
                let cut = rng.gen_range(0..=b.len());
                b.truncate(cut);
                ("truncated", b)
            }
            6 => {
                let mut b = plain;
                let extra = rng.gen_range(1..6);
                for _ in 0..extra {
                    b.push(rng.gen());
                }
                ("extended", b)
            }
            _ => {
                let mut b = plain;
                if !b.is_empty() {
                    let i = rng.gen_range(0..b.len());
                    b[i] = rng.gen();
                }
                ("flipped", b)
            }
        };
        batch.push((kind.to_string(), bytes));
    }
    // the bytes the real encoder writes for (possibly wrong-arity) instruction lists
    for k in 0..n_bytes {
        let prog = &programs[k % programs.len()];
        let mut b = bincode::encode_to_vec(prog, bincode::config::standard()).expect("encode");
        let kind = match k % 5 {
            0 => "real-bytes",
            1 => {
                let cut = rng.gen_range(0..=b.len());
                b.truncate(cut);
                "real-truncated"
            }
            2 => {
                let i = rng.gen_range(0..b.len());
                b[i] ^= 1 << rng.gen_range(0..8);
                "real-bitflip"
            }
            3 => {
                let i = rng.gen_range(0..b.len());
                b[i] = [0u8, 1, 6, 17, 250, 251, 252, 253, 254, 255][rng.gen_range(0..10)];
                "real-byte-set"
            }
            _ => {
                let i = rng.gen_range(0..=b.len());
                b.insert(i, rng.gen());
                "real-byte-inserted"
            }
        };
        batch.push((kind.to_string(), b));
    }
    for (kind, bytes) in batch {
        let o = dec_case(&bytes);
        let verdict = if o.answer.starts_with("ok") {
            format!(
                "ok:{}:{}",
                if o.answer.contains(" rest=0 ") { "rest=0" } else { "rest>0" },
                if o.answer.contains(" canon=1 ") { "canonical" } else { "non-canonical" }
            )
        } else {
            o.answer.split(['_', '\'']).next().unwrap_or("").to_string()
        };
        ctx.count(&format!("dec-verdict:{verdict}"));
        ctx.case(&format!("dec:{kind}"), o.nontrivial, &o.op_line, &o.answer);
        for (key, what, d) in o.fails {
            ctx.oracle_fail(&key, &what, d);
        }
    }
}

/// Recorded finding N15: `n` copies of `Publish x` are accepted by `from_instructions` and
/// written by `write_relation`; is the result read back? Returns (bytes written, verdict).
pub fn limit_probe(n: usize) -> (usize, Result<usize, String>) {
    let prog = vec![Instruction { operation: Operation::Publish, inputs: vec!["x".to_string()], outputs: vec![] }; n];
    let rel = ZkirRelation::from_instructions(&prog).expect("valid arity");
    let mut buf = vec![];
    rel.write_relation(&mut buf).expect("write_relation");
    let back = match catch(|| ZkirRelation::read_relation(&mut &buf[..]).map(|r| r.verif_instructions().len())) {
        Ok(Ok(k)) => Ok(k),
        Ok(Err(e)) => Err(dec_class(&e)),
        Err(p) => Err(format!("panic:{p}")),
    };
    (buf.len(), back)
}

pub fn limit_oracle(ctx: &mut Ctx) {
    // the limit is a private constant of zkir.rs (2^24 today, see Gen/C18Serde.lean): if it is
    // raised, the probe is read back and nothing is reported
    let per = std::mem::size_of::<Instruction>();
    for n in [(1usize << 24) / per - 1, (1usize << 24) / per + 1] {
        let (len, back) = limit_probe(n);
        match back {
            Ok(k) if k == n => ctx.count("limit-oracle:read-back"),
            other => {
                ctx.count("limit-oracle:not-read-back");
                ctx.oracle_fail(
                    "C18:N15-program-beyond-the-decoding-limit-is-written-but-not-read-back",
                    "a valid program written by write_relation is rejected by read_relation (decoding limit)",
                    json!({"instructions": n, "bytes_written": len, "observed": format!("{other:?}"), "replay": "H_C18_ADHOC=F h-c18 with F containing the line `limit <n>`"}),
                );
            }
        }
    }
}

// ---------------------------------------------------------------------------------------
// JSON

#[derive(Clone, Debug, PartialEq)]
pub enum J {
    Null,
    Bool(bool),
    /// integer literal within `i64::MIN ..= u64::MAX`
    Num(i128),
    /// any other number, with its text
    Float(&'static str),
    Str(String),
    Arr(Vec<J>),
    Obj(Vec<(String, J)>),
}

impl J {
    fn of_value(v: &serde_json::Value) -> J {
        use serde_json::Value::*;
        match v {
            Null => J::Null,
            Bool(b) => J::Bool(*b),
            Number(n) => match (n.as_u64(), n.as_i64()) {
                (Some(u), _) => J::Num(u as i128),
                (_, Some(i)) => J::Num(i as i128),
                _ => J::Float("0.5"),
            },
            String(s) => J::Str(s.clone()),
            Array(a) => J::Arr(a.iter().map(J::of_value).collect()),
            Object(m) => J::Obj(m.iter().map(|(k, v)| (k.clone(), J::of_value(v))).collect()),
        }
    }
    fn text(&self) -> String {
        match self {
            J::Null => "null".into(),
            J::Bool(b) => b.to_string(),
            J::Num(n) => n.to_string(),
            J::Float(t) => t.to_string(),
            J::Str(s) => serde_json::to_string(s).unwrap(),
            J::Arr(a) => format!("[{}]", a.iter().map(|x| x.text()).collect::<Vec<_>>().join(",")),
            J::Obj(m) => format!(
                "{{{}}}",
                m.iter().map(|(k, v)| format!("{}:{}", serde_json::to_string(k).unwrap(), v.text())).collect::<Vec<_>>().join(",")
            ),
        }
    }
    fn tokens(&self, out: &mut Vec<String>) {
        match self {
            J::Null => out.push("z".into()),
            J::Bool(true) => out.push("t".into()),
            J::Bool(false) => out.push("f".into()),
            J::Num(n) => out.push(format!("n{n}")),
            J::Float(_) => out.push("d".into()),
            J::Str(s) => out.push(format!("s{}", hex_bytes(s.as_bytes()))),
            J::Arr(a) => {
                out.push("[".into());
                a.iter().for_each(|x| x.tokens(out));
                out.push("]".into());
            }
            J::Obj(m) => {
                out.push("{".into());
                for (k, v) in m {
                    out.push(format!("k{}", hex_bytes(k.as_bytes())));
                    v.tokens(out);
                }
                out.push("}".into());
            }
        }
    }
}

fn json_class(e: &midnight_zkir::Error) -> String {
    let m = match e {
        midnight_zkir::Error::Other(m) => m.clone(),
        other => return format!("load:{}", classify_msg(&format!("{other:?}"))),
    };
    let field = |pre: &str| m.strip_prefix(pre).and_then(|r| r.split('`').next()).unwrap_or("?").to_string();
    if m.starts_with("missing field `") {
        format!("missing-field:{}", field("missing field `"))
    } else if m.starts_with("duplicate field `") {
        format!("duplicate-field:{}", field("duplicate field `"))
    } else if m.starts_with("unknown variant") {
        "unknown-variant".into()
    } else if m.starts_with("invalid type") {
        "invalid-type".into()
    } else if m.starts_with("invalid value") {
        "invalid-value".into()
    } else if m.starts_with("invalid length") {
        "invalid-length".into()
    } else if m.starts_with("expected value") || m.starts_with("trailing characters") || m.starts_with("expected `") || m.starts_with("trailing comma") {
        "syntax".into()
    } else {
        format!("other:{}", m.replace(' ', "_").chars().take(80).collect::<String>())
    }
}

/// The real `ZkirRelation::read` on the text of one JSON tree.
pub fn json_case(j: &J) -> SerOutcome {
    let mut toks = vec![];
    j.tokens(&mut toks);
    let op_line = format!("json {}", toks.join(" "));
    let text = j.text();
    let mut fails = vec![];
    let leaked: &'static str = Box::leak(text.clone().into_boxed_str());
    let answer = match catch(|| ZkirRelation::read(leaked)) {
        Err(p) => {
            fails.push((
                "C18:ZkirRelation::read-panics".to_string(),
                "ZkirRelation::read panics on JSON text".to_string(),
                json!({"json": text, "observed": p}),
            ));
            "panic".to_string()
        }
        Ok(Err(e)) => format!("err:{}", json_class(&e)),
        Ok(Ok(rel)) => {
            let prog = rel.verif_instructions();
            // what was read must be read back from its own serialisation
            let again = format!("{{\"instructions\":{}}}", serde_json::to_string(&prog).unwrap());
            let l2: &'static str = Box::leak(again.clone().into_boxed_str());
            match catch(|| ZkirRelation::read(l2).map(|r| r.verif_instructions())) {
                Ok(Ok(p2)) if p2 == prog => {}
                _ => fails.push((
                    "C18:read-program-does-not-survive-its-json-round-trip".to_string(),
                    "a program returned by ZkirRelation::read is not read back from its own JSON serialisation".to_string(),
                    json!({"json": text, "again": again}),
                )),
            }
            format!("ok {}", fmt_prog_hex(&prog))
        }
    };
    SerOutcome { op_line, answer, fails, nontrivial: true }
}

fn junk(rng: &mut ChaCha8Rng, depth: usize) -> J {
    match rng.gen_range(0..if depth == 0 { 6 } else { 8 }) {
        0 => J::Null,
        1 => J::Bool(rng.gen()),
        2 => J::Num([0i128, 1, -1, 5, 250, u32::MAX as i128, 1 << 32, i64::MIN as i128, u64::MAX as i128][rng.gen_range(0..9)]),
        3 => J::Float(["0.5", "5.0", "1e2", "18446744073709551616", "-9223372036854775809", "-1.5"][rng.gen_range(0..6)]),
        4 => J::Str(["", "x", "publish", "load", "Bool", "é", "a\"b\\c\n"][rng.gen_range(0..7)].to_string()),
        5 => J::Arr(vec![]),
        6 => J::Arr((0..rng.gen_range(1..3)).map(|_| junk(rng, depth - 1)).collect()),
        _ => J::Obj((0..rng.gen_range(0..3)).map(|_| (["a", "op", "inputs", "x"][rng.gen_range(0..4)].to_string(), junk(rng, depth - 1))).collect()),
    }
}

/// Paths of the nodes of a tree, in document order.
fn paths(j: &J, here: &mut Vec<usize>, out: &mut Vec<Vec<usize>>) {
    out.push(here.clone());
    match j {
        J::Arr(a) => {
            for (i, x) in a.iter().enumerate() {
                here.push(i);
                paths(x, here, out);
                here.pop();
            }
        }
        J::Obj(m) => {
            for (i, (_, x)) in m.iter().enumerate() {
                here.push(i);
                paths(x, here, out);
                here.pop();
            }
        }
        _ => {}
    }
}

fn node_ref<'a>(j: &'a J, path: &[usize]) -> &'a J {
    match path.split_first() {
        None => j,
        Some((i, rest)) => match j {
            J::Arr(a) => node_ref(&a[*i], rest),
            J::Obj(m) => node_ref(&m[*i].1, rest),
            _ => unreachable!(),
        },
    }
}

fn node_mut<'a>(j: &'a mut J, path: &[usize]) -> &'a mut J {
    match path.split_first() {
        None => j,
        Some((i, rest)) => match j {
            J::Arr(a) => node_mut(&mut a[*i], rest),
            J::Obj(m) => node_mut(&mut m[*i].1, rest),
            _ => unreachable!(),
        },
    }
}

/// One mutation of the node at a random path: what a liberal or a careless writer could emit.
fn mutate_json(rng: &mut ChaCha8Rng, tree: &J) -> (J, &'static str) {
    let mut t = tree.clone();
    let mut ps = vec![];
    paths(&t, &mut vec![], &mut ps);
    // prefer a node on which the chosen mutation applies: try a few times
    for _ in 0..40 {
        let choice = rng.gen_range(0..16);
        // number mutations look for a number node, the others take any node
        let cands: Vec<&Vec<usize>> = if (9..=11).contains(&choice) {
            ps.iter().filter(|p| matches!(node_ref(tree, p), J::Num(_))).collect()
        } else {
            ps.iter().collect()
        };
        if cands.is_empty() {
            continue;
        }
        let p = cands[rng.gen_range(0..cands.len())].clone();
        let depth_junk = junk(rng, 2);
        let n = node_mut(&mut t, &p);
        let tag: Option<&'static str> = match (choice, &mut *n) {
            (0, J::Obj(m)) if m.len() >= 2 => {
                let i = rng.gen_range(0..m.len());
                let j = rng.gen_range(0..m.len());
                m.swap(i, j);
                Some("keys-reordered")
            }
            (1, J::Obj(m)) if !m.is_empty() => {
                let i = rng.gen_range(0..m.len());
                m.remove(i);
                Some("key-removed")
            }
            (2, J::Obj(m)) if !m.is_empty() => {
                let i = rng.gen_range(0..m.len());
                let kv = m[i].clone();
                let at = rng.gen_range(0..=m.len());
                m.insert(at, kv);
                Some("key-duplicated")
            }
            (3, J::Obj(m)) => {
                let at = rng.gen_range(0..=m.len());
                let k = ["extra", "Op", "input", "", "é", "instructions", "op"][rng.gen_range(0..7)];
                m.insert(at, (k.to_string(), depth_junk));
                Some("key-added")
            }
            (4, J::Obj(m)) => {
                // struct / enum written as an array of its values
                let vals: Vec<J> = m.iter().map(|(_, v)| v.clone()).collect();
                let keep = rng.gen_range(0..=vals.len() + 1);
                let mut a: Vec<J> = vals.into_iter().take(keep).collect();
                if keep > a.len() {
                    a.push(depth_junk);
                }
                *n = J::Arr(a);
                Some("object-as-array")
            }
            (5, J::Str(s)) => {
                // unit variant in map form / newtype variant without payload
                let payload = [J::Null, J::Num(5), J::Arr(vec![]), J::Str("x".into()), J::Bool(false)][rng.gen_range(0..5)].clone();
                *n = J::Obj(vec![(s.clone(), payload)]);
                Some("string-as-variant-object")
            }
            (6, J::Obj(m)) if m.len() == 1 => {
                *n = J::Str(m[0].0.clone());
                Some("variant-object-as-string")
            }
            (7, J::Str(s)) => {
                *s = ["Load", "foo", "", "bool", "PUBLISH", "load", "publish", "Bool", "Bytes", "BigUint", "mod_exp", "into_bytes", "sha256", "Sha256"][rng.gen_range(0..14)].to_string();
                Some("string-replaced")
            }
            (8, J::Obj(m)) if m.len() == 1 => {
                m[0].0 = ["Load", "foo", "", "load", "publish", "Bool", "Bytes", "BigUint", "mod_exp", "into_bytes", "from_bytes", "Native"][rng.gen_range(0..12)].to_string();
                Some("variant-renamed")
            }
            (9, J::Num(v)) => {
                *v = [-1i128, 0, 250, 251, u32::MAX as i128, (u32::MAX as i128) + 1, i64::MAX as i128, (i64::MAX as i128) + 1, u64::MAX as i128, i64::MIN as i128][rng.gen_range(0..10)];
                Some("number-replaced")
            }
            (10, J::Num(_)) => {
                *n = J::Float(["0.5", "5.0", "1e2", "18446744073709551616", "-9223372036854775809", "5e-1"][rng.gen_range(0..6)]);
                Some("number-as-float")
            }
            (11, J::Num(v)) => {
                *n = J::Str(v.to_string());
                Some("number-as-string")
            }
            (12, _) => {
                *n = depth_junk;
                Some("node-replaced")
            }
            (13, J::Arr(a)) => {
                let at = rng.gen_range(0..=a.len());
                a.insert(at, depth_junk);
                Some("element-inserted")
            }
            (14, J::Arr(a)) if !a.is_empty() => {
                let i = rng.gen_range(0..a.len());
                a.remove(i);
                Some("element-removed")
            }
            (15, J::Obj(m)) if m.len() == 1 => {
                // a second key in an enum object
                m.push((["x", "load", "publish"][rng.gen_range(0..3)].to_string(), depth_junk));
                Some("variant-object-two-keys")
            }
            _ => None,
        };
        if let Some(tag) = tag {
            return (t, tag);
        }
    }
    (t, "unchanged")
}

pub fn json_cases(ctx: &mut Ctx, programs: &[Vec<Instruction>]) {
    let n = if ctx.quick() { 4000 } else if ctx.thorough() { 60000 } else { 12000 };
    let mut rng = ctx.rng("c18-json");
    let mut batch: Vec<(String, J)> = vec![];
    let s = |x: &str| J::Str(x.to_string());
    let o = |kv: Vec<(&str, J)>| J::Obj(kv.into_iter().map(|(k, v)| (k.to_string(), v)).collect());
    // hand-written shapes
    for j in [
        o(vec![]),
        J::Arr(vec![]),
        J::Null,
        J::Arr(vec![J::Arr(vec![])]),
        J::Arr(vec![J::Arr(vec![]), J::Null]),
        o(vec![("instructions", J::Arr(vec![]))]),
        o(vec![("instructions", J::Arr(vec![])), ("instructions", J::Arr(vec![]))]),
        o(vec![("instructions", J::Null)]),
        o(vec![("instructions", J::Arr(vec![o(vec![("op", s("publish")), ("inputs", J::Arr(vec![s("x")]))])]))]),
        o(vec![("instructions", J::Arr(vec![o(vec![("inputs", J::Arr(vec![s("x")]))])]))]),
        o(vec![("instructions", J::Arr(vec![J::Arr(vec![s("publish"), J::Arr(vec![s("x")])])]))]),
        o(vec![("instructions", J::Arr(vec![J::Arr(vec![s("publish"), J::Arr(vec![s("x")]), J::Arr(vec![]), J::Null])]))]),
        o(vec![("instructions", J::Arr(vec![J::Arr(vec![])]))]),
        o(vec![("instructions", J::Arr(vec![o(vec![("op", o(vec![("publish", J::Null)])), ("inputs", J::Arr(vec![s("x")]))])]))]),
        o(vec![("instructions", J::Arr(vec![o(vec![("op", o(vec![("load", s("Bool"))])), ("outputs", J::Arr(vec![s("x")]))])]))]),
        o(vec![("instructions", J::Arr(vec![o(vec![("op", o(vec![("load", o(vec![("Bool", J::Null)]))])), ("outputs", J::Arr(vec![s("x")]))])]))]),
        o(vec![("instructions", J::Arr(vec![o(vec![("op", o(vec![("load", o(vec![("BigUint", J::Num(1 << 32))]))])), ("outputs", J::Arr(vec![s("x")]))])]))]),
        o(vec![("instructions", J::Arr(vec![o(vec![("op", o(vec![("load", o(vec![("Bytes", J::Num(u64::MAX as i128))]))])), ("outputs", J::Arr(vec![s("x")]))])]))]),
        o(vec![("instructions", J::Arr(vec![o(vec![("op", o(vec![]))])]))]),
        o(vec![("instructions", J::Arr(vec![o(vec![("op", s("load"))])]))]),
        o(vec![("instructions", J::Arr(vec![o(vec![("op", J::Num(1))])]))]),
    ] {
        batch.push(("fixed".into(), j));
    }
    for k in 0..n {
        let prog = &programs[k % programs.len()];
        // the tree the real serialiser produces
        let base = J::Obj(vec![("instructions".to_string(), J::of_value(&serde_json::to_value(prog).unwrap()))]);
        if k % 8 == 0 {
            batch.push(("real-tree".into(), base));
            continue;
        }
        let (mut t, mut tag) = mutate_json(&mut rng, &base);
        if k % 8 == 1 {
            let (t2, tag2) = mutate_json(&mut rng, &t);
            t = t2;
            if tag == "unchanged" {
                tag = tag2;
            }
        }
        batch.push((tag.to_string(), t));
    }
    for (kind, j) in batch {
        let o = json_case(&j);
        ctx.count(&format!("json-verdict:{}", o.answer.split([' ', '_']).next().unwrap_or("")));
        ctx.case(&format!("json:{kind}"), o.nontrivial, &o.op_line, &o.answer);
        for (key, what, d) in o.fails {
            ctx.oracle_fail(&key, &what, d);
        }
    }
}
