//! Correspondence harness of property C18 (stub).
use mzkh::Ctx;

fn main() {
    let ctx = Ctx::from_args("C18");
    ctx.finish();
}
