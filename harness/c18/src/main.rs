//! Correspondence harness of property C18 (ZKIR: off-circuit evaluation and the compiled
//! circuit agree on every program).
//!
//! Request line:  `run <instr>... | <name>=<value>... | <hash-table entries>...`
//! Answer line:   `load:.. | trace:.. | off:.. | cmp:.. | shp:.. | ieq:.. | arch:.. | pi:.. | mock:.. | bin:..`
//! (see `text.rs` for the encodings and `run.rs` for what each section observes).
mod gen;
mod rec;
mod run;
mod ser;
mod text;

use mzkh::Ctx;
use rayon::prelude::*;

use crate::{run::run_case, text::parse_case_body};

thread_local! {
    static SEEN_KEYS: std::cell::RefCell<std::collections::HashSet<String>> = Default::default();
}

fn emit(ctx: &mut Ctx, outs: Vec<run::Outcome>, kind: &str) {
    for o in outs {
        ctx.case(kind, o.nontrivial, &o.op_line, &o.answer);
        for t in &o.tags {
            ctx.count(t);
        }
        for (key, what, detail) in o.fails {
            // one record per failure class, so that a frequent class cannot crowd out another
            ctx.count(&format!("oracle-fail-class:{}", key.chars().take(70).collect::<String>()));
            if SEEN_KEYS.with(|s| s.borrow_mut().insert(key.clone())) {
                ctx.oracle_fail(&key, &what, detail);
            }
        }
    }
}

pub fn run_batch(ctx: &mut Ctx, kind: &str, cases: Vec<text::Case>, with_mock: bool) {
    let outs: Vec<run::Outcome> =
        cases.par_iter().map(|c| run_case(c, with_mock)).collect();
    emit(ctx, outs, kind);
}

fn main() {
    if let Ok(path) = std::env::var("H_C18_ADHOC") {
        if std::env::var("H_C18_DEBUG").is_err() {
            mzkh::quiet_panics();
        }
        for line in std::fs::read_to_string(path).unwrap().lines() {
            let line = line.trim();
            if line.is_empty() || line.starts_with('#') {
                continue;
            }
            if let Some(rest) = line.strip_prefix("dec ") {
                // `dec [<sizes>] <hex>`: the real read_relation on bytes
                let h = rest.split(' ').last().unwrap_or("");
                match text::unhex_bytes(if h == "-" { "" } else { h }) {
                    None => println!("unparsable: {line}"),
                    Some(b) => {
                        let o = ser::dec_case(&b);
                        println!("{}\n  => {}", o.op_line, o.answer);
                        for (_, what, d) in o.fails {
                            println!("  ORACLE-FAIL: {what} {}", d["observed"]);
                        }
                    }
                }
                continue;
            }
            if let Some(rest) = line.strip_prefix("limit ") {
                println!("{line}\n  => {:?}", ser::limit_probe(rest.trim().parse().expect("number of instructions")));
                continue;
            }
            if let Some(rest) = line.strip_prefix("jsontext ") {
                // `jsontext <JSON>`: the real ZkirRelation::read on a text
                let leaked: &'static str = Box::leak(rest.to_string().into_boxed_str());
                println!("{line}\n  => {:?}", mzkh::catch(|| midnight_zkir::ZkirRelation::read(leaked).map(|r| r.verif_instructions())));
                continue;
            }
            if let Some(rest) = line.strip_prefix("regions ") {
                // `regions <case>`: histogram of the region names of the witness-free synthesis
                if let Some(c) = parse_case_body(rest) {
                    println!("{line}\n  => {:?}", run::region_histogram(&c.prog));
                }
                continue;
            }
            let body = line.strip_prefix("run0 ").or(line.strip_prefix("run ")).unwrap_or(line);
            match parse_case_body(body) {
                None => println!("unparsable: {line}"),
                Some(c) => {
                    let o = run_case(&c, std::env::var("H_C18_NOMOCK").is_err());
                    if std::env::var("H_C18_RAW").is_ok() {
                        println!("{}\t{}", o.op_line, o.answer);
                        continue;
                    }
                    println!("{}\n  => {}", o.op_line, o.answer.replace(" | ", "\n     "));
                    for (_, what, d) in o.fails {
                        println!("  ORACLE-FAIL: {what} {}", d["observed"]);
                    }
                }
            }
        }
        return;
    }
    let mut ctx = Ctx::from_args("C18");
    // H_C18_ONLY=ser: development aid, runs the serialisation sections alone
    let only_ser = std::env::var("H_C18_ONLY").map(|v| v == "ser").unwrap_or(false);
    if !only_ser {
        let fixed = gen::fixed_cases();
        run_batch(&mut ctx, "fixed", fixed, true);
        gen::generated(&mut ctx);
    }
    // serialisation: decoder / JSON reader correspondence on (mutated) encodings
    let programs: Vec<Vec<midnight_zkir::Instruction>> = {
        let mut rng = ctx.rng("c18-ser-programs");
        (0..400)
            .map(|i| {
                let c = gen::random_case(&mut rng, 1 + i % 12, i % 2 == 0);
                if i % 5 == 4 {
                    gen::mutate(&mut rng, &c).0.prog
                } else {
                    c.prog
                }
            })
            .collect()
    };
    ser::dec_cases(&mut ctx, &programs);
    ser::json_cases(&mut ctx, &programs);
    ser::limit_oracle(&mut ctx);
    ctx.count_n(
        "mock-verify-panics-while-reporting-a-violated-gate(counted-as-unsat)",
        run::VERIFY_REPORT_PANICS.load(std::sync::atomic::Ordering::Relaxed) as u64,
    );
    ctx.finish();
}
