//! Runs one ZKIR case through the real implementation: loader, off-circuit interpreter
//! (with a per-instruction trace), in-circuit compilation, public-input encoding, the mock
//! checker on the compiled circuit, and the JSON / binary round trips. Everything under
//! `catch`; the property's oracle is evaluated directly on the observations.
use std::collections::HashMap;

use midnight_proofs::{circuit::Value, dev::cost_model::dummy_synthesize_run, dev::MockProver};
use midnight_zk_stdlib::{MidnightCircuit, Relation};
use midnight_zkir::{Instruction, IrType, IrValue, Operation, ZkirRelation};
use mzkh::catch;
use serde_json::json;

use crate::text::*;

/// Number of times `MockProver::verify` panicked while reporting a violated constraint.
pub static VERIFY_REPORT_PANICS: std::sync::atomic::AtomicUsize = std::sync::atomic::AtomicUsize::new(0);

pub struct Outcome {
    pub op_line: String,
    pub answer: String,
    pub fails: Vec<(String, String, serde_json::Value)>,
    pub tags: Vec<String>,
    pub nontrivial: bool,
}

fn leak(s: &str) -> &'static str {
    Box::leak(s.to_string().into_boxed_str())
}

fn witness_map(c: &Case) -> HashMap<&'static str, IrValue> {
    c.wit.iter().map(|(n, v)| (leak(n), v.clone())).collect()
}

fn is_hash(op: &Operation) -> Option<&'static str> {
    match op {
        Operation::Sha256 => Some("sha256"),
        Operation::Sha512 => Some("sha512"),
        Operation::Poseidon => Some("poseidon"),
        _ => None,
    }
}

fn hash_key(kind: &str, ins: &[IrValue]) -> Option<String> {
    match kind {
        "poseidon" => ins
            .iter()
            .map(|v| if let IrValue::Native(x) = v { Some(f_hex(x)) } else { None })
            .collect::<Option<Vec<_>>>()
            .map(|v| v.join(",")),
        _ => match ins {
            [IrValue::Bytes(b)] => Some(hex_bytes(b)),
            _ => None,
        },
    }
}

fn hash_out(v: &IrValue) -> String {
    match v {
        IrValue::Bytes(b) => hex_bytes(b),
        IrValue::Native(x) => f_hex(x),
        _ => "?".into(),
    }
}

enum Off {
    Ok(Vec<IrValue>),
    Err(String),
    Panic(String),
}

fn eval_off(prog: &[Instruction], w: &HashMap<&'static str, IrValue>) -> Off {
    match catch(|| {
        ZkirRelation::from_instructions(prog).and_then(|r| r.verif_eval_offcircuit(w.clone()))
    }) {
        Ok(Ok(v)) => Off::Ok(v),
        Ok(Err(e)) => Off::Err(classify_zkir(&e)),
        Err(p) => Off::Panic(p),
    }
}

/// Error class without names, numbers and types (for the distribution table).
fn coarse(cl: &str) -> String {
    if cl.ends_with("_not_found") {
        "not-found".into()
    } else if cl.ends_with("_already_exists") {
        "duplicated-name".into()
    } else if cl.starts_with("type_") {
        "expecting-type".into()
    } else if let Some((op, _)) = cl.split_once("_is_not_supported_on_") {
        format!("unsupported:{}", op.split('(').next().unwrap_or(op))
    } else {
        cl.chars().take(32).collect()
    }
}

fn err_is_witness_condition(class: &str) -> bool {
    // assertion, range, underflow or encoding condition of the property statement
    matches!(class, "other:assert" | "other:underflow" | "other:cannot-convert" | "other:zero-modulus")
}

/// Names of Jubjub scalars produced by `FromBytes(JubjubScalar)` from no byte or from 32 bytes
/// or more: in-circuit they are published as `ceil(8n/254)` elements of raw bits.
fn long_scalars(prog: &[Instruction], trace: &[(Vec<IrValue>, Vec<IrValue>)]) -> Vec<String> {
    let mut out = vec![];
    for (k, i) in prog.iter().enumerate() {
        if i.operation == Operation::FromBytes(IrType::JubjubScalar) {
            if let Some((iv, _)) = trace.get(k) {
                if let Some(IrValue::Bytes(b)) = iv.first() {
                    if b.len() >= 32 || b.is_empty() {
                        out.extend(i.outputs.clone());
                    }
                }
            }
        }
    }
    out
}

/// The program with the given names removed from every `Publish` (empty ones dropped).
fn unpublish(prog: &[Instruction], names: &[String]) -> Vec<Instruction> {
    prog.iter()
        .filter_map(|i| {
            if i.operation != Operation::Publish {
                return Some(i.clone());
            }
            let ins: Vec<String> = i.inputs.iter().filter(|n| !names.contains(n)).cloned().collect();
            if ins.is_empty() {
                None
            } else {
                Some(Instruction { operation: Operation::Publish, inputs: ins, outputs: vec![] })
            }
        })
        .collect()
}

/// The program with `Publish <outputs>` inserted after every instruction that has outputs.
pub fn interleave_publish(prog: &[Instruction]) -> Vec<Instruction> {
    let mut out = vec![];
    for i in prog {
        out.push(i.clone());
        if !i.outputs.is_empty() {
            out.push(Instruction { operation: Operation::Publish, inputs: i.outputs.clone(), outputs: vec![] });
        }
    }
    out
}

pub fn strip_publish(prog: &[Instruction]) -> Vec<Instruction> {
    prog.iter().filter(|i| i.operation != Operation::Publish).cloned().collect()
}

/// Mock-checker verdict of the compiled circuit of `prog` under witness `w` and raw public
/// inputs `pi`.
fn mock(prog: &[Instruction], w: &HashMap<&'static str, IrValue>, inst: Vec<(IrValue, IrType)>, pi: Vec<F>) -> String {
    // `MockProver::run` asserts that the instance column fits in the usable rows. When the
    // off-circuit instance is longer than what the (minimal) circuit binds, we enlarge the
    // circuit instead: the extra values are then ignored by the checker, as for shorter ones.
    let mut extra_k = 0;
    loop {
        let r = catch(|| -> Result<String, String> {
            let rel = ZkirRelation::from_instructions(prog).map_err(|e| format!("err:{}", classify_zkir(&e)))?;
            let k = MidnightCircuit::from_relation(&rel).min_k() + extra_k;
            let circuit = MidnightCircuit::new(&rel, Value::known(inst.clone()), Value::known(w.clone()), None);
            match MockProver::run(k, &circuit, vec![vec![], pi.clone()]) {
                Err(e) => Ok(format!("err:{}", classify_plonk(&e))),
                // `verify` can panic while *describing* a violated gate that queries an
                // unassigned cell (proofs/src/dev/util.rs `Value::Poison => unreachable!()`):
                // that code is only reached for a constraint that is not satisfied.
                Ok(p) => Ok(match catch(|| p.verify()) {
                    Ok(Ok(())) => "sat".to_string(),
                    Ok(Err(_)) => "unsat".to_string(),
                    Err(_) => {
                        VERIFY_REPORT_PANICS.fetch_add(1, std::sync::atomic::Ordering::Relaxed);
                        "unsat".to_string()
                    }
                }),
            }
        });
        match r {
            Ok(Ok(s)) | Ok(Err(s)) => return s,
            Err(p) => {
                if p.starts_with("instance.len=") && extra_k < 4 {
                    extra_k += 1;
                    continue;
                }
                if std::env::var("H_C18_DEBUG").is_ok() {
                    eprintln!("mock panic: {p}");
                }
                return "panic".to_string();
            }
        }
    }
}

/// Region names (with multiplicities, sorted) of the witness-free synthesis of `prog`.
pub fn region_histogram(prog: &[Instruction]) -> Result<Vec<(String, usize)>, String> {
    let names = region_names_of(prog)?;
    let mut m: std::collections::BTreeMap<String, usize> = Default::default();
    for n in names {
        *m.entry(n).or_default() += 1;
    }
    Ok(m.into_iter().collect())
}

fn region_names_of(prog: &[Instruction]) -> Result<Vec<String>, String> {
    match catch(|| {
        let rel = ZkirRelation::from_instructions(prog).map_err(|e| classify_zkir(&e))?;
        crate::rec::region_names(&MidnightCircuit::new(&rel, Value::unknown(), Value::unknown(), Some(8)))
    }) {
        Ok(r) => r,
        Err(_) => Err("panic".into()),
    }
}

pub fn run_case(c: &Case, with_mock: bool) -> Outcome {
    let kind = if with_mock { "run" } else { "run0" };
    let body = fmt_case_body(c);
    let mut fails: Vec<(String, String, serde_json::Value)> = vec![];
    let mut tags: Vec<String> = vec![];
    // The key is the stable identity of the failure class: what fails and its signature
    // (panic message / error class with numbers masked), not the particular program.
    let mut fail = |what: &str, extra: serde_json::Value| {
        let sig: String = match &extra {
            serde_json::Value::String(s) => s.clone(),
            serde_json::Value::Null => String::new(),
            other => other.to_string(),
        };
        let sig: String = sig
            .lines()
            .next()
            .unwrap_or("")
            .chars()
            .map(|ch| if ch.is_ascii_digit() { '#' } else { ch })
            .take(90)
            .collect();
        let key = if what.starts_with("KNOWN-CLASS ") {
            what["KNOWN-CLASS ".len()..].split(' ').next().unwrap_or("").to_string()
        } else {
            format!("C18:{}:{}", what.replace(' ', "-"), sig.replace(' ', "-"))
        };
        fails.push((
            key,
            what.trim_start_matches("KNOWN-CLASS ").to_string(),
            json!({"case": body, "observed": extra, "replay": "write the line `run <case>` to a file F, then run the harness binary h-c18 with H_C18_ADHOC=F"}),
        ));
    };
    let w = witness_map(c);
    // variables whose names are also constant literals: where they are bound and whether used
    {
        let is_lit = |n: &String| crate::gen::LITERAL_NAMES.contains(&n.as_str());
        let mut bound: Vec<&String> = vec![];
        for i in &c.prog {
            if i.inputs.iter().any(|n| bound.contains(&n)) {
                tags.push("literal-like-name:used-as-input-after-binding".into());
            }
            if i.outputs.iter().any(is_lit) {
                tags.push(if matches!(i.operation, Operation::Load(_)) { "literal-like-name:bound-by-Load".into() } else { "literal-like-name:bound-as-operation-output".into() });
                bound.extend(i.outputs.iter().filter(|n| is_lit(n)));
            }
        }
    }
    let mut sections: Vec<String> = vec![];
    let mut hash_table: Vec<String> = vec![];

    // 1. loader (arity check)
    let rel = match catch(|| ZkirRelation::from_instructions(&c.prog)) {
        Err(p) => {
            fail("ZkirRelation::from_instructions panics", json!(p));
            sections.push("load:panic".into());
            None
        }
        Ok(Err(e)) => {
            let cl = classify_zkir(&e);
            tags.push("load:wrong-arity".into());
            sections.push(format!("load:{cl}"));
            None
        }
        Ok(Ok(r)) => {
            sections.push("load:ok".into());
            Some(r)
        }
    };

    if let Some(rel) = rel {
        // 2. off-circuit trace: after each instruction, the values of its inputs and outputs
        let mut trace: Vec<String> = vec![];
        let mut trace_vals: Vec<(Vec<IrValue>, Vec<IrValue>)> = vec![];
        let mut off_pos_err: Option<(usize, String)> = None;
        for k in 0..c.prog.len() {
            let ins = &c.prog[k];
            let mut p: Vec<Instruction> = c.prog[..=k].to_vec();
            let mut names = ins.inputs.clone();
            names.extend(ins.outputs.clone());
            let nb_before: usize = c.prog[..=k]
                .iter()
                .filter(|i| i.operation == Operation::Publish)
                .map(|i| i.inputs.len())
                .sum();
            if !names.is_empty() {
                p.push(Instruction { operation: Operation::Publish, inputs: names, outputs: vec![] });
            }
            match eval_off(&p, &w) {
                Off::Ok(vals) => {
                    let vals = &vals[nb_before.min(vals.len())..];
                    let (iv, ov) = vals.split_at(ins.inputs.len().min(vals.len()));
                    trace_vals.push((iv.to_vec(), ov.to_vec()));
                    trace.push(format!(
                        "{}>{}",
                        iv.iter().map(fmt_val).collect::<Vec<_>>().join(","),
                        ov.iter().map(fmt_val).collect::<Vec<_>>().join(",")
                    ));
                    if let Some(hk) = is_hash(&ins.operation) {
                        // the digest belongs to the input values BEFORE the instruction: an output
                        // name may shadow a constant literal used as its input (`sha512;b0;b0`)
                        let iv_before: Vec<IrValue> = if ins.outputs.iter().any(|o| ins.inputs.contains(o)) {
                            let mut p0: Vec<Instruction> = c.prog[..k].to_vec();
                            let nb0: usize = c.prog[..k].iter().filter(|i| i.operation == Operation::Publish).map(|i| i.inputs.len()).sum();
                            p0.push(Instruction { operation: Operation::Publish, inputs: ins.inputs.clone(), outputs: vec![] });
                            match eval_off(&p0, &w) {
                                Off::Ok(v0) => v0[nb0.min(v0.len())..].to_vec(),
                                _ => vec![],
                            }
                        } else {
                            iv.to_vec()
                        };
                        let iv = &iv_before[..];
                        if let (Some(key), [o]) = (hash_key(hk, iv), ov) {
                            let t = format!("{hk}:{key}={}", hash_out(o));
                            if !hash_table.contains(&t) {
                                hash_table.push(t);
                            }
                        }
                    }
                }
                Off::Err(cl) => {
                    off_pos_err = Some((k, cl));
                    break;
                }
                Off::Panic(pm) => {
                    off_pos_err = Some((k, "panic".into()));
                    fail("off-circuit evaluation panics", json!({"at": k, "panic": pm}));
                    break;
                }
            }
        }
        // the plain off-circuit run
        let off = eval_off(&c.prog, &w);
        let off_s = match (&off, &off_pos_err) {
            (Off::Ok(v), None) => format!("ok:{}", v.iter().map(fmt_val).collect::<Vec<_>>().join(",")),
            (Off::Err(cl), Some((k, cl2))) if cl == cl2 => format!("err@{k}:{cl}"),
            (Off::Panic(_), Some((k, _))) => format!("panic@{k}"),
            _ => {
                fail("off-circuit evaluation of a prefix disagrees with the whole program", json!(null));
                "inconsistent".to_string()
            }
        };
        sections.push(format!("trace:{}", trace.join(" ")));
        sections.push(format!("off:{off_s}"));
        match &off {
            Off::Ok(_) => tags.push("off:ok".into()),
            Off::Err(cl) => tags.push(format!("off:{}", coarse(cl))),
            Off::Panic(_) => tags.push("off:panic".into()),
        }

        // 3. in-circuit compilation (witness-free pass) and the recorded public-input types
        let cmp = catch(|| {
            dummy_synthesize_run(&MidnightCircuit::new(&rel, Value::unknown(), Value::unknown(), Some(8)))
        });
        let (cmp_s, cmp_ok) = match &cmp {
            Ok(Ok(())) => {
                let tys = rel.verif_public_input_types();
                (format!("ok:{}", tys.iter().map(fmt_ty).collect::<Vec<_>>().join(",")), true)
            }
            Ok(Err(e)) => (format!("err:{}", classify_plonk(e)), false),
            Err(p) => {
                fail("in-circuit compilation panics", json!(p));
                ("panic".to_string(), false)
            }
        };
        tags.push(format!("cmp:{}", if cmp_ok { "ok".to_string() } else if cmp_s == "panic" { cmp_s.clone() } else { coarse(&cmp_s["err:".len()..]) }));
        sections.push(format!("cmp:{cmp_s}"));

        // 3a. intermediate in-circuit structure: the in-circuit type (`CircuitValue::get_type`,
        // for a BigUint the width `nb_bits()` derived from the limb bounds the gadget keeps) of
        // the outputs of EVERY instruction, not only of the values the program publishes. One
        // witness-free pass over the program with `Publish <outputs>` inserted after each
        // instruction that has outputs; the recorded public-input types are those types in
        // program order. A change of the limb bookkeeping of an operation whose result is
        // consumed (compared, converted, reduced) but never published is seen here.
        let shp_s = {
            let p2 = interleave_publish(&c.prog);
            match catch(|| {
                ZkirRelation::from_instructions(&p2).map(|r2| {
                    let res = dummy_synthesize_run(&MidnightCircuit::new(&r2, Value::unknown(), Value::unknown(), Some(8)));
                    res.map(|()| r2.verif_public_input_types())
                })
            }) {
                Ok(Ok(Ok(tys))) => format!("ok:{}", tys.iter().map(fmt_ty).collect::<Vec<_>>().join(",")),
                Ok(Ok(Err(e))) => format!("err:{}", classify_plonk(&e)),
                Ok(Err(e)) => format!("err:{}", classify_zkir(&e)),
                Err(_) => "panic".to_string(),
            }
        };
        if shp_s.starts_with("ok:") != cmp_ok {
            fail("inserting Publish instructions changes the verdict of the in-circuit pass", json!({"cmp": cmp_s, "shp": shp_s}));
        }
        sections.push(format!("shp:{shp_s}"));

        // 3a'. HOW the comparisons are carried out: for every AssertEqual / AssertNotEqual /
        // IsEqual instruction k, the number of native `is_equal` gadget calls (regions named
        // "is_equal (i)", native_chip.rs: is_equal) and of "Assert equal" regions that the
        // instruction itself lays out = regions of the witness-free synthesis of prog[..=k] minus
        // those of prog[..k]. `is_equal_incircuit` on Bytes(n) compares byte by byte: n calls; on a
        // BigUint limb by limb; on a point coordinate by coordinate. Stops at the first prefix
        // that does not synthesize.
        let ieq_s = {
            let count = |names: &[String]| -> (usize, usize) {
                (names.iter().filter(|n| n.as_str() == "is_equal (i)").count(), names.iter().filter(|n| n.as_str() == "Assert equal").count())
            };
            let mut out: Vec<String> = vec![];
            for (k, ins) in c.prog.iter().enumerate() {
                if !matches!(ins.operation, Operation::IsEqual | Operation::AssertNotEqual | Operation::AssertEqual) {
                    continue;
                }
                match (region_names_of(&c.prog[..k]), region_names_of(&c.prog[..=k])) {
                    (Ok(a), Ok(b)) => {
                        let (e0, a0) = count(&a);
                        let (e1, a1) = count(&b);
                        out.push(format!("{k}:{}/{}", e1 as i64 - e0 as i64, a1 as i64 - a0 as i64));
                    }
                    _ => break,
                }
            }
            tags.push(format!("ieq:comparisons-observed:{}", out.len().min(3)));
            out.join(",")
        };
        sections.push(format!("ieq:{ieq_s}"));

        // 3a''. which chips the compiled circuit configures (`zkir.rs: used_chips`)
        {
            let a = rel.used_chips();
            let others = a.sha3_256 || a.keccak_256 || a.blake2b || a.secp256k1 || a.bls12_381 || a.automaton || a.base64;
            sections.push(format!(
                "arch:jubjub={},poseidon={},sha2_256={},sha2_512={},others={},pow2range_cols={}",
                a.jubjub as u8, a.poseidon as u8, a.sha2_256 as u8, a.sha2_512 as u8, others as u8, a.nr_pow2range_cols
            ));
        }

        // 3b. typing verdicts of the two passes: a program rejected by one interpreter for a
        // typing reason must be rejected by the other one as well. The only tolerated gap is the
        // documented one: off-circuit comparisons (AssertEqual / AssertNotEqual / IsEqual) accept
        // operands that the in-circuit versions reject as unsupported.
        if let (Off::Ok(_), Ok(Err(e))) = (&off, &cmp) {
            let cl = classify_plonk(e);
            let tolerated = ["AssertEqual_is_not_supported_on_", "AssertNotEqual_is_not_supported_on_", "IsEqual_is_not_supported_on_"]
                .iter()
                .any(|p| cl.starts_with(p));
            if !tolerated {
                fail("off-circuit evaluation accepts a program that the in-circuit pass rejects", json!(coarse(&cl)));
            }
        }
        if let (Off::Err(cl), true) = (&off, cmp_ok) {
            let typing = cl.contains("_is_not_supported_on_")
                || ["other:type-convert", "other:expecting-bytes", "other:invalid-length"].contains(&cl.as_str());
            if typing {
                fail("off-circuit evaluation rejects a program for a typing reason but the in-circuit pass accepts it", json!(coarse(cl)));
            }
        }

        // 4. the public API: public_inputs (off-circuit values zipped with in-circuit types)
        let api = catch(|| {
            ZkirRelation::from_instructions(&c.prog).and_then(|r| r.public_inputs(w.clone()))
        });
        let mut inst: Option<Vec<(IrValue, IrType)>> = None;
        match (&api, &off) {
            (Err(p), _) => fail("ZkirRelation::public_inputs panics", json!(p)),
            (Ok(Ok(pis)), Off::Ok(vals)) => {
                let tys = rel.verif_public_input_types();
                let same = pis.len() == vals.len()
                    && pis.iter().zip(vals).all(|((v, _), v2)| v == v2)
                    && (!cmp_ok || pis.iter().map(|(_, t)| *t).collect::<Vec<_>>() == tys);
                if !same {
                    fail("public_inputs differs from off-circuit values zipped with in-circuit types", json!(null));
                }
                inst = Some(pis.clone());
            }
            (Ok(Err(e)), Off::Err(cl)) => {
                if &classify_zkir(e) != cl {
                    fail("public_inputs returns another error than the off-circuit interpreter", json!(classify_zkir(e)));
                }
            }
            (Ok(Err(e)), Off::Ok(_)) => {
                // off-circuit fine, in-circuit rejects: an error value is what the property asks for
                if cmp_ok {
                    fail("public_inputs fails although both passes succeed", json!(classify_zkir(e)));
                }
            }
            (Ok(Ok(_)), _) => fail("public_inputs succeeds although off-circuit evaluation fails", json!(null)),
            (Ok(Err(_)), Off::Panic(_)) => {}
        }

        // 5. raw public inputs
        let mut pi: Option<Vec<F>> = None;
        let pi_s = match &inst {
            None => "-".to_string(),
            Some(inst) => match catch(|| ZkirRelation::format_instance(inst)) {
                Ok(Ok(v)) => {
                    let s = v.iter().map(f_hex).collect::<Vec<_>>().join(",");
                    pi = Some(v);
                    format!("ok:{s}")
                }
                Ok(Err(_)) => "err".to_string(),
                Err(p) => {
                    fail("format_instance panics", json!(p));
                    "panic".to_string()
                }
            },
        };
        sections.push(format!("pi:{pi_s}"));

        // 6. the mock checker on the compiled circuit
        if with_mock && cmp_ok {
            let verdict = match (&off, &inst, &pi) {
                (Off::Ok(_), Some(inst), Some(pi)) => {
                    let v = mock(&c.prog, &w, inst.clone(), pi.clone());
                    if v != "sat" {
                        // Attribute the rejection to the recorded finding N7 only when it
                        // disappears once the long Jubjub scalars are no longer published.
                        let long = long_scalars(&c.prog, &trace_vals);
                        let reduced = unpublish(&c.prog, &long);
                        let attributable = !long.is_empty() && reduced != c.prog && {
                            let w2 = w.clone();
                            match catch(|| ZkirRelation::from_instructions(&reduced).and_then(|r| r.public_inputs(w2))) {
                                Ok(Ok(inst2)) => match ZkirRelation::format_instance(&inst2) {
                                    Ok(pi2) => mock(&reduced, &w, inst2, pi2) == "sat",
                                    Err(_) => false,
                                },
                                _ => false,
                            }
                        };
                        if attributable {
                            fail(
                                "KNOWN-CLASS C18:N7-published-jubjub-scalar-from-0-or-32-or-more-bytes off-circuit evaluation succeeds but the compiled circuit rejects its public inputs: a Jubjub scalar built by FromBytes from n = 0 or n >= 32 bytes is published in-circuit as ceil(8n/254) elements of raw bits and off-circuit as one element (the value reduced modulo the group order)",
                                json!({"mock": v}),
                            );
                        } else {
                            fail(
                                "off-circuit evaluation succeeds but the compiled circuit rejects its public inputs",
                                json!({"mock": v}),
                            );
                        }
                    }
                    // dishonest public input: with a published Boolean flipped, the same witness
                    // must NOT satisfy the circuit (the instance is bound to the computed value)
                    if v == "sat" {
                        let flips: Vec<usize> = inst.iter().enumerate().filter(|(_, (x, _))| matches!(x, IrValue::Bool(_))).map(|(i, _)| i).take(2).collect();
                        for fi in flips {
                            let mut forged = inst.clone();
                            if let IrValue::Bool(b) = forged[fi].0 {
                                forged[fi].0 = IrValue::Bool(!b);
                            }
                            if let Ok(Ok(pi2)) = catch(|| ZkirRelation::format_instance(&forged)) {
                                let v2 = mock(&c.prog, &w, forged.clone(), pi2);
                                tags.push(format!("forged-bool-instance:{v2}"));
                                if v2 == "sat" {
                                    fail(
                                        "the compiled circuit accepts a forged public input (a published Boolean flipped) with the same witness",
                                        json!({"flipped-public-input-index": fi, "off-circuit-value": fmt_val(&inst[fi].0)}),
                                    );
                                }
                            }
                        }
                    }
                    // ... and the same for the raw instance column: the first and the last public
                    // input moved by one must not be accepted either (every published value is
                    // bound to the instance column)
                    // (not for programs of the recorded finding N7: a Jubjub scalar built from no
                    // byte is published off-circuit as one element and in-circuit as none)
                    if v == "sat" && !pi.is_empty() && long_scalars(&c.prog, &trace_vals).is_empty() {
                        use ff::Field;
                        let mut idx = vec![0usize];
                        if pi.len() > 1 {
                            idx.push(pi.len() - 1);
                        }
                        for j in idx {
                            let mut pi2 = pi.clone();
                            pi2[j] += F::ONE;
                            let v2 = mock(&c.prog, &w, inst.clone(), pi2);
                            tags.push(format!("perturbed-raw-public-input:{v2}"));
                            if v2 == "sat" {
                                fail(
                                    "the compiled circuit accepts a forged public input (a raw instance value moved by one) with the same witness",
                                    json!({"raw-public-input-index": j}),
                                );
                            }
                        }
                    }
                    v
                }
                (Off::Err(cl), _, _) => {
                    // no instance exists; drop the Publish instructions so that only the
                    // failing condition can make the circuit unsatisfiable
                    // (and stop after the failing instruction: later values, hash digests in
                    // particular, are not defined by the off-circuit run)
                    let upto = off_pos_err.as_ref().map(|(k, _)| k + 1).unwrap_or(c.prog.len());
                    let v = mock(&strip_publish(&c.prog[..upto]), &w, vec![], vec![]);
                    if v == "panic" {
                        fail("proving panics on a witness the off-circuit interpreter rejects with an error", json!({"off": cl}));
                    } else if v == "sat" && (err_is_witness_condition(cl) || true) {
                        fail(
                            "off-circuit evaluation fails but the compiled circuit is satisfied by the same witness",
                            json!({"off": cl}),
                        );
                    }
                    format!("np:{v}")
                }
                _ => "-".to_string(),
            };
            tags.push(format!("mock:{}", match verdict.split_once("err:") { Some((pre, cl)) => format!("{pre}err:{}", coarse(cl)), None => verdict.clone() }));
            sections.push(format!("mock:{verdict}"));
        } else {
            sections.push("mock:-".into());
        }

        // 7. JSON and binary round trips
        let rt = catch(|| -> Result<String, String> {
            let js = serde_json::to_string(&json!({"instructions": c.prog})).map_err(|e| e.to_string())?;
            let r1 = ZkirRelation::read(leak(&js)).map_err(|e| format!("json-read:{e:?}"))?;
            if r1.verif_instructions() != c.prog {
                return Err("json round trip changes the program".into());
            }
            let mut buf = vec![];
            rel.write_relation(&mut buf).map_err(|e| e.to_string())?;
            // the relation is followed by other data inside a serialized proving key: reading
            // must consume exactly what writing produced
            let mut framed = buf.clone();
            framed.extend_from_slice(&[0xAA, 0x55, 0xAA]);
            let mut rd = &framed[..];
            let r2 = ZkirRelation::read_relation(&mut rd).map_err(|e| format!("bin-read:{e}"))?;
            if rd.len() != 3 {
                return Err(format!("read_relation consumes {} bytes of {}", framed.len() - rd.len(), buf.len()));
            }
            ZkirRelation::read_relation(&mut &buf[..]).map_err(|e| format!("bin-read-exact:{e}"))?;
            if r2.verif_instructions() != c.prog {
                return Err("binary round trip changes the program".into());
            }
            let mut buf2 = vec![];
            r2.write_relation(&mut buf2).map_err(|e| e.to_string())?;
            if buf != buf2 {
                return Err("binary encoding not stable".into());
            }
            Ok(hex_bytes(&buf))
        });
        // the text the derived `Serialize` of the instruction list produces
        let js_text = catch(|| serde_json::to_string(&c.prog).map(|t| format!("{{\"instructions\":{t}}}")));
        match rt {
            Ok(Ok(h)) => sections.push(format!("bin:{h}")),
            Ok(Err(m)) => {
                fail("a program does not survive its JSON / binary round trip", json!(m));
                sections.push("bin:fail".into());
            }
            Err(p) => {
                fail("serialisation round trip panics", json!(p));
                sections.push("bin:panic".into());
            }
        }
        match js_text {
            Ok(Ok(t)) => {
                // and the reader accepts exactly this text
                match catch(|| ZkirRelation::read(leak(&t)).map(|r| r.verif_instructions())) {
                    Ok(Ok(p2)) if p2 == c.prog => {}
                    _ => fail("a program does not survive its JSON / binary round trip", json!("serde_json::to_string text is not read back")),
                }
                sections.push(format!("json:{t}"))
            }
            _ => {
                fail("serde_json::to_string fails on a program", json!(null));
                sections.push("json:fail".into())
            }
        }
    }

    let nontrivial = c.prog.len() >= 2;
    let op_line = format!("{kind} {body} | {}", hash_table.join(" "));
    Outcome { op_line, answer: sections.join(" | "), fails, tags, nontrivial }
}
